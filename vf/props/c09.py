"""C09 — small-strain J2 plasticity update (JX): irreversible, isochoric, bracket validity, yield consistent, variational.

The moduli are traced arguments (the material model is built by the real `create_material_model_functions` from a
property dict of tracers).  `ScalarRootFind.rtsafe_` (the Newton/bisection loop behind `find_root`) is replaced *at trace
time* by its contract: a fresh value `x` (hash-consed on everything the real root finder depends on) with
`lb <= x <= ub` and `|r(x)| <= r_tol`, where `r` is the real residual closure handed over by `update_state`
(`jacfwd(incremental_potential)`); `find_root` itself (`custom_root` and its tangent rule) stays the real code.  The
precondition of that contract (the bracket is valid) is obligation O3.  Replays run the unmodified code.
"""
import contextlib
import math

import numpy as onp
import z3
import jax
import jax.numpy as jnp
from jax import core as jcore

from ..core import obligation
from .. import jx, sym
from ..sym import (Le, Lt, Eq, Holds, v_abs, v_lt, v_le, v_eq, v_and, v_or, v_not, v_sub, v_add, v_mul, v_sq, v_dot, v_sum,
                   v_if, v_implies, isz, toz, tob, rat, flat)

P = 'C09'

# parameter box (part of the claim, DESIGN.md section 5 C09)
EY_MIN, EY_MAX = 1.0, 1.0e5       # 1 <= E/Y0 <= 1e5
NU_MAX = 0.49                     # 0 <= nu <= 0.49
H_MIN_REL = 0.0                   # the full designed range 0 <= H <= E (perfect plasticity included)
H_POS_REL = 1.0e-12               # O3 additionally keeps its historical sub-range query H >= 1e-12*E
PAD_MIN, PAD_MAX = 1e-9, 1e-6     # the bracket width is the elastic-predictor bound padded by a relative amount in [PAD_MIN, PAD_MAX]:
                                  # what the bracket proofs need (any padding > (3-2c^2)/3 = 1.8e-16 closes r(ub) >= 0 without hardening)
EQPS_MAX = 10.0
STRAIN_MAX = 1.0


def tol_rel():
    """the module's own tolerance constant J2Plastic._TOLERANCE (shared by the yield test and the root finder)"""
    return float(_mods()[0]._TOLERANCE)


def _mods():
    from optimism import ScalarRootFind, TensorMath
    from optimism.material import J2Plastic, Hardening
    return J2Plastic, Hardening, ScalarRootFind, TensorMath


def s0(a):
    return a[()] if hasattr(a, 'shape') and a.shape == () else a


# ------------------------------------------------------------------------------------------ contract stub of rtsafe_
contract_p = jcore.Primitive('c09_root_contract')
contract_p.def_abstract_eval(lambda x, *a, site: jcore.ShapedArray(x.shape, x.dtype))
_SITE = ['a']


def site(label):
    """label the next root-finder call site (python side effect: happens in trace order and in eager replay order)"""
    _SITE[0] = label


def _rtsafe_contract(f, x0, bracket, settings):
    """contract of ScalarRootFind.rtsafe_: fresh x, deterministic in everything the real solver depends on (the tracers
    the residual closes over, guess, bracket, tolerances); post-condition recorded by `c09_root_contract`"""
    label = _SITE[0]
    _, consts = jax.closure_convert(f, x0)
    key = [jnp.ravel(jnp.asarray(c, dtype=float)) for c in consts]
    key += [jnp.ravel(jnp.asarray(v, dtype=float)) for v in (x0, bracket[0], bracket[1], settings.x_tol, settings.r_tol)]
    x = jx.havoc(jnp.concatenate(key), 'root_' + label)[0]
    lb, ub = bracket[0], bracket[1]
    x = contract_p.bind(x, lb, ub, f(lb), f(ub), f(x), jnp.asarray(settings.r_tol, dtype=float), jnp.asarray(settings.x_tol, dtype=float), site=label)
    return x, None


def _contract_eval(ctx, P_, iv):
    x, lb, ub, rl, rh, rx, rtol, xtol = [s0(v) for v in iv]
    g = ctx.guard()
    rec = dict(guard=g if g is not None else True, x=x, lb=lb, ub=ub, rl=rl, rh=rh, rx=rx, rtol=rtol, xtol=xtol)
    post = v_and(v_le(lb, x), v_le(x, ub), v_le(v_abs(rx), rtol))
    rec['post'] = post
    if getattr(ctx, 'c09_assume_post', True) and isz(post):
        ctx.add_side(post)
    ctx.c09_calls = getattr(ctx, 'c09_calls', {})
    ctx.c09_calls.setdefault(P_['site'], []).append(rec)
    return iv[0]


jx.ELEMENTWISE['c09_root_contract'] = _contract_eval


@contextlib.contextmanager
def stubbed():
    SRF = _mods()[2]
    real = SRF.rtsafe_
    SRF.rtsafe_ = _rtsafe_contract
    try:
        yield
    finally:
        SRF.rtsafe_ = real


@contextlib.contextmanager
def recording(store):
    """replay side: the REAL find_root, wrapped so that the actual arguments of each executed call are recorded"""
    SRF = _mods()[2]
    real = SRF.find_root

    def rec_find_root(f, x0, bracket, settings):
        out = real(f, x0, bracket, settings)
        x = out[0]
        fl = lambda v: float(onp.asarray(v))
        try:
            store.setdefault(_SITE[0], []).append(dict(guard=True, x=fl(x), lb=fl(bracket[0]), ub=fl(bracket[1]), rl=fl(f(bracket[0])),
                                                       rh=fl(f(bracket[1])), rx=fl(f(x)), rtol=fl(settings.r_tol), xtol=fl(settings.x_tol)))
        except jax.errors.TracerArrayConversionError:
            pass        # call under differentiation (stress): the same site was recorded by the plain evaluation before
        return out
    SRF.find_root = rec_find_root
    try:
        yield
    finally:
        SRF.find_root = real


_ABSENT = dict(guard=False, x=0.0, lb=0.0, ub=0.0, rl=0.0, rh=0.0, rx=0.0, rtol=0.0, xtol=0.0, post=True)


class Calls:
    """root-finder call sites by label; an absent/unexecuted site reads as guard False"""

    def __init__(self, d):
        self.d = d

    def __call__(self, label, k=0):
        recs = self.d.get(label) or []
        return recs[k] if len(recs) > k else _ABSENT

    def labels(self):
        return sorted(self.d)


# ------------------------------------------------------------------------------------------ traced functions
def hardening_props(Y0, hard, kind='linear', rate=None):
    """property-dict entries of a hardening law; rate = (S, m, epsDot0) switches the power-law rate sensitivity on"""
    d = {'yield strength': Y0}
    if kind == 'linear':
        d.update({'hardening model': 'linear', 'hardening modulus': hard[0]})
    elif kind == 'voce':
        d.update({'hardening model': 'voce', 'saturation strength': hard[0], 'reference plastic strain': hard[1]})
    elif kind == 'power law':
        d.update({'hardening model': 'power law', 'hardening exponent': hard[0], 'reference plastic strain': hard[1]})
    else:
        raise ValueError(kind)
    if rate is not None:
        d.update({'rate sensitivity': 'power law', 'rate sensitivity stress': rate[0], 'rate sensitivity exponent': rate[1], 'reference plastic strain rate': rate[2]})
    return d


def make_model(E, nu, Y0, hard, kind='linear', rate=None, mutate=None):
    """mutate: entries written into the caller's property dict AFTER the material has been created (a material must keep the
    constants it was created with)"""
    J2 = _mods()[0]
    props = {'elastic modulus': E, 'poisson ratio': nu, 'kinematics': 'small deformations'}
    props.update(hardening_props(Y0, hard, kind, rate))
    m = J2.create_material_model_functions(props)
    if mutate:
        props.update(mutate)
    return m


def sym_state(p, eqps):
    """state vector from 5 independent plastic-strain components: symmetric and traceless by construction (the state
    invariant; O2 shows it is inductive)"""
    a = onp.empty(10, dtype=object)
    a[0] = eqps
    e = [[p[0], p[3], p[4]], [p[3], p[1], p[5]], [p[4], p[5], None]]
    e[2][2] = -(toz(p[0]) + toz(p[1])) if (isz(p[0]) or isz(p[1])) else -(p[0] + p[1])
    for i in range(3):
        for j in range(3):
            a[1 + 3 * i + j] = e[i][j]
    return a


class J2Case:
    """like jxh.Case, but (a) traced with rtsafe_ replaced by its contract, (b) inputs may be structured (entries fixed
    to constants / expressions of the free variables), (c) spec(inp, out, calls) also sees the root-finder call sites,
    (d) replay = unmodified code, eager, with a recording wrapper around the real find_root."""

    def __init__(self, h, fn, example, build=None, sampler=None, label='fn', validate=3, assume_post=True, rtol=1e-8):
        self.h, self.fn, self.label, self.sampler = h, fn, label, sampler
        self.names = list(example.keys())
        self.example = [onp.asarray(example[k], dtype=float) for k in self.names]
        with stubbed():
            site('a')
            self.cj, self.out_shape = jax.make_jaxpr(fn, return_shape=True)(*[jnp.asarray(a) for a in self.example])
        self.treedef = jax.tree_util.tree_structure(self.out_shape)
        if validate:
            worst, n_calls = self._validate(validate, sampler, rtol)
            h.fact('translator_validation[%s]' % label, True,
                   'max rel err %.2e on %d ground runs of the stubbed symbolic path with the stub value := real root; the real root '
                   'satisfied the contract post-condition at all %d executed call sites%s' % (worst, validate - getattr(self, 'nan_samples', 0), n_calls,
                   ('; %d sample(s) skipped because the REAL code returned non-finite values' % self.nan_samples if getattr(self, 'nan_samples', 0) else '')
                   + ('; at %d executed call site(s) the REAL root did NOT satisfy the contract post-condition (see O0.find_root_contract_at_call_site)' % self.contract_failures
                      if getattr(self, 'contract_failures', 0) else '')), nontrivial=False)
        self.ctx = jx.Ctx()
        self.ctx.c09_assume_post = assume_post
        self.ctx.c09_calls = {}
        self.free = {k: sym.sym_array(k, e.shape) for k, e in zip(self.names, self.example)}
        self.inp = build(self.free) if build else dict(self.free)
        outs = jx.eval_jaxpr(self.ctx, self.cj.jaxpr, self.cj.consts, *[self.inp[k] for k in self.names])
        self.out = jax.tree_util.tree_unflatten(self.treedef, outs)
        self.calls = Calls(self.ctx.c09_calls)

    # -- real code
    def real(self, args):
        store = {}
        with recording(store), jax.disable_jit():
            site('a')
            out = self.fn(*[jnp.asarray(a) for a in args])
        out = jax.tree_util.tree_map(lambda x: onp.asarray(x), out)
        return out, Calls(store)

    def _validate(self, n, sampler, rtol):
        rng = onp.random.default_rng(self.h.seed)
        worst, ncalls = 0.0, 0
        for k in range(n):
            args = [onp.asarray(v, dtype=float) for v in sampler(rng)] if (sampler is not None and k) else self.example
            real_out, calls = self.real(args)
            if not all(onp.all(onp.isfinite(onp.asarray(l, dtype=float))) for l in jax.tree_util.tree_leaves(real_out)):
                self.nan_samples = getattr(self, 'nan_samples', 0) + 1     # nothing to compare with: the real run is non-finite (the obligations decide why)
                continue
            ctx = jx.Ctx(ground=True)
            ctx.c09_assume_post = False
            ctx.c09_calls = {}

            def havoc_hook(ctx_, eqn, iv, calls=calls):
                lab = eqn.params['tag'][len('root_'):]
                rec = calls(lab)
                val = rat(rec['x']) if rec['guard'] and math.isfinite(rec['x']) else rat(0.0)
                return jx.ew(lambda _: val, iv[0])
            ctx.hooks['vf_havoc'] = havoc_hook
            gargs = [jx.ew(lambda v: rat(v), a) for a in args]
            outs = jx.eval_jaxpr(ctx, self.cj.jaxpr, self.cj.consts, *gargs)
            for o, r in zip(outs, jax.tree_util.tree_leaves(real_out)):
                r = onp.asarray(r, dtype=float)
                for x, y in zip(o.reshape(-1), r.reshape(-1)):
                    g = jx.ground_num(ctx, toz(x)) if isz(x) else x
                    if g is None:
                        raise jx.JXError('validation: output did not reduce to a numeral: %s' % x)
                    g = float(g)
                    err = abs(g - y) / (1.0 + abs(y))
                    worst = max(worst, err)
                    if not err <= rtol:
                        raise jx.JXError('translator validation failed [%s]: JX %r vs real %r (inputs %s)' % (self.label, g, y, [a.tolist() for a in args]))
            # the real root must satisfy the contract's post-condition wherever the call site was really executed
            for lab, recs in ctx.c09_calls.items():
                for rec in recs:
                    gd = rec['guard']
                    gd = True if gd is True else bool(jx.ground_num(ctx, gd))
                    if not gd:
                        continue
                    if not calls(lab)['guard']:
                        raise jx.JXError('validation: call site %s reached symbolically but not in the real run' % lab)
                    post = jx.ground_num(ctx, tob(rec['post']))
                    if post is not True:
                        # not a translator problem: the REAL find_root result does not meet the contract substituted for it. The verdict is carried by
                        # O0.find_root_contract_at_call_site (decided, replayable); this obligation keeps using the contract.
                        self.contract_failures = getattr(self, 'contract_failures', 0) + 1
                        continue
                    ncalls += 1
        return worst, ncalls

    # -- proving
    def side(self, denoms=True):
        s = self.ctx.all_side()
        if denoms:
            s = s + self.ctx.nonzero_denoms()
        return s

    def conc_inputs(self, vals):
        return {k: onp.asarray(vals[k], dtype=float).reshape(e.shape) for k, e in zip(self.names, self.example)}

    def prove(self, name, spec, cap=60, order=('core', 'nlsat'), denoms=True, extra_assumes=(), axioms=False, drop_side=False, rewrite=None, witness=True):
        """rewrite: applied to EVERY assumption and to the goal (used to rename a compound term to a fresh variable
        consistently in the whole query: every model of the original query extends to one of the renamed query, so unsat
        carries over)"""
        assumes, atoms = spec(self.inp, self.out, self.calls)
        single = isinstance(atoms, sym.Atom)
        if single:
            atoms = [atoms]
        base = list(assumes) + ([] if drop_side else self.side(denoms)) + list(extra_assumes)
        if axioms:
            base += jx.uf_axioms(self.ctx)
        if rewrite is not None:
            base = [rewrite(tob(f)) for f in base if not (isinstance(f, bool) and f)]
            atoms = [_sub_atom(a, rewrite) for a in atoms]
        recs = []
        for i, atom in enumerate(atoms):
            def concrete(vals, i=i):
                ci = self.conc_inputs(vals)
                co, cc = self.real([ci[k] for k in self.names])
                if getattr(self, 'replay_extra', None) is not None:      # replay-only reference values computed from the unmodified code
                    co = dict(co)
                    co.update(self.replay_extra([ci[k] for k in self.names], co))
                ca, catoms = spec(ci, co, cc)
                if isinstance(catoms, sym.Atom):
                    catoms = [catoms]
                ok = all(bool(x) for x in flat(list(ca)))
                info = dict(outputs=[onp.asarray(l).tolist() for l in jax.tree_util.tree_leaves(co)][:4],
                            calls={lab: cc(lab) for lab in cc.labels()})
                return ok, catoms[i], info
            qn = name if single and not atom.name else '%s.%s' % (name, atom.name or str(i))
            rec = self.h.prove(qn, base, atom, inputs=self.inp, concrete=concrete, cap=cap, order=order)
            if rec is not None and rec['status'] == 'inconclusive' and witness and rewrite is None:
                # unknown: ask the solver about single points of the box (every free input pinned; only the stub value and the
                # square roots stay free). A sat answer there is a genuine counterexample and is replayed like any other.
                for k, pins in enumerate(self.witness_points()):
                    w = self.h.prove(qn + '[witness_search_%d]' % k, base + pins, atom, inputs=self.inp, concrete=concrete, cap=min(cap, 20), order=('nlsat', 'core'),
                                     check_vacuity=False, note='counterexample search at a pinned input point after an unknown')
                    if w is None:
                        break
                    if w['status'] == 'violated':
                        if rec in self.h.records:
                            self.h.records.remove(rec)
                        rec = w
                        break
                    if w in self.h.records:
                        self.h.records.remove(w)        # nothing found at this point: the unknown above stands
            recs.append(rec)
        return recs

    def witness_points(self):
        """three points with rational |dev strain| (so that every intermediate value is rational): yielding from the virgin
        state, elastic, yielding from a hardened state. strain = a*M - k*M with M = [[1,1,0],[1,-1,0],[0,0,0]], |dev M| = 2"""
        M = onp.array([[1.0, 2.0, 0.0], [0.0, -1.0, 0.0], [0.0, 0.0, 0.0]])
        Ms = onp.array([[1.0, 1.0, 0.0], [1.0, -1.0, 0.0], [0.0, 0.0, 0.0]])
        out = []
        for a, k, eq in ((1 / 64, 0.0, 0.0), (1 / 4096, 0.0, 0.0), (1 / 64, 1 / 1024, 1 / 128)):
            vals = dict(dg=a * M, st=onp.concatenate([[eq], (k * Ms).ravel()]), E=200.0, nu=0.25, Y0=1.0, H=20.0, dt=0.5, S=0.5, ed0=2.0)
            if not all(n in vals for n in self.names):
                return []
            out.append([x == rat(float(v)) for n in self.names for x, v in zip(self.free[n].ravel(), onp.asarray(vals[n], dtype=float).ravel())])
        return out


# ------------------------------------------------------------------------------------------ boxes
def box_moduli(i, hmin_rel=H_MIN_REL, kind='linear'):
    E, nu, Y0, dt = s0(i['E']), s0(i['nu']), s0(i['Y0']), s0(i['dt'])
    a = [v_lt(0.0, Y0), v_le(v_mul(EY_MIN, Y0), E), v_le(E, v_mul(EY_MAX, Y0)), v_le(0.0, nu), v_le(nu, NU_MAX), v_lt(0.0, dt)]
    if kind == 'linear':
        H = s0(i['H'])
        a += [v_le(v_mul(hmin_rel, E), H), v_le(H, E)]
    return a


def box_state(i):
    a = [v_le(0.0, i['st'][0]), v_le(i['st'][0], EQPS_MAX)]
    for x in flat(i['st'][1:]):
        a += [v_le(-STRAIN_MAX, x), v_le(x, STRAIN_MAX)]
    for x in flat(i['dg']):
        a += [v_le(-STRAIN_MAX, x), v_le(x, STRAIN_MAX)]
    return a


def state_invariant(st):
    """plastic strain symmetric and traceless (needed on the concrete side; symbolic side has it by construction)"""
    e = onp.asarray(st[1:], dtype=object).reshape(3, 3)
    cs = [v_eq(e[i, j], e[j, i]) for i in range(3) for j in range(i + 1, 3)]
    return cs


EX = dict(dg=0.01 * onp.array([[1.0, 0.3, -0.2], [0.1, -0.5, 0.4], [0.2, 0.1, 0.3]]),
          st=onp.array([0.002, 1e-3, 2e-4, 1e-4, 2e-4, -5e-4, 1e-4, 1e-4, 1e-4, -5e-4]),
          E=200.0, nu=0.3, Y0=1.0, H=2.0, dt=1.0)


def sampler_full(rng):
    p = rng.normal(size=6) * 3e-3
    st = onp.asarray(sym_state(list(p), abs(rng.normal()) * 1e-2), dtype=float)
    return [rng.normal(size=(3, 3)) * 10 ** rng.uniform(-4, -1.5), st, 10 ** rng.uniform(1.5, 3), rng.uniform(0, 0.45), 10 ** rng.uniform(-1, 0.5),
            10 ** rng.uniform(-2, 1), 1.0]


def build_full(free):
    """dispGrad: all 9 components free; state: eqps + 5 independent plastic-strain components"""
    d = dict(free)
    s = free['st']
    d['st'] = sym_state([s[1], s[5], None, s[2], s[3], s[6]], s[0])
    return d


def build_plane(free):
    """plane-strain block: out-of-plane row/column of dispGrad and the out-of-plane plastic shears vanish"""
    d = dict(free)
    dg = free['dg'].copy()
    for (a, b) in [(0, 2), (1, 2), (2, 0), (2, 1), (2, 2)]:
        dg[a, b] = 0.0
    s = free['st']
    d['dg'] = dg
    d['st'] = sym_state([s[1], s[5], None, s[2], 0.0, 0.0], s[0])
    return d


def f_state(dg, st, E, nu, Y0, H, dt):
    return make_model(E, nu, Y0, (H,)).compute_state_new(dg, st, dt)




C_FLOW = float(onp.sqrt(3. / 2.))   # the normalisation of the flow direction (N:N = 3/2) as a binary64 number
import fractions
CC_EXACT = fractions.Fraction(C_FLOW) ** 2   # its exact square (the code's N:N)
DEFECT_EXACT = 3 - 2 * CC_EXACT              # 3 - 2 c^2 = 5.3e-16 > 0: binary64 sqrt(3/2) is rounded down


def f_chain(dg, st, E, nu, Y0, H, dt, energy=False, stress=False, rate=None, mutate=None):
    """first update (site a), second update from the committed state (site b), and real-code by-products the chain
    lemmas are phrased in (all computed by the repository's functions). rate = (S, m, epsDot0): rate-sensitive material;
    mutate: the property dict the material was created from is overwritten with these entries before anything is traced"""
    J2, Hd, SRF, TM = _mods()
    m = make_model(E, nu, Y0, (H,), rate=rate, mutate=mutate)
    props = J2.make_properties(E, nu, Y0)
    hm = Hd.create_hardening_model(hardening_props(Y0, (H,), 'linear', rate))      # reference: a dict of its own that is never edited
    site('a')
    st1 = m.compute_state_new(dg, st, dt)
    E0, E1 = J2.compute_elastic_linear_strain(dg, st), J2.compute_elastic_linear_strain(dg, st1)
    D0, D1 = TM.dev(E0), TM.dev(E1)
    N0, N1 = J2.compute_flow_direction(E0), J2.compute_flow_direction(E1)
    aux = dict(mu=props[J2.PROPS_MU], DD0=jnp.tensordot(D0, D0), DN0=jnp.tensordot(D0, N0), DD1=TM.norm_of_deviator_squared(E1),
               DN1=jnp.tensordot(D1, N1), F0=hm.compute_flow_stress(st[0], st[0], dt), F1=hm.compute_flow_stress(st1[0], st[0], dt),
               N0=N0, D0=D0, D1=D1, E1=E1)
    if energy:
        site('a')
        aux['W0'] = m.compute_energy_density(dg, st, dt)
    if stress:
        site('a')
        aux['S0'] = jax.grad(m.compute_energy_density)(dg, st, dt)
    site('b')
    st2 = m.compute_state_new(dg, st1, dt)
    if energy:
        site('b')
        aux['W1'] = m.compute_energy_density(dg, st1, dt)
    if stress:
        site('b')
        aux['S1'] = jax.grad(m.compute_energy_density)(dg, st1, dt)
    return st1, st2, aux


def v_div(a, b):
    if isz(a) or isz(b):
        return toz(a) / toz(b)
    return a / b


S_MAX_REL, RATE_MIN, RATE_MAX = 100.0, 1e-6, 1e6


def box_rate(i):
    """rate-sensitive material: 0 <= S <= 100*Y0, reference rate and time step in [1e-6, 1e6]"""
    S, ed0, dt, Y0 = s0(i['S']), s0(i['ed0']), s0(i['dt']), s0(i['Y0'])
    return [v_le(0.0, S), v_le(S, v_mul(S_MAX_REL, Y0)), v_le(RATE_MIN, ed0), v_le(ed0, RATE_MAX), v_le(RATE_MIN, dt), v_le(dt, RATE_MAX)]


class SpecSqrt:
    """spec-level square roots: a z3 variable with its (guard-free) definition, or math.sqrt on the replay side"""

    def __init__(self):
        self.vars = {}

    def __call__(self, name, t):
        if not isz(t):
            return math.sqrt(max(float(t), 0.0)), []
        if name not in self.vars:
            self.vars[name] = z3.Real('spec_sqrt_' + name)
        v = self.vars[name]
        return v, [v >= 0, v * v == t]


class Q:
    """dual-evaluated quantities of the chain (z3 terms of the real code, or floats of a real run)"""

    def __init__(self, i, o, calls, sq, hmin_rel=H_MIN_REL):
        st1, st2, ax = o
        self.i, self.st1, self.st2, self.ax = i, st1, st2, ax
        self.A, self.B = calls('a'), calls('b')
        self.g, self.gb = self.A['guard'], self.B['guard']
        self.E, self.nu, self.Y0, self.H = s0(i['E']), s0(i['nu']), s0(i['Y0']), s0(i['H'])
        self.e0, self.e1 = i['st'][0], st1[0]
        self.a = v_sub(self.e1, self.e0)
        for k in ('mu', 'DD0', 'DN0', 'DD1', 'DN1', 'F0', 'F1'):
            setattr(self, k, s0(ax[k]))
        self.s, as0 = sq('s0', self.DD0)
        self.s1, as1 = sq('s1', self.DD1)
        self.nz0, self.nz1 = v_lt(1e-16, self.DD0), v_lt(1e-16, self.DD1)
        self.tolY = v_mul(tol_rel(), self.Y0)
        # slope of the flow stress in eqps at fixed eqps_old: H, plus S/(dt*epsDot0) for the rate-sensitive material with exponent m = 1
        self.rate = 'S' in i
        if self.rate:
            self.S, self.ed0, self.dt = s0(i['S']), s0(i['ed0']), s0(i['dt'])
            self.visc = v_div(self.S, v_mul(self.dt, self.ed0))
            self.K = v_add(self.H, self.visc)
        else:
            self.K = self.H
        self.sq_defs = as0 + as1
        self.assumes = box_moduli(i, hmin_rel=hmin_rel) + box_state(i) + state_invariant(i['st']) + as0 + as1 + (box_rate(i) if self.rate else [])
        # s - c*a : the norm of the deviatoric elastic strain after the return
        self.rem = v_sub(self.s, v_mul(C_FLOW, self.a))
        self.cca = v_mul(C_FLOW, v_mul(C_FLOW, self.a))


def _fact(atom):
    """the z3 formula a discharged atom stands for"""
    return z3.Not(atom.neg(0))


def _consts(fs):
    seen, out, todo = set(), set(), list(fs)
    while todo:
        t = todo.pop()
        if t.get_id() in seen:
            continue
        seen.add(t.get_id())
        if z3.is_const(t) and t.decl().kind() == z3.Z3_OP_UNINTERPRETED:
            out.add(str(t))
        todo.extend(t.children())
    return out


def _size(t):
    seen, todo = set(), [t]
    while todo:
        x = todo.pop()
        if x.get_id() not in seen:
            seen.add(x.get_id())
            todo.extend(x.children())
    return len(seen)


def _sub_atom(atom, f):
    import copy
    b = copy.copy(atom)
    for k in ('a', 'b', 'c', 'when', 'scale'):
        if hasattr(b, k):
            v = getattr(b, k)
            if isinstance(v, (list, tuple)):
                setattr(b, k, [f(x) if isz(x) else x for x in v])
            elif isinstance(v, onp.ndarray):
                setattr(b, k, [f(x) if isz(x) else x for x in v.ravel()])
            elif isz(v):
                setattr(b, k, f(v))
    return b


class Chain:
    """cut-lemma chain over ONE symbolic evaluation of the real code: links are proved with every definition present;
    the final goal is discharged from the proved links after the compound terms have been renamed to fresh scalars and
    all definitions have been dropped (dropping definitions only enlarges the set of models, so unsat stays sound)."""

    def __init__(self, h, case, sq, hmin_rel=H_MIN_REL):
        self.h, self.c, self.sq, self.hmin_rel = h, case, sq, hmin_rel
        self.facts = []          # [(name, z3 formula)] proved links
        self.failed = []
        self.violated = False    # a link or goal was refuted on the real code: the rest of the chain is pointless

    def q(self, hmin_rel=None):
        return Q(self.c.inp, self.c.out, self.c.calls, self.sq, self.hmin_rel if hmin_rel is None else hmin_rel)

    def link(self, name, mk_atoms, cap=60, order=('core', 'nlsat'), use_facts=True, generalise=None, rename=None):
        """mk_atoms(q) -> list of atoms; proved on the real terms (with replay); discharged ones become facts.
        generalise: {atom name: fn(q) -> compound terms} that are replaced by fresh variables in that GOAL atom only before
        proving (a valid generalised goal implies its instance; the recorded fact is the instance).
        rename(q) -> compound terms renamed to fresh variables in the WHOLE query (assumptions and goal)"""
        rw = None
        if rename is not None:
            rn = [(t, z3.Real('ren_%s_%d' % (name.replace('.', '_'), k))) for k, t in enumerate(rename(self.q())) if isz(t) and not z3.is_const(t)]
            rn.sort(key=lambda p: -_size(p[0]))

            def rw(f):
                for t, v in rn:
                    f = z3.substitute(f, (t, v))
                return f
        gen = {}
        for an, fn in (generalise or {}).items():
            gen[an] = [(t, z3.Real('gen_%s_%d' % (an, k))) for k, t in enumerate(fn(self.q())) if isz(t) and not z3.is_const(t)]

        def spec(i, o, calls):
            q = Q(i, o, calls, self.sq, self.hmin_rel)
            atoms = mk_atoms(q)
            if gen and isz(q.g):
                atoms = [_sub_atom(a, lambda f, a=a: z3.substitute(f, *gen[a.name])) if gen.get(a.name) else a for a in atoms]
            return q.assumes, atoms
        facts = [f for _, f in self.facts] if use_facts else ()
        recs = self.c.prove(name, spec, cap=cap, order=order, extra_assumes=facts, rewrite=rw)
        if (rw is not None or gen) and any(r is not None and r['status'] != 'discharged' for r in recs):
            # a renamed/generalised query has no replayable model: decide the failing atoms again over the real inputs
            bad = [k for k, r in enumerate(recs) if r is not None and r['status'] != 'discharged']

            def spec_bad(i, o, calls):
                q = Q(i, o, calls, self.sq, self.hmin_rel)
                atoms = mk_atoms(q)
                return q.assumes, [atoms[k] for k in bad]
            again = self.c.prove(name + '[over_real_inputs]', spec_bad, cap=cap, order=order, extra_assumes=facts)
            for k, r2 in zip(bad, again):
                if r2 is not None and r2['status'] in ('discharged', 'violated'):
                    if recs[k] in self.h.records:
                        self.h.records.remove(recs[k])
                    recs[k] = r2
        atoms = mk_atoms(self.q())
        for rec, atom in zip(recs, atoms):
            if rec is None:
                continue
            if rec['status'] == 'violated':
                self.violated = True
            if rec['status'] == 'discharged':
                self.facts.append((rec['query'], _fact(atom)))
            else:
                self.failed.append(rec['query'])
        return recs

    def contract_facts(self):
        """post-condition of the root-finder contract at site a (an assumption of the claim, justified by O3 + C17)"""
        A = self.c.calls('a')
        if isz(A['guard']):
            self.facts.append(('contract_post[a]', z3.Implies(A['guard'], tob(A['post']))))

    def close(self, name, mk_goal, table=None, cap=60, order=('nlsat', 'core'), extra=(), hmin_rel=None):
        """final step: rename compound terms (table: name -> term picked from q) to fresh scalars in the proved facts and in
        the goal, drop every definition, decide. Falls back to the query over the real inputs (with replay) otherwise."""
        hmin_rel = self.hmin_rel if hmin_rel is None else hmin_rel
        q = self.q(hmin_rel)
        goal = mk_goal(q)
        pairs = []
        scalars = {'E', 'nu', 'Y0', 'H', 'dt', 'st_0', 'S', 'ed0'} | {str(v) for v in self.sq.vars.values()}
        for nm, t in (table or _table_all)(q):
            if not isz(t):
                continue
            if _consts([t]) <= scalars or (z3.is_const(t) and t.decl().kind() == z3.Z3_OP_UNINTERPRETED):
                scalars |= _consts([t])          # already a scalar expression of the parameters / a fresh value: kept as it is
                continue
            pairs.append((t, (z3.Bool if z3.is_bool(t) else z3.Real)('abs_' + nm)))
        pairs.sort(key=lambda p: -_size(p[0]))      # outermost terms first: a renamed term must not be broken up by renaming its parts

        def sub(f):
            for t, v in pairs:
                f = z3.substitute(f, (t, v))
            return f
        ok_names = {str(v) for _, v in pairs} | scalars
        facts = [sub(f) for _, f in self.facts] + [sub(tob(x)) for x in extra]
        facts = [f for f in facts if _consts([f]) <= ok_names]      # links that still mention tensor components are not needed (dropping is sound)
        box = [sub(tob(x)) for x in box_moduli(self.c.inp, hmin_rel=hmin_rel) + (box_rate(self.c.inp) if q.rate else []) + [v_le(0.0, q.e0), v_le(q.e0, EQPS_MAX)] + q.sq_defs]
        g2 = _sub_atom(goal, sub)
        stray = sorted(x for x in _consts(box + [g2.neg(0)]) if x not in ok_names)
        rec = None
        if not stray:
            rec = self.h.prove(name, facts + box, g2, inputs={str(v): v for _, v in pairs}, concrete=None, cap=cap, order=order,
                               note='chain close: %d proved links, definitions dropped, %d compound terms renamed' % (len(self.facts), len(pairs)))
        if rec is not None and rec['status'] == 'discharged':
            self.facts.append((rec['query'], _fact(goal)))
        if rec is None or rec['status'] != 'discharged':
            # look for a counterexample over the real inputs (replayable); the proved links stay as assumptions
            def spec(i, o, calls):
                qq = Q(i, o, calls, self.sq, hmin_rel)
                return qq.assumes, mk_goal(qq)
            fb = self.c.prove(name + '[over_real_inputs%s]' % ('' if not stray else ';stray=' + ','.join(stray[:4])), spec, cap=cap, order=('core', 'nlsat'),
                              extra_assumes=[f for _, f in self.facts])
            if rec is not None and fb and all(r is not None and r['status'] in ('discharged', 'violated') for r in fb) and rec in self.h.records:
                self.h.records.remove(rec)      # the renamed query was only a proof aid; the verdict over the real inputs stands
            if fb and all(r is not None and r['status'] == 'discharged' for r in fb):
                self.facts.append((fb[0]['query'], _fact(goal)))
            if fb and any(r is not None and r['status'] == 'violated' for r in fb):
                self.violated = True
        return rec


def chain_case(h, build, lab, energy=False, stress=False, assume_post=False, hmin_rel=H_MIN_REL, fn=None, ex=None, sampler=None):
    """assume_post=False: the post-condition of the root-finder contract is not part of the definitions; it enters as an
    explicit fact (Chain.contract_facts) where the chain uses it"""
    fn = fn or (lambda dg, st, E, nu, Y0, H, dt: f_chain(dg, st, E, nu, Y0, H, dt, energy=energy, stress=stress))
    c = J2Case(h, fn, ex or EX, build=build, sampler=sampler or sampler_full, label='chain_' + lab, assume_post=assume_post)
    return Chain(h, c, SpecSqrt(), hmin_rel)


# ---- the links (each is a query on the real code's terms, all definitions present)
def links_flow_direction(ch, cap=60):
    """(i) N*s = c*dev(E), dev(E):N = c*s with s = |dev E| (when |dev E|^2 > 1e-16), at the trial state"""
    def mk(q):
        N, D = q.ax['N0'], q.ax['D0']
        N = onp.asarray(N, dtype=object).reshape(3, 3)
        return [Eq(v_sum([N[0, 0], N[1, 1], N[2, 2]]), 0.0, name='N_traceless'),
                Eq([v_sub(N[a, b], N[b, a]) for a in range(3) for b in range(a + 1, 3)], 0.0, name='N_symmetric'),
                Eq([v_mul(n, q.s) for n in flat(N)], [v_mul(C_FLOW, d) for d in flat(D)], when=q.nz0, name='N_s_eq_c_devE'),
                Eq(v_dot(N, N), CC_EXACT, when=q.nz0, name='N_N_eq_3_2_rounded'),
                Eq(q.DN0, v_mul(C_FLOW, q.s), when=q.nz0, name='devE_N_eq_c_s')]
    return ch.link('i.flow_direction', mk, cap=cap)


def links_yield_predicate(ch, cap=60):
    """the yield test of the real code in terms of the by-products; yielding implies a non-degenerate flow direction
    (this is where E/Y0 <= 1e5 is needed); hardening law; shared tolerance"""
    def mk(q):
        A = q.A
        over = v_sub(v_mul(v_mul(2.0, q.mu), q.DN0), q.F0)
        return [Holds(v_eq(q.g, v_lt(q.tolY, over)) if isz(q.g) else (bool(q.g) == bool(q.tolY < over)), name='yield_test_is_2mu_devE_N_minus_flow_gt_tol'),
                Lt(1e-16, q.DD0, when=q.g, name='yielding_implies_nondegenerate', scale=0.0),
                Eq(q.F0, v_add(q.Y0, v_mul(q.H, q.e0)), name='flow_stress_old_linear', scale=q.Y0),
                Eq(q.F1, v_add(v_add(q.Y0, v_mul(q.H, q.e1)), v_mul(q.visc, q.a) if q.rate else 0.0), name='flow_stress_new_linear', scale=q.Y0),
                Eq(A['rtol'], q.tolY, when=q.g, name='root_tolerance_is_yield_tolerance', scale=q.tolY),
                Eq(q.e1, A['x'], when=q.g, name='new_eqps_is_root', scale=1e-3),
                Eq(q.e1, q.e0, when=v_not(q.g), name='elastic_keeps_eqps', scale=1e-3),
                Eq(q.DD1, q.DD0, when=v_not(q.g), name='elastic_keeps_strain_norm', scale=q.DD0)]
    return ch.link('yield_predicate', mk, cap=cap)


def links_bracket(ch, cap=60):
    """(iii) at the bracket ends: r(lb), r(ub) and the bracket width in closed form"""
    def mk(q):
        A = q.A
        T = v_mul(v_mul(2.0, q.mu), q.DN0)
        w = v_sub(A['ub'], A['lb'])
        rh = v_add(v_sub(v_add(v_mul(v_mul(2.0, q.mu), v_mul(C_FLOW, v_mul(C_FLOW, w))), v_add(q.F0, v_mul(q.K, w))), T), 0.0)
        return [Eq(A['lb'], q.e0, when=q.g, name='lb_is_old_eqps', scale=1e-3),
                Eq(A['rl'], v_sub(q.F0, T), when=v_and(q.g, q.nz0), name='r_lb_closed_form', scale=q.Y0),
                Eq(A['rh'], rh, when=v_and(q.g, q.nz0), name='r_ub_closed_form', scale=q.Y0)]
    def mk_w(q):
        A = q.A
        T = v_mul(v_mul(2.0, q.mu), q.DN0)
        w3 = v_mul(v_mul(3.0, q.mu), v_sub(A['ub'], A['lb']))
        return [Le(v_mul(1.0 + PAD_MIN, v_sub(T, q.F0)), w3, when=v_and(q.g, q.nz0), name='width_at_least_padded_predictor_bound', scale=q.Y0),
                Le(w3, v_mul(1.0 + PAD_MAX, v_sub(T, q.F0)), when=v_and(q.g, q.nz0), name='width_at_most_padded_predictor_bound', scale=q.Y0)]
    r1 = ch.link('iii.bracket_ends', mk, cap=cap, generalise={'r_ub_closed_form': lambda q: [q.A['ub']]})
    # the width only involves dev(E):N as a whole: that term is renamed in the whole query (scalar reasoning)
    return r1 + ch.link('iii.bracket_width', mk_w, cap=cap, use_facts=False, rename=lambda q: [q.DN0])


def links_return(ch, cap=120):
    """(ii) |dev(E')|^2 = (s - a c)^2 and (iii) r(x) = -2 mu c (s - a c) + flow(x) at the value returned by the root finder"""
    def mk(q):
        A = q.A
        return [Eq(q.DD1, v_sq(q.rem), when=v_and(q.g, q.nz0), name='ii.norm_after_return', scale=q.DD0),
                Eq(A['rx'], v_add(v_mul(v_mul(-2.0, q.mu), v_sub(q.DN0, q.cca)), q.F1), when=v_and(q.g, q.nz0), name='iii.residual_closed_form', scale=q.Y0)]
    return ch.link('return', mk, cap=cap)


def _table_all(q):
    A, B = q.A, q.B
    return [('g', q.g), ('gb', q.gb), ('rx', A['rx']), ('rl', A['rl']), ('rh', A['rh']), ('ub', A['ub']), ('x', A['x']), ('rtol', A['rtol']),
            ('DN1', q.DN1), ('DD1', q.DD1), ('F1', q.F1), ('e1', q.e1), ('DN0', q.DN0), ('DD0', q.DD0), ('lb', A['lb'])]


# ------------------------------------------------------------------------------------------ obligations
def _common(h, linear=True):
    J2, Hd, SRF, TM = _mods()
    h.encoded(J2.create_material_model_functions, J2.make_properties, J2.compute_state_new_small_deformations, J2.compute_elastic_linear_strain,
              J2.compute_state_increment, J2.update_state, J2.compute_flow_direction, J2.incremental_potential, J2.elastic_deviatoric_free_energy,
              Hd.create_hardening_model, SRF.find_root, SRF.get_settings, TM.dev, TM.sym, TM.norm_of_deviator_squared)
    if linear:
        h.encoded(Hd.linear)
    h.bounds('moduli (traced, symbolic): Y0 > 0, %g <= E/Y0 <= %g, 0 <= nu <= %g, dt > 0' % (EY_MIN, EY_MAX, NU_MAX),
             'state: 0 <= eqps <= %g, plastic strain symmetric and traceless (inductive: O2), |components| <= %g' % (EQPS_MAX, STRAIN_MAX),
             'displacement gradient: every component in [-%g, %g]' % (STRAIN_MAX, STRAIN_MAX))
    h.outside('finite-deformation and Seth-Hill kinematics beyond their wiring (O9): eigen/log/exp of tensors are not encodable, the log-additivity identity of the multiplicative update is assumed', 'power-law hardening and rate sensitivity with non-integer exponents',
              'rounding error of the evaluation (reals, not floats)',
              'E/Y0 > 1e5: compute_flow_direction treats |dev strain|^2 <= 1e-16 (absolute) as zero, so for E/Y0 ~ 1e8 a state above yield is classified elastic',
              '"along any history": follows from the one-step obligations because the state invariant (eqps >= 0, plastic strain symmetric and traceless) is inductive (O1, O2)')
    h.assume_note('ScalarRootFind.rtsafe_ (the loop behind find_root) is replaced at trace time by its contract (C17): fresh x, a function of all inputs of the '
                  'real call, with lb <= x <= ub and |r(x)| <= r_tol where r is the REAL residual closure; the contract precondition (valid bracket) is '
                  'obligation O3; find_root/custom_root and the tangent rule stay the real code',
                  'all symbolic denominators (1+nu, 1-2nu, 3mu, |dev strain| behind its > 1e-16 guard) are assumed non-zero')


def _rungs(h, quick_full=False):
    r = [('plane', build_plane)]
    if h.thorough() or quick_full:
        r.append(('full', build_full))
    return r


@obligation(P, 'O1.irreversible', cap=300)
def o1(h):
    """eqps' >= eqps for every strain/state/moduli in the box (linear hardening)"""
    _common(h)
    h.bounds('linear hardening 0 <= H <= E (H_MIN_REL = %g); quick: plane-strain block (4 dispGrad + 3 plastic-strain components); thorough: full 3x3 '
             '(9 + 5 components)' % H_MIN_REL)
    for lab, build in _rungs(h):
        c = J2Case(h, f_state, EX, build=build, sampler=sampler_full, label='state_new_' + lab)

        def spec(i, o, calls):
            g = calls('a')['guard']
            return box_moduli(i) + box_state(i) + state_invariant(i['st']), [
                Le(i['st'][0], o[0], when=g, name='eqps_nondecreasing_yielding', scale=1e-3),
                Eq(i['st'][0], o[0], when=v_not(g), name='eqps_unchanged_elastic', scale=1e-3)]
        c.prove('irreversible_' + lab, spec, cap=250, order=('core',))


@obligation(P, 'O2.isochoric_symmetric', cap=300)
def o2(h):
    """the new plastic strain is traceless and symmetric whenever the old one is (the state invariant is inductive)"""
    _common(h)
    h.bounds('linear hardening 0 <= H <= E (H_MIN_REL = %g); quick: plane-strain block; thorough: full 3x3' % H_MIN_REL)
    for lab, build in _rungs(h):
        c = J2Case(h, f_state, EX, build=build, sampler=sampler_full, label='state_new_' + lab)

        def spec(i, o, calls):
            e = onp.asarray(o[1:], dtype=object).reshape(3, 3)
            e0 = onp.asarray(i['st'][1:], dtype=object).reshape(3, 3)
            tr = v_sum([e[0, 0], e[1, 1], e[2, 2]])
            skew = [v_sub(e[a, b], e[b, a]) for a in range(3) for b in range(a + 1, 3)]
            same = [v_sub(x, y) for x, y in zip(flat(e), flat(e0))]
            g = calls('a')['guard']
            return box_moduli(i) + box_state(i) + state_invariant(i['st']), [
                Eq(tr, 0.0, when=g, name='traceless_yielding', scale=1e-3), Eq(skew, 0.0, when=g, name='symmetric_yielding', scale=1e-3),
                Eq(same, 0.0, when=v_not(g), name='plastic_strain_unchanged_elastic', scale=1e-3)]
        c.prove('isochoric_' + lab, spec, cap=250, order=('core',))


@obligation(P, 'O3.bracket_valid', cap=600)
def o3(h):
    """the bracket handed to find_root is valid: lb = eqps_old < ub and r(lb) < 0 <= r(ub) (precondition of the C17 contract);
    chain: closed forms of r at the bracket ends (links on the real code), then scalar algebra"""
    _common(h)
    h.bounds('linear hardening; the full designed range 0 <= H <= E (and, as a separate query, the sub-range %g*E <= H <= E)' % H_POS_REL,
             'plane-strain block and full 3x3 in both tiers')
    h.assume_note('O3 does not use the post-condition of the root-finder contract (the stub value is unconstrained here)')
    for lab, build in _rungs(h, quick_full=True):
        ch = chain_case(h, build, lab, assume_post=False, hmin_rel=0.0)
        links_flow_direction(ch)
        links_yield_predicate(ch)
        links_bracket(ch)
        if ch.violated:
            continue
        for hmin, tag in ((H_POS_REL, 'H>=%g*E' % H_POS_REL), (0.0, 'H>=0')):
            ch.close('%s.lb_lt_ub[%s]' % (lab, tag), lambda q: Lt(q.A['lb'], q.A['ub'], when=q.g, scale=0.0), hmin_rel=hmin)
            ch.close('%s.r_lb_negative[%s]' % (lab, tag), lambda q: Lt(q.A['rl'], 0.0, when=q.g, scale=0.0), hmin_rel=hmin)
            ch.close('%s.r_ub_nonnegative[%s]' % (lab, tag), lambda q: Le(0.0, q.A['rh'], when=q.g, scale=0.0), hmin_rel=hmin)
            ch.facts = [f for f in ch.facts if '[H>=' not in f[0]]


def links_second_check(ch, cap=60):
    """the yield test of the second update (from the committed state) in terms of the by-products at the new state"""
    def mk(q):
        over = v_sub(v_mul(v_mul(2.0, q.mu), q.DN1), q.F1)
        return [Holds(v_eq(q.gb, v_lt(q.tolY, over)) if isz(q.gb) else (bool(q.gb) == bool(q.tolY < over)), name='second_yield_test_is_2mu_devE1_N1_minus_flow1_gt_tol'),
                Eq(q.DN1, v_mul(C_FLOW, q.s1), when=q.nz1, name='i.devE1_N1_eq_c_s1', scale=q.s1),
                Le(v_sq(q.DN1), v_mul(1.5, q.DD1), when=v_not(q.nz1), name='degenerate_direction_small_overstress', scale=1e-16)]
    return ch.link('second_check', mk, cap=cap, use_facts=False, rename=lambda q: flat(q.ax['E1']))


def _goal_mises(when):
    """Mises stress after the update (squared form: 6 mu^2 |dev E'|^2 with the code's rounded sqrt(3/2)) is below the new flow stress + tol"""
    def mk(q):
        m2 = v_mul(4.0, v_mul(v_sq(q.mu), v_mul(C_FLOW, v_mul(C_FLOW, q.DD1))))
        return Le(m2, v_sq(v_add(q.F1, q.tolY)), when=when(q), name='', scale=v_sq(q.Y0))
    return mk


def run_chain(h, ch, lab, upto):
    """the chain (i)-(iv) + second check; upto in {'O4', 'O6'}; stops as soon as a step is refuted on the real code"""
    steps = [lambda: links_flow_direction(ch), lambda: links_yield_predicate(ch), lambda: links_return(ch),
             lambda: (ch.contract_facts(), ch.close('%s.iv.mises_le_flow_plus_tol[yielding]' % lab, _goal_mises(lambda q: q.g))),
             lambda: ch.close('%s.iv.mises_le_flow_plus_tol[elastic]' % lab, _goal_mises(lambda q: v_not(q.g)))]
    if upto != 'O4':
        steps += [lambda: links_second_check(ch),
                  lambda: ch.close('%s.second_update_is_elastic[after_yielding]' % lab, lambda q: Holds(v_not(q.gb), when=q.g)),
                  lambda: ch.close('%s.second_update_is_elastic[after_elastic]' % lab, lambda q: Holds(v_not(q.gb), when=v_not(q.g)))]
    for st in steps:
        st()
        if ch.violated:
            return False
    return True


@obligation(P, 'O4.yield_consistent', cap=600)
def o4(h):
    """after the update the Mises stress is on or inside the yield surface at the new eqps, to the solver tolerance
    (cut-lemma chain (i)-(iv) of DESIGN section 5 C09, every link its own query)"""
    _common(h)
    h.bounds('linear hardening 0 <= H <= E (H_MIN_REL = %g); plane-strain block and full 3x3 (9 dispGrad + 5 plastic-strain components) in both tiers' % H_MIN_REL,
             'goal: 4 mu^2 c^2 |dev(strain - plastic strain\')|^2 <= (flow(eqps\') + 1e-10*Y0)^2, c = the code\'s binary64 sqrt(3/2) (squared form: no ideal irrational)')
    for lab, build in _rungs(h, quick_full=True):
        run_chain(h, chain_case(h, build, lab), lab, 'O4')


@obligation(P, 'O6.idempotent', cap=600)
def o6(h):
    """a second update at the same displacement gradient from the committed state takes the elastic branch and returns the
    committed state unchanged (shared tolerance of yield test and root finder)"""
    _common(h)
    h.bounds('linear hardening 0 <= H <= E (H_MIN_REL = %g); plane-strain block and full 3x3 in both tiers' % H_MIN_REL)
    for lab, build in _rungs(h, quick_full=True):
        ch = chain_case(h, build, lab)
        if not run_chain(h, ch, lab, 'O6'):
            continue
        ch.link('%s.second_update_returns_same_state' % lab,
                lambda q: [Eq(list(q.st2), list(q.st1), when=v_not(q.gb), name='state_unchanged', scale=1e-3)])


@obligation(P, 'O7.commit_invariant', cap=600)
def o7(h):
    """energy density (and stress) at a displacement gradient are the same evaluated from the old state (update inside) and
    from the committed state"""
    _common(h)
    J2 = _mods()[0]
    h.encoded(J2._energy_density, J2.elastic_free_energy, J2.elastic_volumetric_free_energy)
    h.bounds('linear hardening 0 <= H <= E (H_MIN_REL = %g); plane-strain block and full 3x3 in both tiers' % H_MIN_REL)
    for lab, build in _rungs(h, quick_full=True):
        ch = chain_case(h, build, lab, energy=True)
        if not run_chain(h, ch, lab, 'O6'):
            continue
        ch.link('%s.energy' % lab, lambda q: [Eq(s0(q.ax['W0']), s0(q.ax['W1']), when=v_not(q.gb), name='same_before_and_after_commit', scale=q.Y0)])


def f_potential(Ee, x, y, xo, E, nu, Y0, H, dt):
    J2, Hd, SRF, TM = _mods()
    props = J2.make_properties(E, nu, Y0)
    hm = Hd.create_hardening_model({'hardening model': 'linear', 'yield strength': Y0, 'hardening modulus': H})
    pot = lambda e: J2.incremental_potential(Ee, e, xo, dt, props, hm)
    res = lambda e: J2.r(Ee, e, xo, dt, props, hm)
    return pot(x), pot(y), res(x), res(y)


@obligation(P, 'O5.minimiser', cap=600)
def o5(h):
    """the residual handed to the root finder is the derivative of the incremental potential along the flow direction and is
    strictly increasing, the potential lies above its tangents: a point with |r| <= tol minimises the incremental potential
    over all plastic increments up to tol*|distance|"""
    from ..jxh import Case
    J2, Hd, SRF, TM = _mods()
    h.encoded(J2.incremental_potential, 'optimism.material.J2Plastic:r = jax.jacfwd(incremental_potential, 1)', J2.compute_flow_direction,
              J2.elastic_deviatoric_free_energy, J2.make_properties, Hd.create_hardening_model, Hd.linear, TM.dev, TM.norm_of_deviator_squared)
    h.bounds('elastic trial strain: all 9 components free in [-2, 2] (symmetric or not, both flow-direction branches); eqps arguments x, y and eqps_old: all reals',
             'moduli: Y0 > 0, %g <= E/Y0 <= %g, 0 <= nu <= %g, 0 <= H <= E, dt > 0; linear hardening' % (EY_MIN, EY_MAX, NU_MAX))
    h.outside('that jax.jacfwd returns the derivative (JAX is trusted); the obligation checks the traced derivative against the traced potential through the tangent inequality')
    h.assume_note('symbolic denominators (1+nu, 1-2nu, |dev strain| behind its > 1e-16 guard) are assumed non-zero')
    ex = dict(Ee=EX['dg'], x=0.01, y=0.02, xo=0.005, E=200.0, nu=0.3, Y0=1.0, H=2.0, dt=1.0)
    smp = lambda rng: [rng.normal(size=(3, 3)) * 0.01, abs(rng.normal()) * 0.01, abs(rng.normal()) * 0.01, abs(rng.normal()) * 0.01,
                       10 ** rng.uniform(1.5, 3), rng.uniform(0, 0.45), 10 ** rng.uniform(-1, 0.5), 10 ** rng.uniform(-2, 1), 1.0]
    c = Case(h, f_potential, ex, sampler=smp, label='potential_and_residual')

    def spec(i, o):
        x, y = s0(i['x']), s0(i['y'])
        px, py, rx, ry = [s0(v) for v in o]
        Y0 = s0(i['Y0'])
        box = box_moduli(i, hmin_rel=0.0) + [v_and(v_le(-2.0, e), v_le(e, 2.0)) for e in flat(i['Ee'])]
        d = v_sub(y, x)
        tol = v_mul(tol_rel(), Y0)
        return box, [Lt(rx, ry, when=v_lt(x, y), name='residual_strictly_increasing', scale=0.0),
                     Le(v_add(px, v_mul(rx, d)), py, name='potential_above_tangent', scale=Y0)]
    recs = c.prove('convex', spec, cap=300, order=('core', 'nlsat'))
    # chain close: |r(x)| <= tol and the tangent inequality give approximate minimality (potential/residual terms renamed, definitions dropped)
    _, atoms = spec(c.inp, c.out)
    px, py, rx, ry = [s0(v) for v in c.out]
    x, y, Y0 = s0(c.inp['x']), s0(c.inp['y']), s0(c.inp['Y0'])
    ren = [(px, z3.Real('abs_pot_x')), (py, z3.Real('abs_pot_y')), (rx, z3.Real('abs_r_x'))]
    ren.sort(key=lambda p: -_size(p[0]))

    def sub(f):
        for t, v in ren:
            f = z3.substitute(f, (t, v))
        return f
    facts = [sub(_fact(a)) for r_, a in zip(recs, atoms) if r_ is not None and r_['status'] == 'discharged' and a.name == 'potential_above_tangent']
    tol = v_mul(tol_rel(), Y0)
    goal = Le(px, v_add(py, v_mul(tol, v_abs(v_sub(y, x)))), when=v_le(v_abs(rx), tol), name='approximate_root_is_minimiser', scale=Y0)
    g2 = _sub_atom(goal, sub)
    ok = _consts(facts + [g2.neg(0)]) <= {'abs_pot_x', 'abs_pot_y', 'abs_r_x', 'x', 'y', 'Y0'}
    rec = h.prove('convex.approximate_root_is_minimiser', facts + [Y0 > 0], g2, inputs={str(v): v for _, v in ren}, concrete=None, cap=30, order=('nlsat', 'core'),
                  note='chain close from potential_above_tangent, definitions dropped') if ok and facts else None
    if rec is None or rec['status'] != 'discharged':
        def spec3(i, o):
            b, _a = spec(i, o)
            xx, yy = s0(i['x']), s0(i['y'])
            t = v_mul(tol_rel(), s0(i['Y0']))
            return b, Le(s0(o[0]), v_add(s0(o[1]), v_mul(t, v_abs(v_sub(yy, xx)))), when=v_le(v_abs(s0(o[2])), t), name='', scale=s0(i['Y0']))
        fb = c.prove('convex.approximate_root_is_minimiser[over_real_inputs]', spec3, cap=120, order=('core', 'nlsat'))
        if rec is not None and all(r_ is not None and r_['status'] in ('discharged', 'violated') for r_ in fb) and rec in h.records:
            h.records.remove(rec)


def build_principal(free):
    """principal frame: diagonal dispGrad, diagonal plastic strain"""
    d = dict(free)
    dg = free['dg'].copy()
    for a in range(3):
        for b in range(3):
            if a != b:
                dg[a, b] = 0.0
    s = free['st']
    d['dg'] = dg
    d['st'] = sym_state([s[1], s[5], None, 0.0, 0.0, 0.0], s[0])
    return d


# NOT registered (see DESIGNED_NOT_REGISTERED): discharges in isolation but without headroom (the identity link needs 40-60+ s of z3 core, unknown under load)
def o7b_not_registered(h):
    """stress (derivative of the energy density with respect to the displacement gradient) before and after commit differ by
    exactly r(x) * d(eqps')/d(dispGrad), whose entries are below 1 in modulus: equal to the solver tolerance. Principal frame only."""
    _common(h)
    J2 = _mods()[0]
    h.encoded(J2._energy_density, J2.elastic_free_energy, J2.elastic_volumetric_free_energy, 'jax.grad of MaterialModel.compute_energy_density (through find_root\'s custom_root tangent rule)')
    h.bounds('linear hardening 0 <= H <= E (H_MIN_REL = %g); principal frame only (diagonal dispGrad: 3 components, diagonal plastic strain: 2 components); '
             'the derivative is the full 3x3 gradient' % H_MIN_REL)

    def fn(dg, st, E, nu, Y0, H, dt):
        st1, st2, aux = f_chain(dg, st, E, nu, Y0, H, dt, stress=True)
        m = make_model(E, nu, Y0, (H,))
        site('a')
        aux['G'] = jax.grad(lambda d: m.compute_state_new(d, st, dt)[0])(dg)
        return st1, st2, aux
    c = J2Case(h, fn, EX, build=build_principal, sampler=sampler_full, label='chain_stress_principal', assume_post=False)
    ch = Chain(h, c, SpecSqrt())
    if not run_chain(h, ch, 'principal', 'O6'):
        return
    cc2 = lambda t: v_mul(C_FLOW, v_mul(C_FLOW, t))
    ch.link('stress.elastic', lambda q: [Eq(flat(q.ax['S0']), flat(q.ax['S1']), when=v_and(v_not(q.g), v_not(q.gb)), name='identical', scale=q.Y0)], use_facts=False)
    ch.link('stress.yielding', lambda q: [
        Eq([v_sub(a, b) for a, b in zip(flat(q.ax['S0']), flat(q.ax['S1']))], [v_mul(q.A['rx'], gg) for gg in flat(q.ax['G'])],
           when=v_and(q.g, q.nz0, v_not(q.gb)), name='difference_is_residual_times_eqps_sensitivity', scale=q.Y0)], cap=120, use_facts=False)
    ch.link('stress.sensitivity', lambda q: [
        Eq([v_mul(gg, v_add(cc2(v_mul(2.0, q.mu)), q.H)) for gg in flat(q.ax['G'])], [v_mul(v_mul(2.0, q.mu), n) for n in flat(q.ax['N0'])],
           when=v_and(q.g, q.nz0), name='closed_form', scale=q.Y0)], cap=300, order=('nlsat', 'core'), use_facts=False)
    ch.link('stress.direction', lambda q: [Le([v_sq(n) for n in flat(q.ax['N0'])], C_FLOW * C_FLOW * (1 + 1e-12), when=q.nz0, name='entries_bounded', scale=1.0)],
            cap=200, use_facts=False)
    tab = lambda q: (_table_all(q) + [('S0_%d' % j, flat(q.ax['S0'])[j]) for j in range(9)] + [('S1_%d' % j, flat(q.ax['S1'])[j]) for j in range(9)]
                     + [('G_%d' % j, flat(q.ax['G'])[j]) for j in range(9)] + [('N_%d' % j, flat(q.ax['N0'])[j]) for j in range(9)])
    for k in range(9):
        ch.close('principal.sensitivity_bounded[%d%d]' % (k // 3, k % 3), lambda q, k=k: Le(v_abs(flat(q.ax['G'])[k]), 1.0, when=v_and(q.g, q.nz0), name='', scale=1.0),
                 cap=120, order=('nlsat', 'core'), table=tab)

        def goal(q, k=k):
            d = v_sub(flat(q.ax['S0'])[k], flat(q.ax['S1'])[k])
            return Le(v_abs(d), q.tolY, when=q.g, name='', scale=q.Y0)
        ch.close('principal.stress_within_tolerance[%d%d]' % (k // 3, k % 3), goal, cap=120, order=('nlsat', 'core'), table=tab)


# ------------------------------------------------------------------------------------------ Voce hardening (thorough tier)
YSAT_MAX_REL, EPS0_MIN, EPS0_MAX = 10.0, 1e-3, 1.0
EXV = dict(dg=EX['dg'], st=EX['st'], E=200.0, nu=0.3, Y0=1.0, Ysat=2.0, eps0=0.05, y=0.01, dt=1.0)


def sampler_voce(rng):
    v = sampler_full(rng)
    return v[:5] + [v[4] * rng.uniform(1.1, 3.0), 10 ** rng.uniform(-2, -0.5), abs(rng.normal()) * 1e-2, 1.0]


def f_voce(dg, st, E, nu, Y0, Ysat, eps0, y, dt):
    """state update with Voce hardening + by-products; y is a free probe argument at which the REAL residual r (the function
    update_state hands to find_root) and the REAL flow stress are also evaluated"""
    J2, Hd, SRF, TM = _mods()
    m = make_model(E, nu, Y0, (Ysat, eps0), kind='voce')
    props = J2.make_properties(E, nu, Y0)
    hm = Hd.create_hardening_model({'hardening model': 'voce', 'yield strength': Y0, 'saturation strength': Ysat, 'reference plastic strain': eps0})
    site('a')
    st1 = m.compute_state_new(dg, st, dt)
    E0 = J2.compute_elastic_linear_strain(dg, st)
    D0, N0 = TM.dev(E0), J2.compute_flow_direction(E0)
    aux = dict(mu=props[J2.PROPS_MU], DD0=jnp.tensordot(D0, D0), DN0=jnp.tensordot(D0, N0), F0=hm.compute_flow_stress(st[0], st[0], dt),
               Fy=hm.compute_flow_stress(y, st[0], dt), ry=J2.r(E0, y, st[0], dt, props, hm))
    return st1, aux


def box_voce(i):
    Y0, Ysat, eps0, y = s0(i['Y0']), s0(i['Ysat']), s0(i['eps0']), s0(i['y'])
    return box_moduli(i, kind='voce') + box_state(i) + state_invariant(i['st']) + [
        v_le(Y0, Ysat), v_le(Ysat, v_mul(YSAT_MAX_REL, Y0)), v_le(EPS0_MIN, eps0), v_le(eps0, EPS0_MAX), v_le(-2 * EQPS_MAX, y), v_le(y, 2 * EQPS_MAX)]


def exp_axioms(ctx):
    """ground instances for the exp/expm1 terms that occur: positivity, monotonicity (jx.uf_axioms), and the two numeric facts
    exp(a) <= 4.3e-18 for a <= -40 and exp(a) >= 9.3e-14 for a >= -30 (true of the real exponential)"""
    ax = jx.uf_axioms(ctx)
    for v, n, a in ctx.ufs.values():
        if n == 'exp':
            ax += [z3.Implies(a[0] <= -40, v <= rat(4.3e-18)), z3.Implies(a[0] >= -30, v >= rat(9.3e-14)), z3.Implies(a[0] <= 0, v <= 1)]
        if n == 'expm1':      # JAX differentiates expm1 as expm1 + 1, so the flow stress is phrased with expm1
            ax += [z3.Implies(a[0] <= -40, v + 1 <= rat(4.3e-18)), z3.Implies(a[0] >= -30, v + 1 >= rat(9.3e-14)), z3.Implies(a[0] <= 0, v <= 0)]
    return ax


def _scalar_close(h, name, facts, goal, table, scalars, cap=30, order=('nlsat', 'core')):
    """rename the compound terms of `table` to fresh scalars in facts and goal, drop everything else, decide"""
    pairs = []
    for nm, t in table:
        if isz(t) and not (_consts([t]) <= scalars):
            pairs.append((t, (z3.Bool if z3.is_bool(t) else z3.Real)('abs_' + nm)))
    pairs.sort(key=lambda p: -_size(p[0]))

    def sub(f):
        for t, v in pairs:
            f = z3.substitute(f, (t, v))
        return f
    ok = scalars | {str(v) for _, v in pairs}
    fs = [sub(tob(f)) for f in facts]
    fs = [f for f in fs if _consts([f]) <= ok]
    g2 = _sub_atom(goal, sub)
    if not _consts([g2.neg(0)]) <= ok:
        return None
    return h.prove(name, fs, g2, inputs={str(v): v for _, v in pairs}, concrete=None, cap=cap, order=order,
                   note='chain close: %d proved links, definitions dropped, %d compound terms renamed' % (len(fs), len(pairs)))


@obligation(P, 'O8.voce', tiers=('thorough',), cap=600)
def o8(h):
    """Voce hardening (exp/expm1 uninterpreted + ground axiom instances): irreversibility, isochoric symmetric increment,
    bracket: lb < ub, r(lb) < 0 <= r(ub) (the padding of the bracket covers the rounding defect 3 - 2c^2 of the binary64 sqrt(3/2),
    so no hardening over the bracket is needed), also at the historical saturated-regime replay point; strict monotonicity of r"""
    _common(h, linear=False)
    J2, Hd, SRF, TM = _mods()
    h.encoded(Hd.voce)
    h.bounds('Voce hardening: Y0 <= Ysat <= %g*Y0, %g <= reference plastic strain <= %g; plane-strain block' % (YSAT_MAX_REL, EPS0_MIN, EPS0_MAX))
    h.assume_note('exp and expm1 are uninterpreted (Ackermannised); ground instances of: exp > 0, monotonicity between the occurring arguments, '
                  'exp(a) <= 4.3e-18 for a <= -40, exp(a) >= 9.3e-14 for a >= -30, exp(a) <= 1 for a <= 0 (for expm1: the same shifted by 1)')
    # ---- O1/O2 with the contract post-condition
    c = J2Case(h, f_voce, EXV, build=build_plane, sampler=sampler_voce, label='voce_state_new')

    def spec12(i, o, calls):
        st1 = o[0]
        e = onp.asarray(st1[1:], dtype=object).reshape(3, 3)
        g = calls('a')['guard']
        return box_voce(i), [Le(i['st'][0], st1[0], when=g, name='eqps_nondecreasing_yielding', scale=1e-3),
                             Eq(list(i['st']), list(st1), when=v_not(g), name='state_unchanged_elastic', scale=1e-3),
                             Eq(v_sum([e[0, 0], e[1, 1], e[2, 2]]), 0.0, when=g, name='traceless_yielding', scale=1e-3),
                             Eq([v_sub(e[a, b], e[b, a]) for a in range(3) for b in range(a + 1, 3)], 0.0, when=g, name='symmetric_yielding', scale=1e-3)]
    c.prove('update', spec12, cap=200, order=('core', 'nlsat'))
    # ---- O3: bracket (no post-condition); the probe argument y is instantiated with ub
    c = J2Case(h, f_voce, EXV, build=build_plane, sampler=sampler_voce, label='voce_bracket', assume_post=False, validate=1)
    sq = SpecSqrt()
    ax = exp_axioms(c.ctx)

    def terms(i, o, calls):
        A = calls('a')
        st1, a = o
        d = dict(A=A, g=A['guard'], mu=s0(a['mu']), DD0=s0(a['DD0']), DN0=s0(a['DN0']), F0=s0(a['F0']), Fy=s0(a['Fy']), ry=s0(a['ry']), y=s0(i['y']),
                 e0=i['st'][0], Y0=s0(i['Y0']), Ysat=s0(i['Ysat']))
        d['s'], d['sdef'] = sq('s0', d['DD0'])
        d['nz0'] = v_lt(1e-16, d['DD0'])
        d['tolY'] = v_mul(tol_rel(), d['Y0'])
        d['T'] = v_mul(v_mul(2.0, d['mu']), d['DN0'])
        d['w'] = v_sub(A['ub'], A['lb'])
        d['defect'] = v_mul(v_mul(DEFECT_EXACT if isz(d['mu']) else float(DEFECT_EXACT), d['mu']), d['w'])   # (3 - 2c^2) mu w, exact constant
        d['inst'] = v_implies(d['g'], v_eq(d['y'], A['ub'])) if isz(d['g']) else True
        return d
    facts = []

    def link(name, mk, cap=60, order=('core', 'nlsat'), inst=False, axioms=False):
        def spec(i, o, calls):
            d = terms(i, o, calls)
            return box_voce(i) + d['sdef'] + ([d['inst']] if inst else []), mk(d)
        recs = c.prove(name, spec, cap=cap, order=order, extra_assumes=[f for f in facts] + (ax if axioms else []))
        atoms = mk(terms(c.inp, c.out, c.calls))
        for r_, at in zip(recs, atoms):
            if r_ is not None and r_['status'] == 'discharged':
                facts.append(_fact(at))
        return recs
    link('flow_stress', lambda d: [Le(d['F0'], d['Fy'], when=v_le(d['e0'], d['y']), name='nondecreasing', scale=d['Y0']),
                                   Le(d['Y0'], d['F0'], when=v_le(0.0, d['e0']), name='at_least_Y0', scale=d['Y0'])], axioms=True)
    link('yield_predicate', lambda d: [
        Holds(v_eq(d['g'], v_lt(d['tolY'], v_sub(d['T'], d['F0']))) if isz(d['g']) else (bool(d['g']) == bool(d['tolY'] < d['T'] - d['F0'])), name='yield_test'),
        Lt(1e-16, d['DD0'], when=d['g'], name='yielding_implies_nondegenerate', scale=0.0),
        Eq(d['A']['lb'], d['e0'], when=d['g'], name='lb_is_old_eqps', scale=1e-3)])
    link('bracket_ends', lambda d: [
        Eq(d['A']['rl'], v_sub(d['F0'], d['T']), when=v_and(d['g'], d['nz0']), name='r_lb_closed_form', scale=d['Y0']),
        Le(v_mul(1.0 + PAD_MIN, v_sub(d['T'], d['F0'])), v_mul(v_mul(3.0, d['mu']), d['w']), when=v_and(d['g'], d['nz0']), name='width_at_least_padded_predictor_bound', scale=d['Y0']),
        Le(v_mul(v_mul(3.0, d['mu']), d['w']), v_mul(1.0 + PAD_MAX, v_sub(d['T'], d['F0'])), when=v_and(d['g'], d['nz0']), name='width_at_most_padded_predictor_bound', scale=d['Y0']),
        Eq(d['ry'], v_add(v_sub(v_mul(v_mul(2.0, d['mu']), v_mul(C_FLOW, v_mul(C_FLOW, v_sub(d['y'], d['e0'])))), d['T']), d['Fy']), when=d['nz0'],
           name='residual_closed_form_at_probe', scale=d['Y0'])])
    link('probe_is_ub', lambda d: [Eq(d['A']['rh'], d['ry'], when=d['g'], name='r_ub_is_residual_at_probe', scale=d['Y0'])], inst=True)
    d = terms(c.inp, c.out, c.calls)
    A = d['A']
    table = [('g', d['g']), ('rl', A['rl']), ('rh', A['rh']), ('ub', A['ub']), ('DN0', d['DN0']), ('DD0', d['DD0']), ('F0', d['F0']), ('Fy', d['Fy']), ('ry', d['ry'])]
    scal = {'E', 'nu', 'Y0', 'Ysat', 'eps0', 'y', 'dt', 'st_0', str(d['s'])}
    box = [tob(x) for x in box_moduli(c.inp, kind='voce')] + [tob(x) for x in d['sdef']] + [tob(d['inst']), d['e0'] >= 0]
    goals = {'lb_lt_ub': lambda dd: Lt(dd['A']['lb'], dd['A']['ub'], when=dd['g'], scale=0.0),
             'r_lb_negative': lambda dd: Lt(dd['A']['rl'], 0.0, when=dd['g'], scale=0.0),
             'r_ub_nonnegative': lambda dd: Le(0.0, dd['A']['rh'], when=dd['g'], scale=0.0)}
    for nm, mk in goals.items():
        rec = _scalar_close(h, 'bracket.' + nm, facts + box, mk(d), table, scal)
        if rec is None or rec['status'] != 'discharged':
            def spec(i, o, calls, mk=mk):
                dd = terms(i, o, calls)
                return box_voce(i) + dd['sdef'] + [dd['inst']], mk(dd)
            fb = c.prove('bracket.%s[over_real_inputs]' % nm, spec, cap=60, extra_assumes=facts + ax)
            if rec is not None and all(r_ is not None and r_['status'] in ('discharged', 'violated') for r_ in fb) and rec in h.records:
                h.records.remove(rec)
    # ---- regression guard for the fixed defect (unpadded bracket -> NaN state near saturation): r(ub) >= 0 at the historical replay point, eqps >= 40*eps0
    def spec_sat(i, o, calls):
        dd = terms(i, o, calls)
        return box_voce(i) + dd['sdef'] + [dd['inst'], v_le(v_mul(40.0, s0(i['eps0'])), dd['e0'])], Le(0.0, dd['A']['rh'], when=dd['g'], name='', scale=0.0)
    pins = dict(dg=(1 / 64) * onp.array([[1.0, 2.0, 0.0], [0.0, -1.0, 0.0], [0.0, 0.0, 0.0]]), st=onp.array([2.0] + [0.0] * 9), E=200.0, nu=0.25, Y0=1.0, Ysat=2.0,
                eps0=1 / 64, dt=1.0)
    pin = [x == rat(float(v)) for n, a in pins.items() for x, v in zip(c.free[n].ravel(), onp.asarray(a, dtype=float).ravel())]
    c.prove('bracket.r_ub_nonnegative[saturated:eqps>=40*eps0]', spec_sat, cap=120, order=('nlsat', 'core'), extra_assumes=facts + ax + pin, witness=False)
    # ---- strict monotonicity of the residual (uniqueness of the root; convexity of the potential along the flow direction)
    from ..jxh import Case

    def f_r2(Ee, x, y, xo, E, nu, Y0, Ysat, eps0, dt):
        props = J2.make_properties(E, nu, Y0)
        hm = Hd.create_hardening_model({'hardening model': 'voce', 'yield strength': Y0, 'saturation strength': Ysat, 'reference plastic strain': eps0})
        return J2.r(Ee, x, xo, dt, props, hm), J2.r(Ee, y, xo, dt, props, hm)
    ex = dict(Ee=EX['dg'], x=0.01, y=0.02, xo=0.005, E=200.0, nu=0.3, Y0=1.0, Ysat=2.0, eps0=0.05, dt=1.0)
    smp = lambda rng: [rng.normal(size=(3, 3)) * 0.01, abs(rng.normal()) * 0.01, abs(rng.normal()) * 0.01, abs(rng.normal()) * 0.01,
                       10 ** rng.uniform(1.5, 3), rng.uniform(0, 0.45), 1.0, rng.uniform(1.1, 3.0), 10 ** rng.uniform(-2, -0.5), 1.0]
    c5 = Case(h, f_r2, ex, sampler=smp, label='voce_residual')

    def spec5(i, o):
        x, y = s0(i['x']), s0(i['y'])
        box = box_moduli(i, kind='voce') + [v_and(v_le(-2.0, e), v_le(e, 2.0)) for e in flat(i['Ee'])] + [
            v_le(s0(i['Y0']), s0(i['Ysat'])), v_le(EPS0_MIN, s0(i['eps0'])), v_le(s0(i['eps0']), EPS0_MAX)]
        return box, Lt(s0(o[0]), s0(o[1]), when=v_lt(x, y), name='residual_strictly_increasing', scale=0.0)
    c5.prove('voce_residual', spec5, cap=120, axioms=True)


DESIGNED_NOT_REGISTERED = [
    ('O7 stress before/after commit (all rungs)',
     'plane-strain block / full 3x3: the exact identity S_before - S_after = r(x) * d(eqps\')/d(dispGrad) and the closed form of that sensitivity stay unknown at 60 s '
     '(z3 core and nlsat). Principal frame (o7b_not_registered in this module): identity 3-40 s, sensitivity closed form 30-40 s (nlsat), scalar closes 20-60 s in '
     'isolation, but unknown at the same caps under machine load: no 5x headroom, so it is left out. The ENERGY part of O7 is registered on the plane and full rungs.'),
    ('O5 tangent inequality / approximate minimality for Voce', 'needs convexity (tangent) instances of exp between the two arguments; only strict monotonicity of r is registered for Voce (O8)'),
    ('power-law hardening (n = 1) and power-law rate sensitivity (m = 1)', 'not built in this round; outside the claim (stated in h.outside)'),
    ('O4/O6/O7 for Voce', 'chain links (ii)-(iv) are hardening independent, but the closes need flow(x) >= Y0 and the contract at the new eqps with exp instances; not built in this round'),
]


# ------------------------------------------------------------------------------------------ O9: kinematics wiring (structural)
@contextlib.contextmanager
def patched(mod, **kw):
    old = {k: getattr(mod, k) for k in kw}
    try:
        for k, v in kw.items():
            setattr(mod, k, v)
        yield
    finally:
        for k, v in old.items():
            setattr(mod, k, v)


KINEMATICS = (('small', 'small deformations'), ('finite', 'large deformations'), ('finite_default', None), ('seth_hill', 'seth hill'))
STUB_TENSOR = ('TensorMath.log_sqrt_symm, pow_symm and exp_symm are replaced at trace time by uninterpreted tensor functions (an arbitrary symbolic 3x3 tensor per '
               'function; the ARGUMENT handed over by the real code is captured and compared); J2Plastic.compute_state_increment is replaced by an arbitrary '
               'state increment (10 symbolic values) and its actual arguments are captured (its own behaviour is O1-O7 in small-strain form); '
               'TensorMath.inv is the real Cramer formula, wrapped only to expose argument and result')
KIN_NOTE9 = ('finite deformations: the transcendental identity the commit consistency rests on, log(Fe_new^T Fe_new) = log(Fe^T Fe) - 2 dEp for dEp coaxial with '
             'Fe^T Fe, with Fe_new = Fe exp(-dEp), stays ASSUMED; what is proved is the wiring it needs: Fp_new = exp_symm(dEp) @ Fp_old (left multiplication), dEp = the '
             'plastic-strain part of the increment computed for the trial strain, trial strain = dev(log_sqrt_symm(Fe^T Fe)) + log1p(det(F) - 1)/3 I, Fe = F inv(Fp_old)')


def _m33(a):
    a = onp.asarray(a, dtype=object).reshape(3, 3)
    return [[a[r, c] for c in range(3)] for r in range(3)]


def _mm(A, B):
    return [[v_sum([v_mul(A[r][k], B[k][c]) for k in range(3)]) for c in range(3)] for r in range(3)]


def _tr(A):
    return [[A[c][r] for c in range(3)] for r in range(3)]


def _det(A):
    t = lambda a, b, c: v_mul(a, v_mul(b, c))
    return v_sub(v_sum([t(A[0][0], A[1][1], A[2][2]), t(A[0][1], A[1][2], A[2][0]), t(A[0][2], A[1][0], A[2][1])]),
                 v_sum([t(A[0][0], A[1][2], A[2][1]), t(A[0][1], A[1][0], A[2][2]), t(A[0][2], A[1][1], A[2][0])]))


def f_kinematics(kin):
    def f(H, st, INC, L, X, E, nu, Y0, Hm, dt):
        J2, Hd, SRF, TM = _mods()
        cap = dict(inc=[], ten=[], exp=[], inv=[])
        real_inv = TM.inv

        def csi(el, state, dt_, props, hm):
            cap['inc'].append((el, state))
            return INC

        def ten(A, *a):
            cap['ten'].append(A)
            return L

        def exps(A):
            cap['exp'].append(A)
            return X

        def invw(A):
            Y = real_inv(A)
            cap['inv'].append((A, Y))
            return Y
        props = {'elastic modulus': E, 'poisson ratio': nu, 'yield strength': Y0, 'hardening model': 'linear', 'hardening modulus': Hm}
        if kin is not None:
            props['kinematics'] = kin
        z33, z10 = jnp.zeros((3, 3)), jnp.zeros(10)
        with patched(J2, compute_state_increment=csi), patched(TM, log_sqrt_symm=ten, pow_symm=ten, exp_symm=exps, inv=invw):
            m = J2.create_material_model_functions(props)
            W = m.compute_energy_density(H, st, dt)
            n_e = (len(cap['inc']), len(cap['ten']))
            stn = m.compute_state_new(H, st, dt)
        inc_e = cap['inc'][0] if n_e[0] >= 1 else (z33, z10)
        inc_s = cap['inc'][n_e[0]] if len(cap['inc']) > n_e[0] else (z33, z10)
        ten_e = cap['ten'][0] if n_e[1] >= 1 else z33
        ten_s = cap['ten'][n_e[1]] if len(cap['ten']) > n_e[1] else z33
        f.info = dict(n_inc=len(cap['inc']), n_ten_energy=n_e[1], n_ten_update=len(cap['ten']) - n_e[1], n_exp=len(cap['exp']), n_inv=len(cap['inv']))
        inv_in, inv_out = cap['inv'][-1] if cap['inv'] else (z33, z33)
        return dict(stn=stn, W=W, el_e=inc_e[0], st_e=inc_e[1], el_s=inc_s[0], st_s=inc_s[1], ten_e=ten_e, ten_s=ten_s,
                    exp_arg=cap['exp'][-1] if cap['exp'] else z33, inv_in=inv_in, inv_out=inv_out, tr_ref=jnp.log1p(TM.detpIm1(H)))
    return f


@obligation(P, 'O9.kinematics_wiring', cap=600)
def o9(h):
    """every kinematics option of create_material_model_functions: the trial elastic strain handed to compute_state_increment inside
    compute_state_new is the same function of (dispGrad, stateOld) as the elastic strain of the energy density (same tensor-function
    argument, same expression); small/Seth-Hill: additive state update, Seth-Hill power argument F^T F; finite deformations:
    multiplicative update Fp_new = exp_symm(dEp) @ Fp_old with dEp the plastic-strain part of the computed increment, trial strain from
    Fe^T Fe with Fe = F inv(Fp_old), eqps_new = eqps_old + d eqps"""
    J2, Hd, SRF, TM = _mods()
    from ..jxh import Case
    h.encoded(J2.create_material_model_functions, J2.compute_state_new_small_deformations, J2.compute_state_new_seth_hill, J2.compute_state_new_finite_deformations,
              J2.compute_elastic_linear_strain, J2.compute_elastic_seth_hill_strain, J2.compute_elastic_logarithmic_strain, J2._energy_density, TM.inv, TM.detpIm1, TM.dev, TM.sym)
    h.bounds('dispGrad, state (eqps + 9 components), state increment, values of the tensor functions: every real number; finite deformations: det(Fp_old) != 0; '
             'moduli: any reals with 1 + nu != 0, 1 - 2 nu != 0 (they do not enter the wiring)')
    h.assume_note(STUB_TENSOR, KIN_NOTE9, 'symbolic denominators (det Fp_old, 1+nu, 1-2nu) are assumed non-zero')
    h.outside('the tensor functions themselves (C12) and the log-additivity identity (assumed)', 'compute_material_qoi (_compute_dissipation always uses the logarithmic strain, whatever the kinematics option)')
    ex = dict(H=onp.array([[.1, .02, 0.], [.03, -.05, .01], [0., .02, .04]]), st=onp.concatenate([[0.01], (onp.eye(3) + 0.01 * onp.arange(9).reshape(3, 3)).ravel()]),
              INC=0.01 * onp.arange(1, 11), L=onp.eye(3) + 0.01 * onp.arange(9).reshape(3, 3)[::-1], X=onp.eye(3) + 0.02 * onp.arange(9).reshape(3, 3), E=200.0, nu=0.3, Y0=1.0, Hm=2.0, dt=1.0)
    smp = lambda rng: [rng.normal(size=(3, 3)) * 0.2, onp.concatenate([[abs(rng.normal()) * 0.1], (onp.eye(3) + 0.2 * rng.normal(size=(3, 3))).ravel()]), rng.normal(size=10) * 0.1,
                       onp.eye(3) + 0.2 * rng.normal(size=(3, 3)), onp.eye(3) + 0.2 * rng.normal(size=(3, 3)), 10 ** rng.uniform(1, 3), rng.uniform(0, 0.45), 1.0, 2.0, 1.0]
    for tag, kin in KINEMATICS:
        f = f_kinematics(kin)
        c = Case(h, f, ex, sampler=smp, label='kinematics[%s]' % tag, validate=2)
        finite = tag.startswith('finite')
        info = f.info
        h.fact('%s.call_counts' % tag, True, 'compute_state_increment calls %(n_inc)d, tensor-function calls energy %(n_ten_energy)d / update %(n_ten_update)d, exp_symm %(n_exp)d, inv %(n_inv)d' % info, nontrivial=False)

        def spec(i, o, tag=tag, finite=finite):
            st, INC, Hh = list(i['st']), list(i['INC']), _m33(i['H'])
            F = [[v_add(Hh[r][c], 1.0 if r == c else 0.0) for c in range(3)] for r in range(3)]
            P9 = _m33(st[1:])
            Lm = _m33(i['L'])
            I3 = [[1.0 if r == c else 0.0 for c in range(3)] for r in range(3)]
            asm = []
            ats = [Eq(flat(o['el_s']), flat(o['el_e']), name='trial_strain_of_update_is_elastic_strain_of_energy'),
                   Eq(flat(o['st_s']), st, name='increment_computed_from_old_state'), Eq(flat(o['st_e']), st, name='energy_increment_computed_from_given_state')]
            if tag != 'small':
                ats.append(Eq(flat(o['ten_s']), flat(o['ten_e']), name='tensor_function_argument_of_update_is_that_of_energy'))
            if tag == 'small':
                ats.append(Eq(flat(o['el_e']), [v_sub(v_mul(0.5, v_add(Hh[r][c], Hh[c][r])), P9[r][c]) for r in range(3) for c in range(3)], name='elastic_strain_is_sym_dispGrad_minus_plastic_strain'))
            if tag == 'seth_hill':
                ats.append(Eq(flat(o['ten_e']), flat(_mm(_tr(F), F)), name='power_argument_is_Ft_F'))
                ats.append(Eq(flat(o['el_e']), [v_sub(v_mul(2.0, v_sub(Lm[r][c], I3[r][c])), P9[r][c]) for r in range(3) for c in range(3)], name='elastic_strain_is_seth_hill_m_quarter_minus_plastic_strain'))
            if not finite:
                ats.append(Eq(list(o['stn']), [v_add(a, b) for a, b in zip(st, INC)], name='additive_state_update'))
            else:
                Y, Xm = _m33(o['inv_out']), _m33(i['X'])
                asm.append(v_not(v_eq(_det(P9), 0.0)))
                FY = _mm(F, Y)
                trL = v_sum([Lm[0][0], Lm[1][1], Lm[2][2]])
                tref = s0(o['tr_ref'])
                ats += [Eq(flat(o['inv_in']), flat(P9), name='c.inverted_matrix_is_Fp_old'),
                        Eq(flat(_mm(P9, Y)), flat(I3), name='c.inverse_is_right_inverse_of_Fp_old'),
                        Eq(flat(o['ten_e']), flat(_mm(_tr(FY), FY)), name='c.log_argument_is_FeT_Fe'),
                        Eq([v_mul(3.0, e) for e in flat(o['el_e'])], [v_add(v_sub(v_mul(3.0, Lm[r][c]), v_mul(I3[r][c], trL)), v_mul(I3[r][c], tref)) for r in range(3) for c in range(3)],
                           name='c.trial_strain_is_dev_log_plus_log1p_detF_third'),
                        Eq(flat(o['exp_arg']), INC[1:], name='a.exp_argument_is_plastic_strain_increment'),
                        Eq(list(o['stn'])[1:], flat(_mm(Xm, P9)), name='b.Fp_new_is_exp_times_Fp_old'),
                        Eq(list(o['stn'])[0], v_add(st[0], INC[0]), name='d.eqps_new_is_eqps_old_plus_increment')]
            return asm, ats
        c.prove(tag, spec, cap=60, order=('core', 'nlsat'))


# ------------------------------------------------------------------------------------------ O10: constants bound at creation
LAWS = (('linear', ('H',), dict(H=2.0), dict(H=7.0)),
        ('voce', ('Ysat', 'eps0'), dict(Ysat=2.0, eps0=0.05), dict(Ysat=3.5, eps0=0.2)),
        ('power law', ('n', 'eps0'), dict(n=4.0, eps0=0.02), dict(n=2.5, eps0=0.1)))
_LAW_KEYS = {'H': 'hardening modulus', 'Ysat': 'saturation strength', 'eps0': 'reference plastic strain', 'n': 'hardening exponent'}


def f_twin(kind, names):
    """material A: created from a property dict that is overwritten afterwards (other law constants, other yield strength);
    material B: created from a dict of its own with the original constants. Two updates with the state carried over, energies."""
    def f(dg, dg2, st, E, nu, Y0, dt, Y0x, *hard):
        k = len(names)
        c1, c2 = hard[:k], hard[k:]
        mut = {_LAW_KEYS[n]: v for n, v in zip(names, c2)}
        mut['yield strength'] = Y0x
        A = make_model(E, nu, Y0, c1, kind=kind, mutate=mut)
        B = make_model(E, nu, Y0, c1, kind=kind)
        out = {}
        for tag, m in (('A', A), ('B', B)):
            site('s1')
            s1 = m.compute_state_new(dg, st, dt)
            site('s1')
            w1 = m.compute_energy_density(dg, st, dt)
            site('s2')
            s2 = m.compute_state_new(dg2, s1, dt)
            site('s2')
            w2 = m.compute_energy_density(dg2, s1, dt)
            out[tag] = dict(s1=s1, s2=s2, w1=w1, w2=w2)
        return out
    return f


@obligation(P, 'O10.constants_bound_at_creation', cap=600)
def o10(h):
    """a material keeps the hardening constants (and yield strength) it was created with: the caller's property dict is overwritten
    AFTER create_material_model_functions and BEFORE anything is traced; (a) linear hardening: the whole yield-consistency /
    idempotence / commit-energy chain holds against the creation constants; (b) linear, Voce, power law: two updates with the state
    carried over and both energies equal those of a material created from an untouched dict with the same constants"""
    _common(h)
    J2, Hd, SRF, TM = _mods()
    h.encoded(Hd.create_hardening_model, Hd.linear, Hd.voce, Hd.power_law)
    h.bounds('(a) as O4/O6/O7 on the plane-strain block; overwriting constants: hardening modulus and yield strength, any positive reals',
             '(b) all reals for strains/state/moduli/constants (term equality; pow/exp/expm1 uninterpreted), two steps')
    h.assume_note('(b): the root-finder stub returns the same value for the same call (a function of everything the real call depends on); the post-condition is not used; '
                  'no translator validation run for the twin function (same interpreter as every other obligation)')
    # ---- (a)
    ex = dict(EX, H2=7.0, Y2=1.7)
    smp = lambda rng: sampler_full(rng) + [10 ** rng.uniform(-2, 1), 10 ** rng.uniform(-1, 0.5)]

    def fa(dg, st, E, nu, Y0, H, dt, H2, Y2):
        return f_chain(dg, st, E, nu, Y0, H, dt, energy=True, mutate={'hardening modulus': H2, 'yield strength': Y2})
    ch = chain_case(h, build_plane, 'plane_dict_overwritten', fn=fa, ex=ex, sampler=smp)
    if run_chain(h, ch, 'plane_dict_overwritten', 'O6'):
        ch.link('plane_dict_overwritten.energy', lambda q: [Eq(s0(q.ax['W0']), s0(q.ax['W1']), when=v_not(q.gb), name='same_before_and_after_commit', scale=q.Y0)])
    # ---- (b)
    for kind, names, c1, c2 in LAWS:
        exb = dict(dg=EX['dg'], dg2=EX['dg'] * 1.7 + 0.003, st=EX['st'], E=200.0, nu=0.3, Y0=1.0, dt=1.0, Y0x=1.6)
        for n in names:
            exb[n + '_created'] = c1[n]
        for n in names:
            exb[n + '_overwritten'] = c2[n]
        c = J2Case(h, f_twin(kind, names), exb, sampler=None, label='twin[%s]' % kind, assume_post=False, validate=0)

        def spec(i, o, calls):
            A, B = o['A'], o['B']
            return [], [Eq(list(A['s1']), list(B['s1']), name='first_update', scale=1e-3), Eq(list(A['s2']), list(B['s2']), name='second_update_from_carried_state', scale=1e-3),
                        Eq(s0(A['w1']), s0(B['w1']), name='energy_first_step', scale=s0(i['Y0'])), Eq(s0(A['w2']), s0(B['w2']), name='energy_second_step', scale=s0(i['Y0']))]
        c.prove('unaffected_by_later_dict_edits[%s]' % kind, spec, cap=60, order=('core', 'nlsat'), witness=False)


# ------------------------------------------------------------------------------------------ O11: rate sensitivity, dt symbolic
@obligation(P, 'O11.rate_sensitive', cap=600)
def o11(h):
    """power-law rate sensitivity with the time step a traced symbolic argument: (ii) the flow stress of the real hardening model is
    Y0 + H eqps + S ((eqps - eqps_old)/(dt epsDot0))^(1/m) and the derivative of the incremental kinetic potential is that overstress
    (m = 1 and m = 2); (i) m = 1: bracket valid and Mises stress after the update equal to that flow stress to the solver tolerance"""
    from ..jxh import Case
    _common(h)
    J2, Hd, SRF, TM = _mods()
    h.encoded(Hd.create_hardening_model, Hd.power_law_rate_sensitivity, Hd.linear)
    h.bounds('0 <= S <= %g*Y0, %g <= reference rate, dt <= %g (dt traced), exponents m = 1 and m = 2 (concrete), eqps >= eqps_old' % (S_MAX_REL, RATE_MIN, RATE_MAX),
             '(i): plane-strain block, moduli box as O4, m = 1')
    h.outside('non-integer / symbolic rate exponents (pow stays uninterpreted)', 'idempotence and commit invariance for rate-sensitive materials (a second update starts from a different eqps_old: not a property)')
    # ---- (ii)
    for mexp in (1.0, 2.0):
        def f(x, xo, dt, Y0, H, S, ed0, mexp=mexp):
            hm = Hd.create_hardening_model(hardening_props(Y0, (H,), 'linear', (S, mexp, ed0)))
            return hm.compute_flow_stress(x, xo, dt), jax.grad(Hd.power_law_rate_sensitivity)(x, xo, dt, S, mexp, ed0)
        ex = dict(x=0.03, xo=0.01, dt=0.5, Y0=1.0, H=2.0, S=0.5, ed0=2.0)
        smp = lambda rng: [0.02 + abs(rng.normal()) * 0.1, 0.02 * rng.uniform(), 10 ** rng.uniform(-3, 2), 1.0, 2.0, 10 ** rng.uniform(-1, 1), 10 ** rng.uniform(-2, 2)]
        c = Case(h, f, ex, sampler=smp, label='flow_stress[m=%g]' % mexp)
        sq = SpecSqrt()

        def spec(i, o, mexp=mexp, sq=sq):
            x, xo, dt, Y0, H, S, ed0 = [s0(i[k]) for k in ('x', 'xo', 'dt', 'Y0', 'H', 'S', 'ed0')]
            rel = v_div(v_sub(x, xo), v_mul(dt, ed0))
            asm = [v_le(xo, x), v_lt(0.0, dt), v_lt(0.0, ed0), v_le(0.0, S), v_lt(0.0, Y0)]
            if mexp == 1.0:
                over = v_mul(S, rel)
            else:
                root, d = sq('rel', rel)
                asm += d
                over = v_mul(S, root)
            if mexp == 1.0:
                return asm, [Eq(s0(o[1]), over, name='kinetic_potential_derivative_is_overstress', scale=Y0),
                             Eq(s0(o[0]), v_add(v_add(Y0, v_mul(H, x)), over), name='flow_stress_is_Y_plus_overstress', scale=Y0)]
            # m = 2: the code's own constants m/(m+1) = binary64(2/3) and (m+1)/m = 1.5 multiply to 1 - 5.6e-17, so the identity holds to
            # a relative 1e-12 of the overstress (tolerance policy of DESIGN section 2: no ideal constant in the oracle)
            tol = v_mul(1e-12, over)
            return asm, [Le(v_abs(v_sub(s0(o[1]), over)), tol, name='kinetic_potential_derivative_is_overstress', scale=Y0),
                         Le(v_abs(v_sub(s0(o[0]), v_add(v_add(Y0, v_mul(H, x)), over))), tol, name='flow_stress_is_Y_plus_overstress', scale=Y0)]
        c.prove('dual_potential[m=%g]' % mexp, spec, cap=60, order=('core', 'nlsat'))
    # ---- (i) m = 1
    ex = dict(EX, dt=0.5, S=0.5, ed0=2.0)
    smp = lambda rng: sampler_full(rng)[:6] + [10 ** rng.uniform(-2, 1), 10 ** rng.uniform(-1, 1), 10 ** rng.uniform(-2, 2)]

    def fr(dg, st, E, nu, Y0, H, dt, S, ed0):
        return f_chain(dg, st, E, nu, Y0, H, dt, rate=(S, 1.0, ed0))
    ch = chain_case(h, build_plane, 'plane_rate_m1', fn=fr, ex=ex, sampler=smp)
    links_flow_direction(ch, cap=300)       # the rate term S/(dt*epsDot0) makes these links 5-20 s: caps keep >= 5x headroom per solver share
    links_yield_predicate(ch, cap=300)
    links_return(ch, cap=300)
    links_bracket(ch, cap=300)
    if not ch.violated:
        ch.close('plane_rate_m1.lb_lt_ub', lambda q: Lt(q.A['lb'], q.A['ub'], when=q.g, scale=0.0))
        ch.close('plane_rate_m1.r_lb_negative', lambda q: Lt(q.A['rl'], 0.0, when=q.g, scale=0.0))
        ch.close('plane_rate_m1.r_ub_nonnegative', lambda q: Le(0.0, q.A['rh'], when=q.g, scale=0.0))
        ch.contract_facts()
        ch.close('plane_rate_m1.iv.mises_le_flow_plus_tol[yielding]', _goal_mises(lambda q: q.g))

        def lower(q):
            m2 = v_mul(4.0, v_mul(v_sq(q.mu), v_mul(C_FLOW, v_mul(C_FLOW, q.DD1))))
            return Le(v_sq(v_sub(q.F1, q.tolY)), m2, when=q.g, name='', scale=v_sq(q.Y0))
        ch.close('plane_rate_m1.iv.mises_ge_flow_minus_tol[yielding]', lower)


# ------------------------------------------------------------------------------------------ O0 / O12: the root-finder contract at the J2 call site
CONTRACT_FAMILY = (
    # label, kind, hardening constants, E, nu, Y0, strain scale, eqps_old
    ('linear_unit', 'linear', (2.0,), 200.0, 0.3, 1.0, 1.0, 0.002),
    ('linear_SI', 'linear', (2.0e9,), 200.0e9, 0.3, 350.0e6, 1.0, 0.0),
    ('voce_unit', 'voce', (2.0, 0.05), 200.0, 0.3, 1.0, 1.0, 0.002),
    ('voce_SI', 'voce', (700.0e6, 0.05), 200.0e9, 0.3, 350.0e6, 1.0, 0.0),
    ('voce_SI_hardened', 'voce', (700.0e6, 0.05), 200.0e9, 0.3, 350.0e6, 2.0, 0.1),
    ('voce_SI_small_step', 'voce', (500.0e6, 0.01), 70.0e9, 0.33, 250.0e6, 0.5, 0.0),
    ('power_law_SI', 'power law', (4.0, 350.0e6 / 200.0e9), 200.0e9, 0.3, 350.0e6, 1.0, 0.0),
    ('power_law_unit', 'power law', (3.0, 0.01), 200.0, 0.3, 1.0, 1.0, 0.01),
)


def _contract_run(kind, hard, E, nu, Y0, dg, st, dt):
    """the unmodified update at concrete inputs; every executed find_root call with its actual arguments and result"""
    store = {}
    with recording(store), jax.disable_jit():
        site('a')
        m = make_model(E, nu, Y0, tuple(hard), kind=kind)
        out = onp.asarray(m.compute_state_new(jnp.asarray(dg), jnp.asarray(st), dt))
    bad = []
    tol = tol_rel() * Y0       # the residual tolerance the J2 source asks for: r_tol=_TOLERANCE*props[PROPS_Y0]
    for rec in store.get('a', []):
        x, lb, ub, rx = rec['x'], rec['lb'], rec['ub'], rec['rx']
        ok = math.isfinite(x) and math.isfinite(rx) and lb - 1e-12 * (1 + abs(lb)) <= x <= ub + 1e-12 * (1 + abs(ub)) and abs(rx) <= tol
        if not ok:
            bad.append(dict(x=x, lb=lb, ub=ub, residual_at_returned_root=rx, r_tol_requested_by_J2=tol, settings_r_tol_as_read_by_rtsafe=rec['rtol'],
                            settings_x_tol_as_read_by_rtsafe=rec['xtol']))
    return out, store.get('a', []), bad


@obligation(P, 'O0.find_root_contract_at_call_site', cap=300)
def o0(h):
    """the contract substituted for ScalarRootFind.find_root in every other obligation (result inside the bracket, |r(result)| <= the
    r_tol the J2 source asks for, 1e-10*Y0) holds for the REAL find_root at the J2 call site: decided by running the unmodified update
    (ground check, no solver) on a family of admissible inputs: unit-free and SI-scaled moduli, linear / Voce / power-law hardening,
    virgin and hardened states, plus VERIF_SEED-seeded draws. A failure is reported as a violation with those inputs."""
    J2, Hd, SRF, TM = _mods()
    h.encoded(SRF.find_root, SRF.rtsafe_, SRF.get_settings, J2.update_state, J2.compute_state_increment, Hd.create_hardening_model)
    h.bounds('ground (variable-free) check on %d fixed configurations + 6 seeded draws; this is the link between the real root finder and the contract (C17 proves the loop '
             'invariants for an uninterpreted function; here the J2 residual, tolerances and brackets are the real ones)' % len(CONTRACT_FAMILY))
    h.assume_note('decided by concrete runs of the unmodified code, not by a solver: it validates the stub every other C09 obligation rests on')
    base = EX['dg']

    def run_one(label, kind, hard, E, nu, Y0, dg, st):
        vals = dict(config=label, kind=kind, hard=list(hard), E=E, nu=nu, Y0=Y0, dg=onp.asarray(dg).tolist(), st=onp.asarray(st).tolist(), dt=1.0)
        out, calls, bad = _contract_run(kind, hard, E, nu, Y0, dg, st, 1.0)
        return vals, out, calls, bad
    if h.replay is not None:
        v = h.replay['inputs']
        _, out, calls, bad = run_one(v['config'], v['kind'], v['hard'], v['E'], v['nu'], v['Y0'], onp.asarray(v['dg']), onp.asarray(v['st']))
        h.replay_result = dict(status='violated' if bad else 'unreproduced', calls=bad or calls, outputs=out.tolist())
        return
    cfgs = []
    for label, kind, hard, E, nu, Y0, sc, e0 in CONTRACT_FAMILY:
        st = onp.zeros(10)
        st[0] = e0
        cfgs.append((label, kind, hard, E, nu, Y0, sc * base, st))
    rng = onp.random.default_rng(h.seed)
    for k in range(6):
        v = sampler_full(rng)
        kind = ('linear', 'voce', 'power law')[k % 3]
        Y0 = float(v[4]) * (350.0e6 if k >= 3 else 1.0)
        E = float(v[2]) * Y0 / float(v[4])
        hard = {'linear': (0.01 * E,), 'voce': (2.0 * Y0, 0.03), 'power law': (5.0, 0.01)}[kind]
        cfgs.append(('seeded_%d_%s' % (k, kind.replace(' ', '_')), kind, hard, E, float(v[3]), Y0, onp.asarray(v[0]) * (5.0 if k >= 3 else 1.0), onp.asarray(v[1])))
    for label, kind, hard, E, nu, Y0, dg, st in cfgs:
        vals, out, calls, bad = run_one(label, kind, hard, E, nu, Y0, dg, st)
        if bad:
            h.violation('contract[%s]' % label, vals, 'the REAL find_root result violates the contract at the J2 call site: %s' % bad[0])
        else:
            h.fact('contract[%s]' % label, True, '%d find_root call(s) executed, max |r(root)|/(1e-10*Y0) = %.2e' % (
                len(calls), max([abs(c_['rx']) / (tol_rel() * Y0) for c_ in calls] + [0.0])), nontrivial=len(calls) > 0)


@obligation(P, 'O12.root_settings_by_field_name', cap=300)
def o12(h):
    """the settings record J2 hands to find_root, read BY FIELD NAME as rtsafe_ reads it: r_tol == 1e-10*Y0 (the yield tolerance) and
    x_tol == 0, for all moduli/strains (JX on the real call expression get_settings(x_tol=0, r_tol=_TOLERANCE*props[PROPS_Y0]) inside
    update_state); and every keyword of ScalarRootFind.get_settings lands in the Settings field of the same name (PX, generic)"""
    from .. import px
    from .c01 import make_generic_settings_harness
    J2, Hd, SRF, TM = _mods()
    h.encoded(SRF.get_settings, 'optimism.ScalarRootFind:Settings', J2.update_state)
    h.bounds('plane-strain block, moduli box as O1 (the settings do not depend on the strain); get_settings: all keyword values symbolic')
    c = J2Case(h, f_state, EX, build=build_plane, sampler=sampler_full, label='settings_at_call_site', assume_post=False, validate=0)

    def spec(i, o, calls):
        A = calls('a')
        g = A['guard']
        tolY = v_mul(tol_rel(), s0(i['Y0']))
        return box_moduli(i) + box_state(i) + state_invariant(i['st']), [
            Eq(A['rtol'], tolY, when=g, name='r_tol_field_is_1e-10_Y0', scale=tolY), Eq(A['xtol'], 0.0, when=g, name='x_tol_field_is_zero', scale=tolY)]
    c.prove('j2_call', spec, cap=60, order=('core', 'nlsat'))
    px.run_px(h, 'settings', make_generic_settings_harness('optimism/ScalarRootFind.py'), cap=20)
