"""C16 — contact geometry: closest points, signed gaps, penalty energy, level-set constraints, mortar integrals (JX)."""
import math
import numpy as onp
import jax
import jax.numpy as jnp

from ..core import obligation
from ..jxh import Case
from .. import jx, sym
from ..sym import Le, Lt, Eq, Holds, v_min, v_max, v_abs, v_lt, v_le, v_eq, v_and, v_or, v_not, v_sub, v_add, v_mul, v_sq, v_dot, v_if, v_sum, v_implies

P = 'C16'


# ---- local extension of the interpreter (this process only): vmap batching rules emit elementwise primitives whose
# operands differ by size-1 dimensions (e.g. div f64[3,2] f64[3,1]); jx.ew only knows equal shapes and scalars.
_ew0 = jx.ew


def _ew_broadcast(fn, *args):
    args = [jx.lift(a) for a in args]
    shapes = {a.shape for a in args if a.shape != ()}
    if len(shapes) > 1:
        nd = max(len(s) for s in shapes)
        if all(len(s) == nd for s in shapes):
            tgt = tuple(max(s[k] for s in shapes) for k in range(nd))
            args = [a if a.shape == () else onp.broadcast_to(a, tgt) for a in args]
    return _ew0(fn, *args)


jx.ew = _ew_broadcast


_dyn_slice0 = jx.OTHER['dynamic_slice']


def _dyn_slice_symbolic(ctx, eqn, iv):
    """dynamic_slice whose start is a symbolic index (x[argmin(..)]): ite-chain over the clamped start values"""
    import itertools
    import z3
    operand, starts = iv[0], [s[()] for s in iv[1:]]
    if all(sym.num(s) for s in starts):
        return _dyn_slice0(ctx, eqn, iv)
    sizes = eqn.params['slice_sizes']
    rngs = [[int(s)] if sym.num(s) else list(range(0, operand.shape[d] - sizes[d] + 1)) for d, s in enumerate(starts)]
    res = None
    for combo in reversed(list(itertools.product(*rngs))):
        r = jx.structural(eqn.primitive, eqn.params, [operand] + [jnp.asarray(int(v)) for v in combo], which=(0,))
        conds = []
        for d, (s, v) in enumerate(zip(starts, combo)):
            if sym.num(s):
                continue
            hi = operand.shape[d] - sizes[d]
            conds.append(sym.toz(s) <= v if v == 0 else (sym.toz(s) >= v if v == hi else sym.toz(s) == v))
        cnd = z3.And(*conds) if len(conds) > 1 else conds[0]
        res = r if res is None else jx.ew(lambda a, b, cnd=cnd: v_if(cnd, a, b), r, res)
    return res


jx.OTHER['dynamic_slice'] = _dyn_slice_symbolic


def _mods():
    from optimism.contact import EdgeCpp, MortarContact, Contact, PenaltyContact, LevelsetConstraint, Levelset
    from optimism import Surface, Mesh, QuadratureRule
    return dict(EdgeCpp=EdgeCpp, Mortar=MortarContact, Contact=Contact, Penalty=PenaltyContact, LC=LevelsetConstraint,
                Levelset=Levelset, Surface=Surface, Mesh=Mesh, QR=QuadratureRule)


def s0(a):
    return a[()] if hasattr(a, 'shape') and a.shape == () else a


def _iff(a, b):
    if sym.num(a) and sym.num(b):
        return bool(a) == bool(b)
    return sym.tob(a) == sym.tob(b)


def _len2(e):
    d0, d1 = v_sub(e[1][0], e[0][0]), v_sub(e[1][1], e[0][1])
    return v_add(v_sq(d0), v_sq(d1))


def _pt(e, s):
    """a + s (b - a) of the edge e"""
    return [v_add(e[0][k], v_mul(s, v_sub(e[1][k], e[0][k]))) for k in range(2)]


def _d2(p, q):
    return v_add(v_sq(v_sub(p[0], q[0])), v_sq(v_sub(p[1], q[1])))


def _smp_edge_p(rng):
    a = rng.normal(size=2)
    b = a + rng.normal(size=2) * (0.2 + abs(rng.normal()))
    return onp.array([a, b]), rng.normal(size=2) * 2


# ============================================================================================ O1 closest point
@obligation(P, 'O1.cpp_nearest_point', cap=200)
def o1a(h):
    """EdgeCpp.cpp returns the nearest point of the segment (for every s in [0,1]); cpp_line the orthogonal projection"""
    M = _mods()
    E = M['EdgeCpp']
    h.encoded(E.cpp, E.cpp_line, E.dot, E.norm_squared)
    h.bounds('edge end points a != b and query point p: all of R^2 (7 reals incl. the competitor parameter s in [0,1] resp. s real)')
    h.outside('degenerate edge a == b (0/0 in the code)')
    h.assume_note('the only symbolic denominator |b-a|^2 is assumed non-zero (non-degenerate segment, part of the property statement)')
    ex = dict(edge=onp.array([[0.1, 0.2], [1.0, 0.7]]), p=onp.array([0.4, 0.9]), s=0.3)

    def smp(rng):
        e, p = _smp_edge_p(rng)
        return [e, p, rng.uniform()]

    c = Case(h, lambda edge, p, s: E.cpp(edge, p), ex, sampler=smp, label='cpp')

    def spec(i, o):
        e, p, s = i['edge'], i['p'], s0(i['s'])
        c_, t = o[0], s0(o[1])
        return [v_le(0.0, s), v_le(s, 1.0)], [
            Holds(v_and(v_le(0.0, t), v_le(t, 1.0)), name='t_in_unit_interval'),
            Eq(c_, _pt(e, t), name='point_is_on_segment_at_t'),
            Le(_d2(p, c_), _d2(p, _pt(e, s)), name='nearest_of_all_segment_points', scale=_len2(e)),
        ]
    c.prove('cpp', spec, cap=60, order=('nlsat', 'core'))

    cl = Case(h, lambda edge, p, s: E.cpp_line(edge, p), ex, sampler=lambda rng: smp(rng)[:2] + [rng.normal()], label='cpp_line')

    def spec_line(i, o):
        e, p, s = i['edge'], i['p'], s0(i['s'])
        c_, t = o[0], s0(o[1])
        v = [v_sub(e[1][k], e[0][k]) for k in range(2)]
        return [], [
            Eq(c_, _pt(e, t), name='point_is_on_line_at_t'),
            Eq(v_dot(v, [v_sub(p[k], c_[k]) for k in range(2)]), 0.0, name='residual_orthogonal_to_edge', scale=_len2(e)),
            Le(_d2(p, c_), _d2(p, _pt(e, s)), name='nearest_of_all_line_points', scale=_len2(e)),
        ]
    cl.prove('cpp_line', spec_line, cap=60, order=('nlsat', 'core'))

    cb = Case(h, lambda edge, p: (E.cpp(edge, p), E.cpp_line(edge, p)), dict(edge=ex['edge'], p=ex['p']), sampler=lambda rng: smp(rng)[:2], label='cpp_vs_line')

    def spec_both(i, o):
        (c_, t), (cl_, tl) = o
        t, tl = s0(t), s0(tl)
        return [], [
            Eq(t, v_min(v_max(tl, 0.0), 1.0), name='t_is_line_parameter_clamped'),
            Eq(c_, cl_, when=v_and(v_le(0.0, tl), v_le(tl, 1.0)), name='equals_projection_when_inside'),
        ]
    cb.prove('cpp_vs_line', spec_both, cap=60)


def _side(e, p):
    """unnormalised outward-normal component of p - a: (t_y, -t_x) . (p - a); equals |b-a| * normal . (p - cpp_line(p))"""
    t0, t1 = v_sub(e[1][0], e[0][0]), v_sub(e[1][1], e[0][1])
    return v_sub(v_mul(t1, v_sub(p[0], e[0][0])), v_mul(t0, v_sub(p[1], e[0][1])))


@obligation(P, 'O1.cpp_distance', cap=300)
def o1b(h):
    """EdgeCpp.cpp_distance: dist^2 = squared Euclidean distance to the segment, sign = side of the outward normal, + on the line"""
    M = _mods()
    E, S = M['EdgeCpp'], M['Surface']
    h.encoded(E.cpp_distance, E.cpp_line, E.cpp, S.compute_normal)
    h.bounds('edge end points a != b and query point p: all of R^2 (6 reals + 3 square roots)')
    h.outside('degenerate edge a == b')
    h.assume_note('symbolic denominators |b-a|^2 and |normal| are assumed non-zero (non-degenerate segment)')
    ex = dict(edge=onp.array([[0.1, 0.2], [1.0, 0.7]]), p=onp.array([0.4, 0.9]))
    c = Case(h, lambda edge, p: (E.cpp_distance(edge, p), E.cpp(edge, p)[0], E.cpp_line(edge, p)), ex, sampler=lambda rng: list(_smp_edge_p(rng)), label='cpp_distance')

    def spec(i, o):
        e, p = i['edge'], i['p']
        d, cp, (cl, tl) = s0(o[0]), o[1], o[2]
        tl = s0(tl)
        side = _side(e, p)
        L2 = _len2(e)
        inside = v_and(v_le(0.0, tl), v_le(tl, 1.0))
        return [], [
            Eq(v_sq(d), _d2(p, cp), name='magnitude_is_distance_to_segment', scale=L2),
            Lt(0.0, d, when=v_lt(0.0, side), name='positive_on_normal_side', scale=0.0),
            Lt(d, 0.0, when=v_lt(side, 0.0), name='negative_on_other_side', scale=0.0),
            Le(0.0, d, when=v_eq(side, 0.0), name='nonnegative_on_the_line'),
            Eq(v_mul(v_sq(d), L2), v_sq(side), when=inside, name='inside_is_normal_component', scale=v_sq(L2)),
        ]
    c.prove('cpp_distance', spec, cap=120 if h.thorough() else 40, order=('nlsat', 'core'))


@obligation(P, 'O1.closest_of_several_edges', cap=120)
def o1c(h):
    """Contact.get_closest_distance picks, among the candidate edges, the signed distance of least magnitude (cut at the
    function boundary: cpp_distance itself is O1.cpp_distance; here it is replaced by an arbitrary value per edge)"""
    M = _mods()
    E, C = M['EdgeCpp'], M['Contact']
    h.encoded(C.get_closest_distance)
    n = 8 if h.thorough() else 4
    h.bounds('%d candidate edges, every combination of real signed distances' % n)
    h.outside('neighbour search: O1.neighbour_search_min_dist / O1.neighbour_search_top_k; closest edge / field weights: '
              'O1.closest_edge_and_field_weights; smoothed two-edge distance: O6.smooth_distance')
    h.assume_note('stub: EdgeCpp.cpp_distance(edge_k, p) is replaced at trace and replay time by the arbitrary real edge_k[0,0] '
                  '(its actual value is the subject of O1.cpp_distance); only the selection logic of get_closest_distance is encoded here')

    def fn(coordsM, p):
        old = E.cpp_distance
        E.cpp_distance = lambda edge, q: edge[0, 0] + 0.0 * q[0]
        try:
            return C.get_closest_distance(coordsM, p)
        finally:
            E.cpp_distance = old
    rng0 = onp.random.default_rng(3)
    ex = dict(coordsM=rng0.normal(size=(n, 2, 2)), p=onp.array([0.4, 0.9]))
    smp = lambda rng: [rng.normal(size=(n, 2, 2)), rng.normal(size=2)]
    c = Case(h, fn, ex, sampler=smp, label='get_closest_distance', jit=False)

    def spec(i, o):
        r, ds = s0(o), [i['coordsM'][k][0][0] for k in range(n)]
        return [], [
            Holds(v_or(*[v_eq(r, d) for d in ds]), name='is_one_of_the_edge_distances'),
            Le([v_abs(r)] * n, [v_abs(d) for d in ds], name='least_magnitude'),
        ]
    c.prove('get_closest_distance', spec, cap=30)


@obligation(P, 'O1.closest_edge_and_field_weights', cap=200)
def o1d(h):
    """Contact.compute_closest_edges_and_field_weights (its inner get_closest_edge / get_edge_weights), compute_q_coordinates_from_field_weights and
    compute_closest_distance_to_each_side: per integration point the selected main-surface edge is a candidate of least |signed distance|, the
    distance reported by the sibling get_closest_distance is the distance to THAT edge, the field weight is the line parameter of the point's
    projection onto that edge, and the reconstructed point is a + w (b - a) of that edge (cut: cpp_distance replaced by an arbitrary value per
    (edge, point); its actual value is O1.cpp_distance)"""
    M = _mods()
    E, C, S = M['EdgeCpp'], M['Contact'], M['Surface']
    nM = 4 if h.thorough() else 3
    h.encoded(C.compute_closest_edges_and_field_weights, C.compute_q_coordinates_from_field_weights, C.compute_closest_distance_to_each_side, C.compute_projection_dists,
              C.get_closest_distance, C.get_side_coordinates, E.cpp_line)
    h.bounds('%d main-surface candidate edges (top of the %dx2 structured mesh) and one integration edge (a bottom edge) with its 2 Gauss points; all nodal coordinates '
             'and displacements symbolic (any geometry, collinear or kinked), connectivity concrete; every combination of per-(edge, point) signed distances' % (nM, nM + 1))
    h.outside('neighbour search (O1.neighbour_search_min_dist / O1.neighbour_search_top_k), friction potential')
    h.assume_note('stub: EdgeCpp.cpp_distance(edge, q) is replaced at trace and replay time by the arbitrary real edge[0,0] - q[0] '
                  '(any real per edge since the first-node coordinates are free, shifted per point; the true value is the subject of O1.cpp_distance); cpp_line and all Contact code are the real ones',
                  'symbolic denominators |b-a|^2 of the candidate edges are assumed non-zero (non-degenerate deformed edges)')
    mesh = M['Mesh'].construct_structured_mesh(nM + 1, 2, [0., float(nM)], [0., 1.])
    coords = onp.asarray(mesh.coords)
    conns = onp.asarray(mesh.conns)
    top = onp.asarray(S.create_edges(mesh.coords, mesh.conns, lambda xs: bool(onp.all(onp.asarray(xs)[:, 1] > 1. - 1e-8))))
    bot = onp.asarray(S.create_edges(mesh.coords, mesh.conns, lambda xs: bool(onp.all(onp.asarray(xs)[:, 1] < 1e-8))))
    assert top.shape == (nM, 2) and bot.shape[0] >= 1
    surfI = bot[:1]
    nodesM = [[int(conns[e][n]), int(conns[e][(n + 1) % 3])] for e, n in top]
    nI = [int(conns[surfI[0][0]][surfI[0][1]]), int(conns[surfI[0][0]][(surfI[0][1] + 1) % 3])]
    quad = M['QR'].create_quadrature_rule_1D(2)
    xig = [float(x) for x in onp.asarray(quad.xigauss)]
    jconns, jtop, jI = jnp.asarray(conns), jnp.asarray(top), jnp.asarray(surfI)
    stub = lambda edge, q: edge[0, 0] - q[0]

    def fn(X, U):
        old = E.cpp_distance
        E.cpp_distance = stub
        try:
            m = mesh._replace(coords=X, conns=jconns)
            il = jtop[None]
            ce, w = C.compute_closest_edges_and_field_weights(m, U, quad, il, jI)
            return ce, w, C.compute_q_coordinates_from_field_weights(m, U, ce, w), C.compute_closest_distance_to_each_side(m, U, quad, il, jI)
        finally:
            E.cpp_distance = old
    ex = dict(X=coords + 0.05 * onp.sin(onp.arange(float(coords.size)).reshape(coords.shape)), U=_ex_disp(coords))
    smp = lambda rng: [coords + 0.3 * rng.normal(size=coords.shape), 0.5 * rng.normal(size=coords.shape)]
    c = Case(h, fn, ex, sampler=smp, label='closest_edges', jit=False)

    def spec(i, o):
        X, U = i['X'], i['U']
        ce, w, xq, dist = o
        x = lambda n: [v_add(X[n][d], U[n][d]) for d in range(2)]
        edgesM = [[x(a), x(b)] for a, b in nodesM]
        pts = _samples([nI], xig, X, U)[0]
        atoms = []
        pre = [v_lt(0.0, _len2(e)) for e in edgesM]
        for q in range(len(xig)):
            p = pts[q]
            dk = [v_sub(e[0][0], p[0]) for e in edgesM]
            chosen = [v_and(v_eq(ce[0][q][0], float(top[k][0])), v_eq(ce[0][q][1], float(top[k][1]))) for k in range(nM)]
            atoms.append(Holds(v_or(*chosen), name='q%d.selected_edge_is_a_candidate' % q))
            for k in range(nM):
                e = edgesM[k]
                v = [v_sub(e[1][d], e[0][d]) for d in range(2)]
                atoms.append(Le([v_abs(dk[k])] * nM, [v_abs(d) for d in dk], when=chosen[k], name='q%d.edge%d_selected_only_if_least_magnitude' % (q, k)))
                atoms.append(Eq(s0(dist[0][q]), dk[k], when=chosen[k], name='q%d.edge%d_reported_distance_is_that_of_the_selected_edge' % (q, k)))
                atoms.append(Eq(v_mul(s0(w[0][q]), _len2(e)), v_dot(v, [v_sub(p[d], e[0][d]) for d in range(2)]), when=chosen[k],
                                name='q%d.edge%d_weight_is_projection_parameter_on_the_selected_edge' % (q, k), scale=_len2(e)))
                atoms.append(Eq([xq[0][q][0], xq[0][q][1]], _pt(e, s0(w[0][q])), when=chosen[k], name='q%d.edge%d_reconstructed_point_is_on_the_selected_edge' % (q, k)))
        return pre, atoms
    c.prove('closest_edge', spec, cap=40)


# ---- neighbour search (Contact.min_dist_squared / get_potential_interaction_list)
_sort0 = jx.OTHER['sort']


def _sort_keyed(ctx, eqn, iv):
    """lax.sort with one key operand and payload operands (jnp.argsort = sort(keys, iota)), any batch shape, symbolic keys:
    stable bubble network along `dimension` (an adjacent pair is swapped only if the right key is strictly smaller)"""
    if len(iv) == 1 and iv[0].ndim == 1:
        return _sort0(ctx, eqn, iv)
    if eqn.params.get('num_keys', 1) != 1:
        raise jx.JXError('symbolic sort with several keys')
    dim = eqn.params['dimension']
    ms = [onp.moveaxis(v, dim, -1).copy() for v in iv]
    n = ms[0].shape[-1]
    for idx in (onp.ndindex(*ms[0].shape[:-1]) if ms[0].ndim > 1 else [()]):
        rows = [[m[idx + (k,)] for k in range(n)] for m in ms]
        for a in range(n):
            for b in range(n - 1 - a):
                sw = jx.s_lt(rows[0][b + 1], rows[0][b])
                for r in rows:
                    lo, hi = v_if(sw, r[b + 1], r[b]), v_if(sw, r[b], r[b + 1])
                    r[b], r[b + 1] = lo, hi
        for m, r in zip(ms, rows):
            for k in range(n):
                m[idx + (k,)] = r[k]
    return [onp.moveaxis(m, -1, dim) for m in ms]


jx.OTHER['sort'] = _sort_keyed


def _search_setup(nM):
    M = _mods()
    S = M['Surface']
    mesh = M['Mesh'].construct_structured_mesh(nM + 1, 2, [0., float(nM)], [0., 1.])
    coords, conns = onp.asarray(mesh.coords), onp.asarray(mesh.conns)
    top = onp.asarray(S.create_edges(mesh.coords, mesh.conns, lambda xs: bool(onp.all(onp.asarray(xs)[:, 1] > 1. - 1e-8))))
    bot = onp.asarray(S.create_edges(mesh.coords, mesh.conns, lambda xs: bool(onp.all(onp.asarray(xs)[:, 1] < 1e-8))))
    assert top.shape == (nM, 2) and bot.shape == (nM, 2)
    nodes = lambda e: [int(conns[e[0]][e[1]]), int(conns[e[0]][(e[1] + 1) % 3])]
    return mesh, coords, conns, top, bot, nodes


def _cur(X, U, n):
    """current position of node n: reference + ITS OWN displacement"""
    return [v_add(X[n][d], U[n][d]) for d in range(2)]


def _pair_d2(X, U, nodes1, nodes2):
    """|x_i(edge2) - x_j(edge1)|^2 for the 4 end-point pairs, each edge moved by its own nodes' displacement (order: i over edge2, j over edge1)"""
    return [_d2(_cur(X, U, i), _cur(X, U, j)) for i in nodes2 for j in nodes1]


def _vmin_list(xs):
    r = xs[0]
    for x in xs[1:]:
        r = v_min(r, x)
    return r


@obligation(P, 'O1.neighbour_search_min_dist', cap=200)
def o1e(h):
    """Contact.min_dist_squared(edge1, edge2, mesh, coords, disp) = min over the 4 end-point pairs of |x_i(edge2) - x_j(edge1)|^2 where every edge's
    CURRENT end points are reference + ITS OWN nodes' displacement (exact identity against an oracle), for symbolic coordinates and displacement field"""
    M = _mods()
    C, S = M['Contact'], M['Surface']
    h.encoded(C.min_dist_squared, S.get_field_index, S.eval_field)
    nM = 3
    mesh, coords, conns, top, bot, nodes = _search_setup(nM)
    h.bounds('%dx2 structured mesh, connectivity concrete; nodal coordinates and displacement field symbolic (all reals); edge pairs: every (main = top edge, '
             'integration = bottom edge) pair, two adjacent top edges (shared node) and an edge with itself' % (nM + 1))
    h.outside('other topologies (the code indexes conns generically)')
    jconns = jnp.asarray(conns)
    pairs = [(top[a], bot[b]) for a in range(nM) for b in range(nM)] + [(top[0], top[1]), (top[1], top[1])]
    if not h.thorough():
        pairs = [pairs[0], pairs[nM + 2], pairs[2 * nM], pairs[-2], pairs[-1]]
    smp = lambda rng: [coords + 0.3 * rng.normal(size=coords.shape), rng.normal(size=coords.shape)]
    for e1, e2 in pairs:
        n1, n2 = nodes(e1), nodes(e2)
        lab = 'edge1=%s,edge2=%s' % (list(map(int, e1)), list(map(int, e2)))

        def fn(X, U, e1=e1, e2=e2):
            return C.min_dist_squared(jnp.asarray(e1), jnp.asarray(e2), mesh._replace(coords=X, conns=jconns), X, U)
        c = Case(h, fn, dict(X=coords, U=_ex_disp(coords)), sampler=smp, label=lab)

        def spec(i, o, n1=n1, n2=n2):
            ds = _pair_d2(i['X'], i['U'], n1, n2)
            r = s0(o)
            return [], [Eq(r, _vmin_list(ds), name='is_min_over_end_point_pairs_each_edge_with_its_own_displacement', scale=v_add(1.0, _vmin_list(ds)))]
        c.prove(lab, spec, cap=30)


@obligation(P, 'O1.neighbour_search_top_k', cap=300)
def o1f(h):
    """Contact.get_potential_interaction_list(surfaceM, surfaceI, mesh, disp, maxNeighbors=k): for every integration edge the list holds k DISTINCT main edges,
    nearest first, and every listed main edge's min-dist (current configuration: each edge with its own displacement) is <= that of every main edge not listed.
    Composed with O1.closest_edge_and_field_weights / O1.closest_of_several_edges / O1.cpp_distance: the reported gap is the distance to the main surface
    whenever the closest edge is among the k best by end-point distance."""
    M = _mods()
    C = M['Contact']
    h.encoded(C.get_potential_interaction_list, C.min_dist_squared)
    nM, nI, K = (5, 2, 3) if h.thorough() else (4, 2, 2)
    mesh, coords, conns, top, bot, nodes = _search_setup(nM)
    h.bounds('%d main edges (top of the %dx2 structured mesh), %d integration edge(s) (bottom), maxNeighbors = %d; nodal coordinates and displacement field symbolic '
             '(all reals: any relative sliding / deformation), connectivity concrete' % (nM, nM + 1, nI, K))
    h.outside('larger surfaces and maxNeighbors; ties are ordered by the stable argsort (not claimed)')
    jconns, jtop, jI = jnp.asarray(conns), jnp.asarray(top), jnp.asarray(bot[:nI])

    def fn(X, U):
        return C.get_potential_interaction_list(jtop, jI, mesh._replace(coords=X, conns=jconns), U, K)
    smp = lambda rng: [coords + 0.3 * rng.normal(size=coords.shape), 1.5 * rng.normal(size=coords.shape)]
    c = Case(h, fn, dict(X=coords, U=_ex_disp(coords)), sampler=smp, label='interaction_list')

    def oracle_D(X, U):
        return [[_vmin_list(_pair_d2(X, U, nodes(top[m]), nodes(bot[a]))) for m in range(nM)] for a in range(nI)]

    def atoms_from(o, Ds):
        atoms = []
        for a in range(nI):
            D = Ds[a]
            sc = v_add(1.0, v_sum([v_abs(d) for d in D]))
            is_m = [[v_and(v_eq(o[a][k][0], float(top[m][0])), v_eq(o[a][k][1], float(top[m][1]))) for m in range(nM)] for k in range(K)]
            listed = [v_or(*[is_m[k][m] for k in range(K)]) for m in range(nM)]
            atoms.append(Holds([v_or(*is_m[k]) for k in range(K)], name='I%d.entries_are_main_edges' % a))
            atoms.append(Holds([v_not(v_and(is_m[k][m], is_m[k2][m])) for m in range(nM) for k in range(K) for k2 in range(k + 1, K)], name='I%d.entries_are_distinct' % a))
            for m in range(nM):
                for m2 in range(nM):
                    if m == m2:
                        continue
                    atoms.append(Le(D[m], D[m2], when=v_and(listed[m], v_not(listed[m2])), name='I%d.listed_main%d_not_farther_than_unlisted_main%d' % (a, m, m2), scale=sc))
                    atoms.append(Le(D[m], D[m2], when=v_or(*[v_and(is_m[k][m], is_m[k + 1][m2]) for k in range(K - 1)]), name='I%d.nearest_first[main%d,main%d]' % (a, m, m2), scale=sc))
        return atoms

    def spec(i, o):
        return [], atoms_from(o, oracle_D(i['X'], i['U']))

    # cut by renaming: the sort keys inside the encoded output are (syntactically) the oracle's min-dist terms - O1.neighbour_search_min_dist proves that
    # identity per edge pair; here they are renamed to free reals, which generalises the query (true for all key values => true for these terms) and leaves
    # pure order logic.  If the renaming does not remove every input variable (the code's keys are NOT the oracle's terms), the direct query is asked instead.
    import z3
    Dz = oracle_D(c.inp['X'], c.inp['U'])
    fresh = [[z3.Real('abs!D_I%d_main%d' % (a, m)) for m in range(nM)] for a in range(nI)]
    rules = [(sym.toz(Dz[a][m]), fresh[a][m]) for a in range(nI) for m in range(nM)]
    o_abs = onp.empty(c.out.shape, dtype=object)
    for idx in onp.ndindex(*c.out.shape):
        o_abs[idx] = z3.substitute(sym.toz(c.out[idx]), *rules)
    left = set()
    for t in o_abs.ravel():
        left |= _vars_of(t)
    total = all(v.startswith('abs!') for v in left)
    h.fact('top_k.sort_keys_are_the_oracle_min_dists', True, 'renaming the oracle min-dist terms inside the encoded output %s'
           % ('removes every coordinate/displacement variable: the selection depends on the inputs only through these %d terms' % len(rules) if total else
              'leaves input variables %s: direct queries are used' % sorted(left)[:6]), nontrivial=False)
    if not total:
        # bounded direct attempt (model finding): the selection atoms of the first integration edge, small caps so that the obligation ends well inside its wall cap
        _, dat = spec(c.inp, c.out)
        for k, atom in enumerate(dat):
            if not atom.name.startswith('I0.listed_'):
                continue

            def concrete_d(vals, k=k):
                ci, co = c.conc_inputs(vals), c.real(vals)
                _, catoms = spec(ci, co)
                return True, catoms[k], dict(outputs=onp.asarray(co).tolist())
            h.prove('top_k.' + atom.name, [], atom, inputs=c.inp, concrete=concrete_d, cap=6, vac_cap=3, order=('nlsat', 'core'),
                    note='direct query: the encoded sort keys are not the oracle min-dist terms')
        return
    abs_atoms = atoms_from(o_abs, fresh)
    for k, atom in enumerate(abs_atoms):
        def concrete(vals, k=k):
            ci, co = c.conc_inputs(vals), c.real(vals)
            _, catoms = spec(ci, co)
            return True, catoms[k], dict(outputs=onp.asarray(co).tolist())
        h.prove('top_k.' + atom.name, [], atom, inputs=c.inp, concrete=concrete, cap=120 if h.thorough() else 40,
                note='sort keys renamed to free reals (pure order logic over %d reals)' % len(rules))


# ============================================================================================ O2 / O3 level sets
def _boundary(nedges=2):
    """the repository's structured (nedges+1)x2 mesh; its top edges (as found by Surface.create_edges) are the contact boundary"""
    M = _mods()
    mesh = M['Mesh'].construct_structured_mesh(nedges + 1, 2, [0., float(nedges)], [0., 1.])
    coords = onp.asarray(mesh.coords)
    edges = M['Surface'].create_edges(mesh.coords, mesh.conns, lambda xs: bool(onp.all(onp.asarray(xs)[:, 1] > 1. - 1e-8)))
    edges = onp.asarray(edges)
    assert edges.shape == (nedges, 2), edges
    conns = onp.asarray(mesh.conns)
    nodes = [[int(conns[e][n]), int(conns[e][(n + 1) % 3])] for e, n in edges]
    quad = M['QR'].create_quadrature_rule_1D(2)
    return mesh, coords, edges, nodes, quad


def _samples(nodes, xig, X, U):
    """oracle: (1-xi_q)(X0+u0) + xi_q (X1+u1) for every boundary edge and quadrature point (xi_q: the code's own table)"""
    pts = []
    for n0, n1 in nodes:
        row = []
        for xi in xig:
            xi = float(xi)
            row.append([v_add(v_mul(1.0 - xi, v_add(X[n0][k], U[n0][k])), v_mul(xi, v_add(X[n1][k], U[n1][k]))) for k in range(2)])
        pts.append(row)
    return pts


def _levelsets():
    """name -> (parameter names, example, python callable on the real Levelset function, nonneg(x, prm) without sqrt,
    value relation(out, x, prm) -> list of dual-evaluation booleans)"""
    L = _mods()['Levelset']
    return {
        'plane': (['yLoc'], [0.9], lambda x, q: L.plane(x, q[0]),
                  lambda x, q: v_le(x[1], q[0]),
                  lambda o, x, q: (v_sub(q[0], x[1]), None)),
        'corner': (['xLoc', 'yLoc'], [0.4, 0.9], lambda x, q: L.corner(x, q[0], q[1]),
                   lambda x, q: v_and(v_le(q[0], x[0]), v_le(q[1], x[1])),
                   lambda o, x, q: (v_min(v_sub(x[0], q[0]), v_sub(x[1], q[1])), None)),
        'sphere': (['xLoc', 'yLoc', 'R'], [0.8, 1.1, 0.3], lambda x, q: L.sphere(x, q[0], q[1], q[2]),
                   lambda x, q: v_or(v_le(q[2], 0.0), v_le(v_sq(q[2]), _d2(x, q))),
                   lambda o, x, q: (None, (v_add(o, q[2]), _d2(x, q)))),
    }


def _smp_mesh(coords, nprm):
    def smp(rng):
        X = coords + 0.2 * rng.normal(size=coords.shape)
        U = 0.3 * rng.normal(size=coords.shape)
        return [X, U, abs(rng.normal()) + 0.1, rng.normal(size=nprm) * 0.5 + 0.7]
    return smp


def _ex_disp(coords):
    return 0.1 * onp.cos(onp.arange(float(coords.size)).reshape(coords.shape))


def _vars_of(t, acc=None):
    import z3
    acc = set() if acc is None else acc
    stack, seen = [t], set()
    while stack:
        x = stack.pop()
        if x.get_id() in seen:
            continue
        seen.add(x.get_id())
        if z3.is_const(x) and x.decl().kind() == z3.Z3_OP_UNINTERPRETED:
            acc.add(str(x))
        stack.extend(x.children())
    return acc


def _ground_eval(c, t):
    """value of a term at one fixed rational point of the inputs (used only to pair encoding terms with oracle terms)"""
    import z3
    import fractions
    sub = []
    k = 0
    for nm in c.names:
        for v in c.inp[nm].ravel():
            k += 1
            sub.append((v, sym.rat(fractions.Fraction(3 * k * k + 7 * k + 1, 5 * k + 11))))
    r = z3.simplify(z3.substitute(t, *sub))
    return str(r)


def _sqrts(c):
    """(sqrt variable, radicand) of every symbolic square root of the encoding"""
    return [(c.ctx.cache[('sqrt', a.get_id())], a) for _, a in c.ctx.sqrt_args]


def _replay_all(c, spec):
    """replay driver for lemma queries: the lemma is about the encoding, so a model of its negation is replayed against
    ALL goal atoms of the spec on the real function (reproduced only if the real code violates the property itself)"""
    def concrete(vals):
        ci, co = c.conc_inputs(vals), c.real(vals)
        ca, catoms = spec(ci, co)
        catoms = [catoms] if isinstance(catoms, sym.Atom) else catoms
        ok = all(bool(x) for x in sym.flat(list(ca)))
        bad = [a.name for a in catoms if a.conc_violated(1e-9)[0]]
        return ok, Holds(not bad, name='all_goal_atoms'), dict(violated_atoms=bad, outputs=[onp.asarray(l).tolist() for l in jax.tree_util.tree_leaves(co)][:6])
    return concrete


def _prove_cut(h, c, name, spec, lemmas, dropped, cap=60, order=('core', 'nlsat')):
    """cut-lemma chain (DESIGN 4): every lemma (text, z3 formula over the encoding's own terms) is first proven from the full
    definitional side conditions as its own query; the goal atoms are then discharged from the lemmas with the definitions of
    the `dropped` variables omitted (dropping a definition only enlarges the model set, so unsat stays sound)."""
    assumes, atoms = spec(c.inp, c.out)
    atoms = [atoms] if isinstance(atoms, sym.Atom) else atoms
    full = list(assumes) + c.side(True)
    for k, (text, f) in enumerate(lemmas):
        h.prove('%s.lemma%d[%s]' % (name, k, text), full, Holds(f, name=text), inputs=c.inp, concrete=_replay_all(c, spec), cap=cap, order=order,
                note='cut lemma, proven from the full encoding')
    names = {str(v) for v in dropped}
    side = [f for f in c.side(True) if not (_vars_of(f) & names)]
    base = list(assumes) + side + [f for _, f in lemmas]
    for i, atom in enumerate(atoms):
        def concrete(vals, i=i):
            ci, co = c.conc_inputs(vals), c.real(vals)
            ca, catoms = spec(ci, co)
            catoms = [catoms] if isinstance(catoms, sym.Atom) else catoms
            return all(bool(x) for x in sym.flat(list(ca))), catoms[i], dict(outputs=[onp.asarray(l).tolist() for l in jax.tree_util.tree_leaves(co)][:6])
        h.prove('%s.%s' % (name, atom.name or i), base, atom, inputs=c.inp, concrete=concrete, cap=cap, order=order,
                note='goal from cut lemmas; definitions of %d square-root variables dropped' % len(names))


def _o2(h, name):
    import z3
    M = _mods()
    Pn, S, L = M['Penalty'], M['Surface'], M['Levelset']
    ne = 4 if h.thorough() else 2
    mesh, coords, edges, nodes, quad = _boundary(ne)
    h.encoded(Pn.compute_total_penalty_contact_energy, Pn.compute_edge_penalty_contact_energy, S.integrate_values, S.eval_field, S.get_field_index,
              M['QR'].eval_at_iso_points, getattr(L, name))
    h.bounds('%d-edge boundary (top of the %dx2 structured mesh, connectivity concrete; 2 edges in the quick tier, 4 in the thorough tier), 2-point Gauss '
             'rule of the repository; nodal reference coordinates, displacements, stiffness and all level-set parameters symbolic, all reals' % (ne, ne + 1),
             '"== 0 iff" needs stiffness > 0 and non-degenerate reference edges; ">= 0" needs stiffness >= 0')
    h.outside('other meshes / numbers of edges (the per-edge computation is vmapped, identical for every edge)', 'higher-order quadrature')
    xig = [float(x) for x in onp.asarray(quad.xigauss)]
    h.fact('quadrature_table', len(xig) == 2 and all(float(w) > 0 for w in onp.asarray(quad.wgauss)) and all(0 < x < 1 for x in xig),
           'create_quadrature_rule_1D(2): points %s weights %s (positive weights, points inside the edge)' % (xig, onp.asarray(quad.wgauss).tolist()))
    conns = jnp.asarray(mesh.conns)
    jedges = jnp.asarray(edges)
    pn, pex, lsf, nonneg, _ = _levelsets()[name]

    def fn(X, U, k, prm):
        m = mesh._replace(coords=X, conns=conns)
        return Pn.compute_total_penalty_contact_energy(lambda x: lsf(x, prm), U, m, quad, jedges, k)
    ex = dict(X=coords, U=_ex_disp(coords), k=2.0, prm=onp.array(pex))
    c = Case(h, fn, ex, sampler=_smp_mesh(coords, len(pex)), label=name)

    def spec(i, o):
        X, U, k, q = i['X'], i['U'], s0(i['k']), list(i['prm'])
        E_ = s0(o)
        pts = _samples(nodes, xig, X, U)
        ok = [nonneg(x, q) for row in pts for x in row]
        nondeg = [v_lt(0.0, _d2(X[n0], X[n1])) for n0, n1 in nodes]
        return nondeg, [
            Le(0.0, E_, when=v_le(0.0, k), name='nonnegative', scale=k),
            Eq(E_, 0.0, when=v_and(*ok), name='zero_when_no_sample_penetrates', scale=k),
            Lt(0.0, E_, when=v_and(v_lt(0.0, k), v_not(v_and(*ok))), name='positive_when_some_sample_penetrates', scale=0.0),
        ]
    if name == 'plane':
        c.prove(name, spec, cap=60)
        return
    # chain: the edge Jacobians |X0-X1| and (sphere) the sample radii enter the goals only through their signs
    X, U, q = c.inp['X'], c.inp['U'], list(c.inp['prm'])
    pts = [x for row in _samples(nodes, xig, X, U) for x in row]
    lemmas, dropped = [], []
    for s_, a in _sqrts(c):
        if any(v.startswith('prm') for v in _vars_of(a)):
            # which sample does this radius belong to: matched on a ground evaluation (a heuristic; soundness comes from the lemma's proof)
            hit = [j for j, x in enumerate(pts) if _ground_eval(c, a) == _ground_eval(c, sym.toz(_d2(x, q)))]
            if len(hit) != 1:       # the code's radicand is not the oracle's |x_q - c|^2 at any sample: no chain, ask the solver directly
                c.prove(name, spec, cap=100, order=('nlsat', 'core'))
                return
            lemmas.append(('radius_of_sample_%d_vs_R' % hit[0], z3.And(s_ >= 0, (s_ >= q[2]) == nonneg(pts[hit[0]], q))))
        else:
            lemmas.append(('edge_jacobian_sign', z3.And(s_ >= 0, z3.Implies(a > 0, s_ > 0))))
        dropped.append(s_)
    if len(dropped) != (ne * 3 if name == 'sphere' else ne):
        c.prove(name, spec, cap=100, order=('nlsat', 'core'))
        return
    _prove_cut(h, c, name, spec, lemmas, dropped, cap=300 if h.thorough() else 100)


@obligation(P, 'O2.penalty_energy_plane', cap=120)
def o2_plane(h):
    """PenaltyContact.compute_total_penalty_contact_energy with Levelset.plane: >= 0, == 0 iff no sample point penetrates"""
    _o2(h, 'plane')


@obligation(P, 'O2.penalty_energy_corner', cap=300)
def o2_corner(h):
    """... with Levelset.corner"""
    _o2(h, 'corner')


@obligation(P, 'O2.penalty_energy_sphere', cap=400)
def o2_sphere(h):
    """... with Levelset.sphere (cut-lemma chain over the sample radii and edge Jacobians)"""
    _o2(h, 'sphere')


@obligation(P, 'O3.levelset_constraints', cap=240)
def o3(h):
    """LevelsetConstraint.compute_levelset_constraints / PenaltyContact.evaluate_contact_constraints = level set at the interpolated
    deformed sample points (1-xi_q)(X0+u0) + xi_q(X1+u1); compute_contact_point_coordinates = those points"""
    M = _mods()
    LC, Pn, S, L = M['LC'], M['Penalty'], M['Surface'], M['Levelset']
    ne = 4 if h.thorough() else 2
    mesh, coords, edges, nodes, quad = _boundary(ne)
    h.encoded(LC.compute_levelset_constraints, LC.compute_edge_levelset_constraints, LC.compute_contact_point_coordinates, Pn.evaluate_contact_constraints,
              Pn.evaluate_levelset_on_edge, S.eval_field, S.get_field_index, M['QR'].eval_at_iso_points, L.plane, L.corner, L.sphere)
    h.bounds('%d-edge boundary (top of the %dx2 structured mesh, connectivity concrete; 2 edges quick, 4 thorough), 2-point Gauss rule; reference '
             'coordinates, displacements and level-set parameters symbolic, all reals' % (ne, ne + 1), 'sphere: value v characterised without an ideal square root: v + R >= 0 and (v + R)^2 = |x - c|^2')
    h.outside('other meshes / numbers of edges (per-edge computation is vmapped)')
    xig = [float(x) for x in onp.asarray(quad.xigauss)]
    conns = jnp.asarray(mesh.conns)
    jedges = jnp.asarray(edges)
    nE, nQ = len(nodes), len(xig)

    def pts_fn(X, U):
        return LC.compute_contact_point_coordinates(U, mesh._replace(coords=X, conns=conns), quad, jedges)
    cp = Case(h, pts_fn, dict(X=coords, U=_ex_disp(coords)), sampler=lambda rng: _smp_mesh(coords, 1)(rng)[:2], label='contact_points')

    def spec_pts(i, o):
        pts = _samples(nodes, xig, i['X'], i['U'])
        return [], [Eq([o[e][q][k] for e in range(nE) for q in range(nQ) for k in range(2)],
                       [pts[e][q][k] for e in range(nE) for q in range(nQ) for k in range(2)], name='are_interpolated_deformed_samples')]
    cp.prove('contact_point_coordinates', spec_pts, cap=30)

    for name, (pn, pex, lsf, nonneg, rel) in _levelsets().items():
        def fn(X, U, prm, lsf=lsf):
            m = mesh._replace(coords=X, conns=conns)
            ls = lambda x: lsf(x, prm)
            return LC.compute_levelset_constraints(ls, U, m, quad, jedges), Pn.evaluate_contact_constraints(ls, U, m, quad, jedges)
        ex = dict(X=coords, U=_ex_disp(coords), prm=onp.array(pex))
        smp = lambda rng, n=len(pex): [v for k, v in enumerate(_smp_mesh(coords, n)(rng)) if k != 2]
        c = Case(h, fn, ex, sampler=smp, label=name)

        def spec(i, o, nonneg=nonneg, rel=rel):
            X, U, q = i['X'], i['U'], list(i['prm'])
            pts = _samples(nodes, xig, X, U)
            atoms = []
            for tag, out in (('LevelsetConstraint', o[0]), ('PenaltyContact', o[1])):
                exact_l, exact_r, sq_l, sq_r, nn, sg = [], [], [], [], [], []
                for e in range(nE):
                    for qq in range(nQ):
                        v = out[e][qq]
                        val, sq = rel(v, pts[e][qq], q)
                        if val is not None:
                            exact_l.append(v)
                            exact_r.append(val)
                        else:
                            sq_l.append(v_sq(sq[0]))
                            sq_r.append(sq[1])
                            nn.append(v_le(0.0, sq[0]))
                        sg.append(Holds(_iff(v_le(0.0, v), nonneg(pts[e][qq], q)), name='%s.nonneg_iff_sample_outside_obstacle[e%d,q%d]' % (tag, e, qq)))
                if exact_l:
                    atoms.append(Eq(exact_l, exact_r, name=tag + '.equals_levelset_at_samples'))
                else:
                    atoms.append(Eq(sq_l, sq_r, name=tag + '.radius_squared_at_samples'))
                    atoms.append(Holds(nn, name=tag + '.radius_nonnegative'))
                atoms += sg
            return [], atoms
        c.prove(name, spec, cap=40)


# ============================================================================================ O4 mortar
# ---- nan-tracking (DESIGN 2, "IEEE special values"), local to this module: a value that may be non-finite is an Ext
# (real part, is_nan, is_+inf, is_-inf).  Only the primitives that meet such values in MortarContact.compute_intersection are
# hooked: select_n (jnp.where(valid, xi, nan), where(isnan, +-inf, x)), ne/eq (isnan = x != x, and the always-false
# `xiA == nan`), argmin/argmax (XLA semantics: first minimum, NaN wins), gather with two symbolic indices.
class Ext:
    __slots__ = ('v', 'nan', 'pinf', 'ninf')

    def __init__(self, v, nan=False, pinf=False, ninf=False):
        self.v, self.nan, self.pinf, self.ninf = v, nan, pinf, ninf

    def __repr__(self):
        return 'Ext(%s,nan=%s,+inf=%s,-inf=%s)' % (self.v, self.nan, self.pinf, self.ninf)


def _ext(x):
    if isinstance(x, Ext):
        return x
    if sym.num(x) and isinstance(x, float):
        if math.isnan(x):
            return Ext(0.0, nan=True)
        if math.isinf(x):
            return Ext(0.0, pinf=x > 0, ninf=x < 0)
    return Ext(x)


def _special(x):
    return isinstance(x, Ext) or (isinstance(x, float) and not math.isfinite(x))


def _has_special(arrs):
    return any(_special(x) for a in arrs for x in onp.asarray(a, dtype=object).ravel())


def _b_if(c, x, y):
    import z3
    if sym.num(c):
        return x if c else y
    if sym.num(x) and sym.num(y):
        if bool(x) == bool(y):
            return bool(x)
        return c if x else z3.Not(c)
    return z3.If(c, sym.tob(x), sym.tob(y))


def _fin(a):
    return jx.s_not(jx.s_or(a.nan, jx.s_or(a.pinf, a.ninf)))


def _and(*xs):
    r = True
    for x in xs:
        r = jx.s_and(r, x)
    return r


def _or(*xs):
    r = False
    for x in xs:
        r = jx.s_or(r, x)
    return r


def _ext_eq(a, b):
    a, b = _ext(a), _ext(b)
    return _and(jx.s_not(a.nan), jx.s_not(b.nan),
                _or(_and(a.pinf, b.pinf), _and(a.ninf, b.ninf), _and(_fin(a), _fin(b), jx.s_eq(a.v, b.v))))


def _ext_lt(a, b):
    a, b = _ext(a), _ext(b)
    return _and(jx.s_not(a.nan), jx.s_not(b.nan),
                _or(_and(a.ninf, jx.s_not(b.ninf)), _and(b.pinf, jx.s_not(a.pinf)), _and(_fin(a), _fin(b), jx.s_lt(a.v, b.v))))


def _hook_select_n(ctx, eqn, iv):
    if not _has_special(iv[1:]):
        return NotImplemented
    assert len(iv) == 3

    def f(c, a, b):     # select_n(c, a, b): b where c
        if sym.num(c):
            return b if c else a
        a, b = _ext(a), _ext(b)
        return Ext(v_if(c, b.v, a.v), _b_if(c, b.nan, a.nan), _b_if(c, b.pinf, a.pinf), _b_if(c, b.ninf, a.ninf))
    return jx.ew(f, *iv)


def _hook_ne(ctx, eqn, iv):
    if not _has_special(iv):
        return NotImplemented
    return jx.ew(lambda a, b: jx.s_not(_ext_eq(a, b)), *iv)


def _hook_eq(ctx, eqn, iv):
    if not _has_special(iv):
        return NotImplemented
    return jx.ew(_ext_eq, *iv)


def _hook_argminmax(is_min):
    def hook(ctx, eqn, iv):
        if not _has_special(iv):
            return NotImplemented
        a = iv[0]
        axes = eqn.params['axes']
        assert len(axes) == 1
        m = onp.moveaxis(a, axes[0], -1)
        res = onp.empty(m.shape[:-1], dtype=object)
        for idx in (onp.ndindex(*m.shape[:-1]) if m.ndim > 1 else [()]):
            xs = [_ext(x) for x in m[idx]]
            best, bi = xs[0], 0
            for k in range(1, len(xs)):
                x = xs[k]
                better = _ext_lt(x, best) if is_min else _ext_lt(best, x)
                pick = _or(better, _and(x.nan, jx.s_not(best.nan)))      # XLA reducer: strictly better, or NaN; first occurrence on ties
                best = Ext(v_if(pick, x.v, best.v), _b_if(pick, x.nan, best.nan), _b_if(pick, x.pinf, best.pinf), _b_if(pick, x.ninf, best.ninf))
                bi = v_if(pick, k, bi)
            res[idx] = bi
        return res
    return hook


def _hook_gather(ctx, eqn, iv):
    """gather along ONE indexed axis with symbolic indices (x[argmin(..)], also vmapped): the real primitive is bound on element ids for
    every candidate index value, and probed once per index position to learn which output elements that position controls"""
    operand, idx = iv
    if jx.all_concrete([idx]) or _has_special([operand]):
        return NotImplemented
    dn = eqn.params['dimension_numbers']
    K = idx.shape[-1]
    symcols = [k for k in range(K) if not jx.all_concrete([idx[..., k]])]
    if len(symcols) != 1 or len(dn.start_index_map) != K:
        return NotImplemented
    col = symcols[0]          # the other index components are concrete (batch iotas of vmap)
    ax = dn.start_index_map[col]
    if eqn.params['slice_sizes'][ax] != 1:
        return NotImplemented
    n = operand.shape[ax]
    conc = onp.zeros(idx.shape, dtype=onp.int64)
    for k in range(K):
        if k != col:
            conc[..., k] = onp.asarray(idx[..., k].tolist(), dtype=onp.int64)

    def with_col(v):
        a = conc.copy()
        a[..., col] = v
        return a
    outs = [jx.structural(eqn.primitive, eqn.params, [operand, jnp.asarray(with_col(v))], which=(0,)) for v in range(n)]
    if n == 1:
        return outs[0]
    # ids that differ along the gathered axis only -> an output element changes between index 0 and 1 iff it is controlled by the probed position
    ids = onp.zeros(operand.shape, dtype=onp.int64) + onp.arange(n).reshape([-1 if d == ax else 1 for d in range(operand.ndim)])
    bind = lambda ia: onp.asarray(eqn.primitive.bind(jnp.asarray(ids), jnp.asarray(ia), **eqn.params))
    base = bind(with_col(0))
    dep = onp.empty(base.shape, dtype=object)
    for b in onp.ndindex(*idx.shape[:-1]):
        ia = with_col(0)
        ia[b + (col,)] = 1
        for e in zip(*onp.nonzero(bind(ia) != base)):
            assert dep[e] is None
            dep[e] = b
    out = onp.empty(base.shape, dtype=object)
    for e in onp.ndindex(*base.shape):
        assert dep[e] is not None
        i0 = idx[dep[e] + (col,)]
        if sym.num(i0):
            out[e] = outs[min(max(int(i0), 0), n - 1)][e]
            continue
        r = outs[n - 1][e]
        for k in range(n - 2, -1, -1):
            r = v_if((sym.toz(i0) <= k) if k == 0 else (sym.toz(i0) == k), outs[k][e], r)
        out[e] = r
    return out


_gather0 = jx.OTHER['gather']


def _gather_any(ctx, eqn, iv):
    r = _hook_gather(ctx, eqn, iv)
    return _gather0(ctx, eqn, iv) if r is NotImplemented else r


jx.OTHER['gather'] = _gather_any     # symbolic-index gathers (x[argmin(..)] under vmap) also outside the nan-tracking context


def _nan_ctx(ground=False):
    ctx = jx.Ctx(ground=ground)
    ctx.hooks.update({'select_n': _hook_select_n, 'ne': _hook_ne, 'eq': _hook_eq, 'argmin': _hook_argminmax(True), 'argmax': _hook_argminmax(False),
                      'gather': _hook_gather})
    return ctx


def _validate_nan(h, label, fn, cj, arglist, rtol=1e-9):
    """translator validation through the nan-tracking hooks: ground run of the symbolic path vs the real function"""
    worst = 0.0
    for args in arglist:
        real = jax.tree_util.tree_leaves(fn(*[jnp.asarray(a) for a in args]))
        ctx = _nan_ctx(ground=True)
        outs = jx.eval_jaxpr(ctx, cj.jaxpr, cj.consts, *[jx.ew(lambda v: sym.rat(v), onp.asarray(a, dtype=float)) for a in args])
        for o, r in zip(outs, real):
            for x, y in zip(o.reshape(-1), onp.asarray(r, dtype=float).reshape(-1)):
                g = jx.ground_num(ctx, sym.toz(x)) if sym.isz(x) else x
                if g is None:
                    raise jx.JXError('validation: output did not reduce to a numeral: %s' % x)
                err = abs(float(g) - y) / (1.0 + abs(y))
                worst = max(worst, err)
                if not err <= rtol:
                    raise jx.JXError('translator validation failed [%s]: JX %r vs real %r (inputs %s)' % (label, float(g), y, [onp.asarray(a).tolist() for a in args]))
    h.fact('translator_validation[%s]' % label, True, 'max rel err %.2e on %d ground runs (overlapping, nested, touching and disjoint pairs) through the nan-tracking hooks'
           % (worst, len(arglist)), nontrivial=False)


def _parallel_pair(a0, a1, b0, b1, hh):
    """edgeA on y = h from a0 to a1, edgeB on y = 0 from b0 to b1 (opposite orientation when a0 < a1, b1 < b0)"""
    z = 0.0 * hh
    return jnp.array([[a0, hh], [a1, hh]]), jnp.array([[b0, z], [b1, z]])


_PAR_CASES = [  # a0, a1, b0, b1, h, l
    [0.1, 0.2, 0.22, 0.18, 0.1, 0.01],     # partial overlap (the repository's testAreaIntegrals geometry)
    [0.0, 1.0, 0.7, 0.3, 0.2, 0.05],       # B nested in A
    [0.4, 0.6, 1.0, 0.0, -0.3, 0.1],       # A nested in B, negative gap
    [0.0, 1.0, 2.0, 1.0, 0.5, 0.02],       # touching at a point
    [0.0, 1.0, 3.0, 1.5, 0.5, 0.02],       # disjoint (all-NaN branch of nanargmin/nanargmax)
    [0.0, 1.0, 1.0, 0.0, 0.25, 0.3],       # identical projections
    [-1.0, 0.5, 0.75, -2.0, 1.0, 0.5],
]


@obligation(P, 'O4.mortar_parallel_intersection', cap=300)
def o4a(h):
    """MortarContact.compute_intersection on the parallel-segment family, IEEE NaN semantics of where/nanargmin/nanargmax modelled"""
    M = _mods()
    Mo = M['Mortar']
    h.encoded(Mo.compute_intersection, Mo.compute_average_normal, Mo.compute_normal_from_a, Mo.compute_normal)
    for nname in ('compute_average_normal', 'compute_normal_from_a'):
        fnorm = getattr(Mo, nname)

        def fn(a0, a1, b0, b1, hh, fnorm=fnorm):
            eA, eB = _parallel_pair(a0, a1, b0, b1, hh)
            return Mo.compute_intersection(eA, eB, fnorm)
        ex = dict(zip(['a0', 'a1', 'b0', 'b1', 'h'], _PAR_CASES[0][:5]))
        cj = jax.make_jaxpr(fn)(*[jnp.asarray(v) for v in ex.values()])
        _validate_nan(h, 'intersection/' + nname, fn, cj, [c_[:5] for c_ in _PAR_CASES])
        c = Case(h, fn, ex, validate=0, ctx=_nan_ctx(), label='intersection/' + nname)
        _o4_notes(h)

        def spec(i, o):
            a0, a1, b0, b1, hh = [s0(i[k]) for k in ('a0', 'a1', 'b0', 'b1', 'h')]
            xiA, xiB, g = o
            lo, hi = v_max(a0, b1), v_min(a1, b0)
            LA, LB = v_sub(a1, a0), v_sub(b0, b1)
            over = v_le(lo, hi)
            return [v_lt(a0, a1), v_lt(b1, b0)], [
                Eq([v_mul(xiA[0], LA), v_mul(xiA[1], LA)], [v_sub(lo, a0), v_sub(hi, a0)], when=over, name='xiA_spans_the_common_projection', scale=LA),
                Eq([v_mul(xiB[0], LB), v_mul(xiB[1], LB)], [v_sub(b0, lo), v_sub(b0, hi)], when=over, name='xiB_spans_the_common_projection', scale=LB),
                Eq([g[0], g[1]], [hh, hh], when=over, name='gap_is_h'),
                Eq([xiA[0], xiB[0], g[0]], [xiA[1], xiB[1], g[1]], when=v_not(over), name='degenerate_interval_when_disjoint'),
            ]
        c.prove(nname, spec, cap=60, order=('core', 'nlsat'))


def _o4_notes(h):
    h.bounds('parallel-segment family: edgeA = (a0,h)-(a1,h), edgeB = (b0,0)-(b1,0), a0 < a1, b1 < b0 (opposite orientation), h any real; '
             '5 free reals (+ relative smoothing size 0 < l <= 1/2 where it enters)')
    h.outside('non-parallel pairs (see O5 and DESIGNED_NOT_REGISTERED)', 'rounding in the 2x2 LU solve (a touching configuration may be classified either way in floats)')
    h.assume_note('jnp.linalg.solve is encoded relationally (fresh x with M x = r; LU factors poisoned): the 2x2 matrix [edge tangent, normal] is '
                  'assumed non-singular, which holds on this family (normal is vertical, edges horizontal and non-degenerate)',
                  'nan-tracking: NaN/inf are (value, flags) pairs through where / isnan / nanargmin / nanargmax / `== nan` exactly as IEEE and XLA define them '
                  '(the `xiA == nan` test is always false; the all-NaN case returns index -1 twice, i.e. the last candidate twice)')


def _sl_facts(x, y, fx, fy, l):
    """for x <= y in [0,1]: 0 <= f(y) - f(x) <= y - x and f(y) - f(x) >= y - x - l"""
    d, e = v_sub(fy, fx), v_sub(y, x)
    return [v_le(0.0, d), v_le(d, e), v_le(v_sub(e, l), d)]


def _smooth_linear_lemma(h, Mo):
    """cut lemma on the real smooth_linear: monotone, 1-Lipschitz, and at most l short of the identity increment"""
    cs = Case(h, lambda a, b, l: (Mo.smooth_linear(a, l), Mo.smooth_linear(b, l)), dict(a=0.3, b=0.6, l=0.1),
              sampler=lambda rng: list(onp.sort(rng.uniform(size=2))) + [rng.uniform(0.01, 0.5)], label='smooth_linear')

    def spec_sl(i, o):
        a, b, l = s0(i['a']), s0(i['b']), s0(i['l'])
        f3 = _sl_facts(a, b, s0(o[0]), s0(o[1]), l)
        return [v_le(0.0, a), v_le(a, b), v_le(b, 1.0), v_lt(0.0, l), v_le(l, 0.5)], [
            Holds(f3[0], name='monotone'), Holds(f3[1], name='one_lipschitz'), Holds(f3[2], name='increment_at_most_l_short')]
    cs.prove('lemma_smooth_linear', spec_sl, cap=60)
    h.assume_note('cut: inside integrate_with_active_mortar, smooth_linear is replaced at trace time by an arbitrary function f constrained only by the '
                  'instances f(x) <= f(y), f(y) - f(x) <= y - x, f(y) - f(x) >= y - x - l for the ordered pairs x <= y in [0,1] that occur (plus x = y -> f(x) = f(y)); these are proven '
                  'for the real smooth_linear (all 0 <= x <= y <= 1, 0 < l <= 1/2) in the same obligation (lemma_smooth_linear.*); replay runs the un-stubbed code')


def _stubbed_case(h, Mo, fn, ex, label, ctx=None, n_havoc=None):
    """Case whose jaxpr is traced with smooth_linear havocked; returns (case, lemma instances for every havocked pair)"""
    import z3
    stub = [True]
    real_sl = Mo.smooth_linear

    def fn_cut(*args):
        if stub[0]:
            Mo.smooth_linear = lambda xi, l: jx.havoc(xi, 'sl')
        try:
            return fn(*args)
        finally:
            Mo.smooth_linear = real_sl
    c = Case(h, fn_cut, ex, validate=0, ctx=ctx, label=label)
    stub[0] = False
    lem = []
    l_ = s0(c.inp['l'])
    pairs2 = [(xr, fr) for xin, fout in c.ctx.havocs['sl'] for xr, fr in zip(xin.reshape(-1, 2), fout.reshape(-1, 2))]     # vmapped calls are batched
    for xr, fr in pairs2:
        x, y, fx, fy = xr[0], xr[1], fr[0], fr[1]
        inunit = z3.And(sym.toz(x) >= 0, sym.toz(x) <= 1, sym.toz(y) >= 0, sym.toz(y) <= 1)
        lem.append(z3.Implies(sym.toz(x) == sym.toz(y), sym.toz(fx) == sym.toz(fy)))     # f is a function (holds for any stubbed callable)
        lem.append(z3.Implies(z3.And(inunit, sym.toz(x) <= sym.toz(y)), z3.And(*[sym.tob(t) for t in _sl_facts(x, y, fx, fy, l_)])))
        lem.append(z3.Implies(z3.And(inunit, sym.toz(y) <= sym.toz(x)), z3.And(*[sym.tob(t) for t in _sl_facts(y, x, fy, fx, l_)])))
    if n_havoc is not None:
        assert len(c.ctx.havocs['sl']) == n_havoc, len(c.ctx.havocs['sl'])
    return c, lem


@obligation(P, 'O4.mortar_parallel_integrals', cap=300)
def o4b(h):
    """MortarContact.integrate_with_mortar on the parallel-segment family: integral of 1 = overlap length up to the smoothing,
    integral of g = h * that, zero when the projections do not overlap, non-negative"""
    M = _mods()
    Mo = M['Mortar']
    h.encoded(Mo.integrate_with_mortar, Mo.integrate_with_active_mortar, Mo.compute_intersection, Mo.smooth_linear, Mo.eval_linear_field_on_edge,
              Mo.compute_average_normal, Mo.compute_normal_from_a)
    _o4_notes(h)
    _smooth_linear_lemma(h, Mo)
    for nname in ('compute_average_normal', 'compute_normal_from_a'):
        fnorm = getattr(Mo, nname)

        def fn(a0, a1, b0, b1, hh, l, fnorm=fnorm):
            eA, eB = _parallel_pair(a0, a1, b0, b1, hh)
            one = Mo.integrate_with_mortar(eA, eB, fnorm, lambda xa, xb, g: 1.0 + 0.0 * g, l)
            gap = Mo.integrate_with_mortar(eA, eB, fnorm, lambda xa, xb, g: g, l)
            return one, gap
        names = ['a0', 'a1', 'b0', 'b1', 'h', 'l']
        ex = dict(zip(names, _PAR_CASES[0]))
        cj = jax.make_jaxpr(fn)(*[jnp.asarray(v) for v in ex.values()])
        _validate_nan(h, 'integrals/' + nname, fn, cj, _PAR_CASES)
        c, lem = _stubbed_case(h, Mo, fn, ex, 'integrals/' + nname, ctx=_nan_ctx(), n_havoc=2)

        def spec(i, o):
            a0, a1, b0, b1, hh, l = [s0(i[k]) for k in names]
            I1, Ig = s0(o[0]), s0(o[1])
            lo, hi = v_max(a0, b1), v_min(a1, b0)
            LA, LB = v_sub(a1, a0), v_sub(b0, b1)
            ov = v_max(0.0, v_sub(hi, lo))
            slack = v_mul(v_mul(0.5, l), v_add(LA, LB))
            sc = v_add(LA, LB)
            return [v_lt(a0, a1), v_lt(b1, b0), v_lt(0.0, l), v_le(l, 0.5)], [
            ] + [
                # the two-sided bound, split by which end points delimit the common projection (the four cases cover lo < hi)
                at for cname, cfg in (('A_starts_A_ends', v_and(v_le(b1, a0), v_le(a1, b0))), ('A_starts_B_ends', v_and(v_le(b1, a0), v_le(b0, a1), v_lt(a0, b0))),
                                      ('B_starts_A_ends', v_and(v_le(a0, b1), v_le(a1, b0), v_lt(b1, a1))), ('B_starts_B_ends', v_and(v_le(a0, b1), v_le(b0, a1))))
                for at in (Le(I1, ov, when=cfg, name='area_at_most_overlap_length[%s]' % cname, scale=sc),
                           Le(v_sub(ov, slack), I1, when=cfg, name='area_at_least_overlap_minus_smoothing[%s]' % cname, scale=sc))
            ] + [
                Le(0.0, I1, name='area_nonnegative', scale=sc),
                Eq(I1, 0.0, when=v_le(hi, lo), name='area_zero_when_projections_do_not_overlap', scale=sc),
                Eq(Ig, v_mul(hh, I1), name='gap_integral_is_h_times_area', scale=v_mul(sc, v_add(1.0, v_abs(hh)))),
                Eq(Ig, 0.0, when=v_le(hi, lo), name='gap_integral_zero_when_projections_do_not_overlap', scale=sc),
            ]
        c.prove(nname, spec, cap=60, extra_assumes=lem)


@obligation(P, 'O4.mortar_active_integral', cap=300)
def o4c(h):
    """MortarContact.integrate_with_active_mortar for ARBITRARY interval data (any segment pair): integral of 1 within the smoothing
    slack of the mean projected length, exact mean-gap factor, non-negative for integrands non-negative at the quadrature points,
    zero on a degenerate interval"""
    M = _mods()
    Mo = M['Mortar']
    h.encoded(Mo.integrate_with_active_mortar, Mo.smooth_linear, Mo.eval_linear_field_on_edge)
    h.bounds('interval end parameters 0 <= xiA[0] <= xiA[1] <= 1 (what nanargmin/nanargmax deliver), xiB[0], xiB[1] in [0,1] in any order, gaps g[0], g[1] '
             'and lengths LA, LB >= 0 arbitrary reals, relative smoothing size 0 < l <= 1/2; integrand families 1, g, and c0 (1-xiA) + c1 xiA '
             '(the nodal weights of assembly_mortar_integral) with arbitrary real c0, c1')
    h.outside('integrands that are not of these forms (the result is sum_q weight_q f_q with the weights proven >= 0, so non-negativity extends to every '
              'integrand that is >= 0 at the two quadrature points; that extension is an argument, not a query)')
    names = ['xiA', 'xiB', 'g', 'LA', 'LB', 'l', 'c']

    def fn(xiA, xiB, g, LA, LB, l, c):
        one = Mo.integrate_with_active_mortar(xiA, xiB, g, LA, LB, lambda xa, xb, gg: 1.0 + 0.0 * gg, l)
        gap = Mo.integrate_with_active_mortar(xiA, xiB, g, LA, LB, lambda xa, xb, gg: gg, l)
        wt = Mo.integrate_with_active_mortar(xiA, xiB, g, LA, LB, lambda xa, xb, gg: c[0] * (1.0 - xa) + c[1] * xa, l)
        return one, gap, wt
    ex = dict(xiA=onp.array([0.2, 0.7]), xiB=onp.array([0.9, 0.1]), g=onp.array([0.1, 0.3]), LA=1.5, LB=0.8, l=0.05, c=onp.array([0.3, 1.2]))

    def smp(rng):
        a = onp.sort(rng.uniform(size=2))
        return [a, rng.uniform(size=2), rng.normal(size=2), abs(rng.normal()), abs(rng.normal()), rng.uniform(0.001, 0.5), rng.normal(size=2)]
    _smooth_linear_lemma(h, Mo)
    jx.validate(fn, [onp.asarray(ex[k], dtype=float) for k in names], n=3, seed=h.seed, sampler=lambda rng: [onp.asarray(v, dtype=float) for v in smp(rng)])
    h.fact('translator_validation[active_mortar]', True, 'ground runs of the un-stubbed function through JX agree with the real function', nontrivial=False)
    c_, lem = _stubbed_case(h, Mo, fn, ex, 'active_mortar', n_havoc=2)
    xg = [float(x) for x in onp.asarray(M['QR'].create_quadrature_rule_1D(2).xigauss)]

    def spec(i, o):
        xiA, xiB, g, c = i['xiA'], i['xiB'], i['g'], i['c']
        LA, LB, l = s0(i['LA']), s0(i['LB']), s0(i['l'])
        I1, Ig, Ic = s0(o[0]), s0(o[1]), s0(o[2])
        mean_len = v_mul(0.5, v_add(v_mul(LA, v_sub(xiA[1], xiA[0])), v_mul(LB, v_abs(v_sub(xiB[1], xiB[0])))))
        slack = v_mul(v_mul(0.5, l), v_add(LA, LB))
        sc = v_add(LA, LB)
        fq = []
        for x in xg:
            xa = v_add(v_mul(xiA[0], 1.0 - x), v_mul(xiA[1], x))
            fq.append(v_add(v_mul(c[0], v_sub(1.0, xa)), v_mul(c[1], xa)))
        hyp = [v_le(0.0, xiA[0]), v_le(xiA[0], xiA[1]), v_le(xiA[1], 1.0), v_le(0.0, xiB[0]), v_le(xiB[0], 1.0), v_le(0.0, xiB[1]), v_le(xiB[1], 1.0),
               v_le(0.0, LA), v_le(0.0, LB), v_lt(0.0, l), v_le(l, 0.5)]
        return hyp, [
            Le(I1, mean_len, name='area_at_most_mean_projected_length', scale=sc),
            Le(v_sub(mean_len, slack), I1, name='area_at_least_mean_projected_length_minus_smoothing', scale=sc),
            Le(0.0, I1, name='area_nonnegative', scale=sc),
            Eq(v_mul(2.0, Ig), v_mul(v_add(g[0], g[1]), I1), name='gap_integral_is_mean_gap_times_area', scale=v_mul(sc, v_add(1.0, v_add(v_abs(g[0]), v_abs(g[1]))))),
            Le(0.0, Ic, when=v_and(v_le(0.0, fq[0]), v_le(0.0, fq[1])), name='nonnegative_for_integrand_nonnegative_at_quadrature_points', scale=sc),
            Eq([I1, Ig, Ic], [0.0, 0.0, 0.0], when=v_and(v_eq(xiA[0], xiA[1]), v_eq(xiB[0], xiB[1])), name='zero_on_degenerate_interval', scale=sc),
        ]
    c_.prove('active', spec, cap=60, extra_assumes=lem)


_GEN_CASES = [  # edgeA, edgeB, l : the repository's test pairs plus disjoint / nested ones
    [[[0.1, 0.2], [-0.2, 0.3]], [[-0.2, 0.28], [0.15, -0.25]], 0.01],
    [[[0.1, 0.2], [-0.2, 0.3]], [[-0.2, 0.3], [0.15, -0.25]], 0.05],
    [[[0.1, 0.1], [0.2, 0.1]], [[0.22, 0.0], [0.18, 0.0]], 0.1],
    [[[0.0, 1.0], [1.0, 1.2]], [[3.0, 0.1], [2.0, -0.2]], 0.2],
    [[[0.0, 1.0], [1.0, 1.2]], [[0.8, 0.1], [0.3, -0.1]], 0.3],
]


@obligation(P, 'O4.mortar_general_pair_structure', cap=300)
def o4d(h):
    """for ARBITRARY segment pairs: integrate_with_mortar = integrate_with_active_mortar o compute_intersection with the Euclidean lengths
    (the `== nan` switch never leaves branch 0); the selected interval is ordered inside [0,1] or degenerate; both selected end points
    satisfy the projection equation xA(xiA) - xB(xiB) + g n = 0"""
    M = _mods()
    Mo = M['Mortar']
    h.encoded(Mo.integrate_with_mortar, Mo.integrate_with_active_mortar, Mo.compute_intersection, Mo.compute_average_normal, Mo.compute_normal_from_a)
    h.bounds('edgeA, edgeB: all of R^(2x2) x R^(2x2) (8 reals) with non-degenerate edges and a common normal that is not parallel to either edge; 0 < l')
    h.outside('pairs whose 2x2 projection system [tangent, normal] is singular (normal parallel to an edge: LU gives inf/NaN in the code)')
    h.assume_note('jnp.linalg.solve is encoded relationally (fresh x with M x = r), i.e. the projection systems are assumed non-singular',
                  'symbolic denominators (edge lengths, |nA - nB|, l) are assumed non-zero',
                  'nan-tracking through where / isnan / nanargmin / nanargmax / `== nan` as in O4.mortar_parallel_intersection')
    one = lambda xa, xb, g: 1.0 + 0.0 * g
    gap = lambda xa, xb, g: g

    def body(eA, eB, l, fnorm):
        xiA, xiB, g = Mo.compute_intersection(eA, eB, fnorm)
        LA, LB = jnp.linalg.norm(eA[0] - eA[1]), jnp.linalg.norm(eB[0] - eB[1])
        return (Mo.integrate_with_mortar(eA, eB, fnorm, one, l), Mo.integrate_with_mortar(eA, eB, fnorm, gap, l),
                Mo.integrate_with_active_mortar(xiA, xiB, g, LA, LB, one, l), Mo.integrate_with_active_mortar(xiA, xiB, g, LA, LB, gap, l),
                xiA, xiB, g, LA, LB)
    pre = lambda i: [v_lt(0.0, _len2(i['eA'])), v_lt(0.0, _len2(i['eB'])), v_lt(0.0, s0(i['l']))]
    for nname in ('compute_average_normal', 'compute_normal_from_a'):
        fnorm = getattr(Mo, nname)
        fn = lambda eA, eB, l, fnorm=fnorm: body(eA, eB, l, fnorm)
        ex = dict(eA=onp.array(_GEN_CASES[0][0]), eB=onp.array(_GEN_CASES[0][1]), l=_GEN_CASES[0][2])
        cj = jax.make_jaxpr(fn)(*[jnp.asarray(v) for v in ex.values()])
        _validate_nan(h, 'general/' + nname, fn, cj, _GEN_CASES)
        c = Case(h, fn, ex, validate=0, ctx=_nan_ctx(), label='general/' + nname)
        c.prove(nname, lambda i, o: (pre(i), [Eq([s0(o[0]), s0(o[1])], [s0(o[2]), s0(o[3])], name='is_active_integral_of_the_intersection')]), cap=30)

    # structure of the intersection for ANY common normal vector n (covers both normal functions of the repository)
    h.bounds('structural atoms: the common normal is a free vector n in R^2 (10 reals)')
    fn = lambda eA, eB, l, n: body(eA, eB, l, lambda a, b: n)
    gen = [c_ + [[0.3, -0.9]] for c_ in _GEN_CASES] + [_GEN_CASES[0] + [[1.0, 0.2]], _GEN_CASES[3] + [[-0.1, -1.0]]]
    ex = dict(eA=onp.array(gen[0][0]), eB=onp.array(gen[0][1]), l=gen[0][2], n=onp.array(gen[0][3]))
    cj = jax.make_jaxpr(fn)(*[jnp.asarray(v) for v in ex.values()])
    _validate_nan(h, 'general/any_normal', fn, cj, gen)
    c = Case(h, fn, ex, validate=0, ctx=_nan_ctx(), label='general/any_normal')

    def spec(i, o):
        eA, eB, l, n = i['eA'], i['eB'], s0(i['l']), i['n']
        I1, Ig, J1, Jg, xiA, xiB, g, LA, LB = o
        I1, Ig, J1, Jg, LA, LB = [s0(x) for x in (I1, Ig, J1, Jg, LA, LB)]
        unit = lambda x: v_and(v_le(0.0, x), v_le(x, 1.0))
        res_l, res_r = [], []
        for k in range(2):
            pa, pb = _pt(eA, xiA[k]), _pt(eB, xiB[k])
            for d in range(2):
                res_l.append(v_add(v_sub(pa[d], pb[d]), v_mul(g[k], n[d])))
                res_r.append(0.0)
        return pre(i), [
            Eq([I1, Ig], [J1, Jg], name='is_active_integral_of_the_intersection'),
            Eq([v_sq(LA), v_sq(LB)], [_len2(eA), _len2(eB)], name='lengths_are_euclidean'),
            Holds([v_le(0.0, LA), v_le(0.0, LB)], name='lengths_nonnegative'),
            Holds(v_or(v_and(v_le(xiA[0], xiA[1]), unit(xiA[0]), unit(xiA[1]), unit(xiB[0]), unit(xiB[1])),
                       v_and(v_eq(xiA[0], xiA[1]), v_eq(xiB[0], xiB[1]), v_eq(g[0], g[1]))), name='interval_ordered_in_unit_square_or_degenerate'),
        ] + [Eq(res_l[k], 0.0, name='end_point_%d_satisfies_projection_equation[component %d]' % (k // 2, k % 2)) for k in range(4)]
    c.prove('any_normal', spec, cap=60)


@obligation(P, 'O4.mortar_assembly', cap=300)
def o4e(h):
    """MortarContact.assemble_nodal_areas / assemble_area_weighted_gaps on one segment pair of the parallel family (deformed configuration
    X + U on the family, U arbitrary): nodal areas live on the integration segment's nodes only, are >= 0, sum to the overlap length up to
    the hard-coded smoothing 1e-9, and the area-weighted gaps are h times the nodal areas"""
    M = _mods()
    Mo = M['Mortar']
    h.encoded(Mo.assemble_nodal_areas, Mo.assemble_area_weighted_gaps, Mo.assembly_mortar_integral, Mo.integrate_with_mortar, Mo.compute_average_normal)
    _o4_notes(h)
    h.bounds('4 nodes, one integration segment (nodes 2,3 = edge on y=0) with one neighbour segment (nodes 0,1 = edge on y=h); nodal displacements U '
             'arbitrary (8 reals) with reference coordinates X = family - U, so that only X + U matters; smoothing size 1e-9 as hard-coded')
    h.outside('several neighbours / several segments (the per-pair computation is vmapped and summed)')
    _smooth_linear_lemma(h, Mo)
    connsA, connsB, nbrs = jnp.array([[0, 1]]), jnp.array([[2, 3]]), jnp.array([[0]])
    names = ['a0', 'a1', 'b0', 'b1', 'h', 'U', 'l']

    def fn(a0, a1, b0, b1, hh, U, l):
        z = 0.0 * hh
        X = jnp.array([[a0, hh], [a1, hh], [b0, z], [b1, z]]) - U
        return (Mo.assemble_nodal_areas(X, U, connsA, connsB, nbrs, Mo.compute_average_normal),
                Mo.assemble_area_weighted_gaps(X, U, connsA, connsB, nbrs, Mo.compute_average_normal))
    U0 = 0.01 * onp.sin(onp.arange(8.).reshape(4, 2))
    cases = [c_[:5] + [U0 * (k + 1), 1e-9] for k, c_ in enumerate(_PAR_CASES)]
    ex = dict(zip(names, cases[0]))
    cj = jax.make_jaxpr(fn)(*[jnp.asarray(v) for v in ex.values()])
    _validate_nan(h, 'assembly', fn, cj, cases, rtol=1e-7)
    c, lem = _stubbed_case(h, Mo, fn, ex, 'assembly', ctx=_nan_ctx())
    h.assume_note('the (unused) input l of this harness only names the smoothing length 1e-9 in the smooth_linear lemma instances; it is fixed to 1e-9')
    LSM = 1e-9

    def spec(i, o):
        a0, a1, b0, b1, hh = [s0(i[k]) for k in names[:5]]
        ar, gp = o
        lo, hi = v_max(a0, b1), v_min(a1, b0)
        LA, LB = v_sub(a1, a0), v_sub(b0, b1)
        ov = v_max(0.0, v_sub(hi, lo))
        slack = v_mul(0.5 * LSM, v_add(LA, LB))
        sc = v_add(LA, LB)
        tot = v_add(ar[2], ar[3])
        return [v_lt(a0, a1), v_lt(b1, b0), v_eq(s0(i['l']), LSM)], [
            Eq([ar[0], ar[1], gp[0], gp[1]], [0.0] * 4, name='nothing_on_the_neighbour_segment_nodes'),
            Le([0.0, 0.0], [ar[2], ar[3]], name='nodal_areas_nonnegative', scale=sc),
            Le(tot, ov, name='nodal_areas_sum_at_most_overlap_length', scale=sc),
            Le(v_sub(ov, slack), tot, name='nodal_areas_sum_at_least_overlap_minus_smoothing', scale=sc),
            Eq([gp[2], gp[3]], [v_mul(hh, ar[2]), v_mul(hh, ar[3])], name='nodal_gaps_are_h_times_nodal_areas', scale=v_mul(sc, v_add(1.0, v_abs(hh)))),
            # first moment: node 2 carries weight (1 - xi), node 3 weight xi, xi = (b0 - x)/LB on the integration edge; 2-point Gauss is exact for it
            Eq(v_mul(v_sub(ar[2], ar[3]), LB), v_mul(tot, v_sub(LB, v_sub(v_mul(2.0, b0), v_add(hi, lo)))), when=v_le(lo, hi),
               name='left_minus_right_nodal_area_is_the_first_moment', scale=v_sq(sc)),
        ]
    c.prove('pair', spec, cap=60, extra_assumes=lem)



# ============================================================================================ O5 invariance
def _o5_spec_det(i):
    eA, eB, n = i['eA'], i['eB'], i['n']
    detB = v_sub(v_mul(v_sub(eB[0][0], eB[1][0]), n[1]), v_mul(v_sub(eB[0][1], eB[1][1]), n[0]))
    detA = v_sub(v_mul(v_sub(eA[0][0], eA[1][0]), n[1]), v_mul(v_sub(eA[0][1], eA[1][1]), n[0]))
    return detA, detB


def _prove_rewrite(h, c, name, spec, pre, lemma_pairs, goal_pairs, cap=30, keep_side=False):
    """final step of a chain: the lemma equalities (lhs term = rhs term, each proven as its own query) are used as rewrite rules on the goal's
    left-hand sides; the rewritten goal is then given to the solver together with the lemmas (it is usually syntactically trivial)"""
    import z3
    rules = [(sym.toz(a), sym.toz(b)) for a, b in lemma_pairs if not sym.toz(a).eq(sym.toz(b))]
    lem = [a == b for a, b in rules]
    lhs = [z3.substitute(sym.toz(a), *rules) for a, _ in goal_pairs]
    atom = Eq(lhs, [b for _, b in goal_pairs], name=name)
    _, atoms = spec(c.inp, c.out)
    idx = [k for k, a in enumerate(atoms) if a.name == name][0]

    def concrete(vals):
        ci, co = c.conc_inputs(vals), c.real(vals)
        ca, catoms = spec(ci, co)
        return all(bool(x) for x in sym.flat(list(ca))), catoms[idx], dict(outputs=[onp.asarray(l).tolist() for l in jax.tree_util.tree_leaves(co)][:6])
    side = [z3.substitute(f, *rules) for f in c.side(True)] if keep_side else []
    h.prove(name, list(pre) + lem + side, atom, inputs=c.inp, concrete=concrete, cap=cap,
            note='goal rewritten with %d proven lemma equalities; definitions %s' % (len(rules), 'rewritten likewise' if keep_side else 'dropped'))


@obligation(P, 'O5.mortar_translation_invariance', cap=400)
def o5(h):
    """a common translation of both segments leaves compute_intersection and integrate_with_mortar unchanged (general pairs), and leaves both
    common-normal functions unchanged.  Chain: (i) each of xiA, xiB, g and the two lengths is invariant (queries on the full encoding),
    (ii) the integrals of the translated pair, rewritten with (i), are the integrals of the original pair."""
    M = _mods()
    Mo = M['Mortar']
    thorough = h.thorough()
    h.encoded(Mo.integrate_with_mortar, Mo.compute_intersection, Mo.integrate_with_active_mortar, Mo.compute_average_normal, Mo.compute_normal_from_a, Mo.compute_normal)
    h.bounds('edgeA, edgeB in R^(2x2), translation t in R^2, common normal n in R^2 with both projection systems non-singular '
             '(det[tangentA, n] != 0, det[tangentB, n] != 0: stated explicitly, it is what makes the relational solve unique), 0 < l; 13 reals',
             'each lemma query is given only the definitional side conditions it needs (projection solves vs. square roots of the lengths)')
    h.outside('rotation invariance (DESIGNED_NOT_REGISTERED)', 'rounding: translation changes the floating-point results')
    h.assume_note('jnp.linalg.solve encoded relationally; uniqueness follows from the explicit det != 0 hypotheses', 'nan-tracking as in O4')
    one = lambda xa, xb, g: 1.0 + 0.0 * g
    gap = lambda xa, xb, g: g

    def fn(eA, eB, l, n, t):
        fnorm = lambda a, b: n

        def pack(a, b):
            return Mo.compute_intersection(a, b, fnorm) + (jnp.linalg.norm(a[0] - a[1]), jnp.linalg.norm(b[0] - b[1]),
                                                           Mo.integrate_with_mortar(a, b, fnorm, one, l), Mo.integrate_with_mortar(a, b, fnorm, gap, l))
        return pack(eA, eB), pack(eA + t, eB + t)
    gen = [c_ + [[0.3, -0.9], [0.7, -1.3]] for c_ in _GEN_CASES]
    ex = dict(eA=onp.array(gen[0][0]), eB=onp.array(gen[0][1]), l=gen[0][2], n=onp.array(gen[0][3]), t=onp.array(gen[0][4]))
    cj = jax.make_jaxpr(fn)(*[jnp.asarray(v) for v in ex.values()])
    _validate_nan(h, 'translation', fn, cj, gen, rtol=1e-7)
    c = Case(h, fn, ex, validate=0, ctx=_nan_ctx(), label='translation')
    groups = [('xiA_invariant', 0), ('lengths_invariant', (3, 4)), ('xiB_invariant', 1), ('gap_invariant', 2)]

    def grp(r, k):
        return [s0(r[j]) for j in k] if isinstance(k, tuple) else list(r[k])

    def pre_of(i):
        detA, detB = _o5_spec_det(i)
        return [v_lt(0.0, _len2(i['eA'])), v_lt(0.0, _len2(i['eB'])), v_lt(0.0, s0(i['l'])), v_not(v_eq(detA, 0.0)), v_not(v_eq(detB, 0.0))]

    def spec(i, o):
        r0, r1 = o
        return pre_of(i), [Eq(grp(r1, k), grp(r0, k), name=nm) for nm, k in groups] + [Eq([s0(r1[5]), s0(r1[6])], [s0(r0[5]), s0(r0[6])], name='integrals_invariant')]
    _, atoms = spec(c.inp, c.out)
    side = c.side(True)
    is_sqrt = lambda f: any(v.startswith('sqrt!') for v in _vars_of(f))
    # each lemma gets only the definitions it needs (omitting assumptions keeps an unsat verdict sound)
    bases = {True: pre_of(c.inp) + [f for f in side if is_sqrt(f)], False: pre_of(c.inp) + [f for f in side if not is_sqrt(f)]}
    for k, atom in enumerate(atoms[:-1]):
        base = bases[atom.name == 'lengths_invariant']

        def concrete(vals, k=k):
            ci, co = c.conc_inputs(vals), c.real(vals)
            ca, catoms = spec(ci, co)
            return all(bool(x) for x in sym.flat(list(ca))), catoms[k], dict(outputs=[onp.asarray(l).tolist() for l in jax.tree_util.tree_leaves(co)][:6])
        h.prove('any_normal.' + atom.name, base, atom, inputs=c.inp, concrete=concrete, cap=200 if thorough else 60)
    r0, r1 = c.out
    lemma_pairs = [(a, b) for _, k in groups for a, b in zip(grp(r1, k), grp(r0, k))]
    _prove_rewrite(h, c, 'integrals_invariant', spec, pre_of(c.inp), lemma_pairs, [(s0(r1[5]), s0(r0[5])), (s0(r1[6]), s0(r0[6]))])

    # the repository's two common-normal functions depend on edge differences only
    cn = Case(h, lambda e, t: (Mo.compute_normal(e), Mo.compute_normal(e + t)), dict(e=ex['eA'], t=ex['t']),
              sampler=lambda rng: [rng.normal(size=(2, 2)), rng.normal(size=2)], label='compute_normal', rtol=1e-7)
    cn.prove('compute_normal', lambda i, o: ([v_lt(0.0, _len2(i['e']))], [Eq(list(o[1]), list(o[0]), name='normal_invariant')]), cap=40)

    def fn_avg(eA, eB, t):
        return ((Mo.compute_normal(eA), Mo.compute_normal(eB), Mo.compute_average_normal(eA, eB), Mo.compute_normal_from_a(eA, eB)),
                (Mo.compute_normal(eA + t), Mo.compute_normal(eB + t), Mo.compute_average_normal(eA + t, eB + t), Mo.compute_normal_from_a(eA + t, eB + t)))
    ca = Case(h, fn_avg, dict(eA=ex['eA'], eB=ex['eB'], t=ex['t']), sampler=lambda rng: [rng.normal(size=(2, 2)), rng.normal(size=(2, 2)), rng.normal(size=2)],
              label='common_normals', rtol=1e-7)

    def spec_avg(i, o):
        r0, r1 = o
        return [v_lt(0.0, _len2(i['eA'])), v_lt(0.0, _len2(i['eB']))], [
            Eq(list(r1[0]), list(r0[0]), name='nA_invariant'), Eq(list(r1[1]), list(r0[1]), name='nB_invariant'),
            Eq(list(r1[3]), list(r0[3]), name='compute_normal_from_a_invariant'), Eq(list(r1[2]), list(r0[2]), name='compute_average_normal_invariant')]
    pre_a, atoms_a = spec_avg(ca.inp, ca.out)
    base_a = pre_a + ca.side(True)
    for k, atom in enumerate(atoms_a[:-1]):
        def concrete(vals, k=k):
            ci, co = ca.conc_inputs(vals), ca.real(vals)
            cas, catoms = spec_avg(ci, co)
            return all(bool(x) for x in sym.flat(list(cas))), catoms[k], dict(outputs=[onp.asarray(l).tolist() for l in jax.tree_util.tree_leaves(co)][:6])
        h.prove('common_normals.' + atom.name, base_a, atom, inputs=ca.inp, concrete=concrete, cap=40)
    r0, r1 = ca.out
    _prove_rewrite(h, ca, 'compute_average_normal_invariant', spec_avg, pre_a, [(a, b) for k in (0, 1) for a, b in zip(r1[k], r0[k])],
                   list(zip(r1[2], r0[2])), keep_side=True)


@obligation(P, 'O5.mortar_rotation_invariance_partial', cap=400)
def o5r(h):
    """a common rotation (c, s), c^2 + s^2 = 1, of both segments and of the common normal leaves xiA, xiB, the two lengths and therefore the
    mortar integral of 1 unchanged (general pairs).  The gap g and the gap integral are NOT covered (see DESIGNED_NOT_REGISTERED)."""
    M = _mods()
    Mo = M['Mortar']
    h.encoded(Mo.integrate_with_mortar, Mo.compute_intersection, Mo.integrate_with_active_mortar)
    h.bounds('edgeA, edgeB in R^(2x2), rotation (c, s) on the unit circle, common normal n in R^2 rotated along, both projection systems non-singular, 0 < l; 13 reals')
    h.outside('invariance of the gap values g and of the gap integral under rotation (solver: unknown at 120 s, core and nlsat)',
              'equivariance of the repository\'s normal functions under rotation (nested square roots)', 'rounding')
    h.assume_note('jnp.linalg.solve encoded relationally; uniqueness follows from the explicit det != 0 hypotheses', 'nan-tracking as in O4')
    one = lambda xa, xb, g: 1.0 + 0.0 * g

    def fn(eA, eB, l, n, cs):
        R = jnp.array([[cs[0], -cs[1]], [cs[1], cs[0]]])

        def pack(a, b, nn):
            xiA, xiB, g = Mo.compute_intersection(a, b, lambda p, q: nn)
            return xiA, xiB, jnp.linalg.norm(a[0] - a[1]), jnp.linalg.norm(b[0] - b[1]), Mo.integrate_with_mortar(a, b, lambda p, q: nn, one, l)
        return pack(eA, eB, n), pack(eA @ R.T, eB @ R.T, R @ n)
    gen = [c_ + [[0.3, -0.9], [0.6, 0.8]] for c_ in _GEN_CASES] + [_GEN_CASES[4] + [[-0.2, 1.0], [-0.28, 0.96]]]
    names = ['eA', 'eB', 'l', 'n', 'cs']
    ex = dict(zip(names, [onp.array(gen[0][0]), onp.array(gen[0][1]), gen[0][2], onp.array(gen[0][3]), onp.array(gen[0][4])]))
    cj = jax.make_jaxpr(fn)(*[jnp.asarray(v) for v in ex.values()])
    _validate_nan(h, 'rotation', fn, cj, gen, rtol=1e-7)
    c = Case(h, fn, ex, validate=0, ctx=_nan_ctx(), label='rotation')
    groups = [('xiA_invariant', (0,)), ('xiB_invariant', (1,)), ('lengths_invariant', (2, 3))]

    def grp(r, k):
        return [x for j in k for x in (list(r[j]) if getattr(r[j], 'shape', ()) != () else [s0(r[j])])]

    def pre_of(i):
        detA, detB = _o5_spec_det(i)
        cs = i['cs']
        return [v_lt(0.0, _len2(i['eA'])), v_lt(0.0, _len2(i['eB'])), v_lt(0.0, s0(i['l'])), v_not(v_eq(detA, 0.0)), v_not(v_eq(detB, 0.0)),
                v_eq(v_add(v_sq(cs[0]), v_sq(cs[1])), 1.0)]

    def spec(i, o):
        r0, r1 = o
        return pre_of(i), [Eq(grp(r1, k), grp(r0, k), name=nm) for nm, k in groups] + [Eq(s0(r1[4]), s0(r0[4]), name='area_integral_invariant')]
    _, atoms = spec(c.inp, c.out)
    side = c.side(True)
    is_sqrt = lambda f: any(v.startswith('sqrt!') for v in _vars_of(f))
    # each lemma gets only the definitions it needs (omitting assumptions keeps an unsat verdict sound): the xi lemmas do not involve the
    # square roots of the lengths, the length lemma does not involve the projection solves
    bases = {True: pre_of(c.inp) + [f for f in side if is_sqrt(f)], False: pre_of(c.inp) + [f for f in side if not is_sqrt(f)]}
    for k, atom in enumerate(atoms[:-1]):
        base = bases[atom.name == 'lengths_invariant']

        def concrete(vals, k=k):
            # replay inputs: (c, s) is renormalised so that the float pair lies on the unit circle up to rounding
            ci, co = c.conc_inputs(vals), c.real(vals)
            ca, catoms = spec(ci, co)
            ok = all(bool(x) for x in sym.flat(list(ca)[:-1])) and abs(float(ci['cs'][0]) ** 2 + float(ci['cs'][1]) ** 2 - 1.0) < 1e-12
            return ok, catoms[k], dict(outputs=[onp.asarray(l).tolist() for l in jax.tree_util.tree_leaves(co)][:6])
        h.prove('any_normal.' + atom.name, base, atom, inputs=c.inp, concrete=concrete, cap=200 if h.thorough() else 60)
    r0, r1 = c.out
    lemma_pairs = [(a, b) for _, k in groups for a, b in zip(grp(r1, k), grp(r0, k))]
    _prove_rewrite(h, c, 'area_integral_invariant', spec, pre_of(c.inp), lemma_pairs, [(s0(r1[4]), s0(r0[4]))])


DESIGNED_NOT_REGISTERED = [
    ('O5.rotation_invariance_of_gap_and_gap_integral',
     'compute_intersection gap values g (and hence the integral of g) under a common rotation of both segments and the normal: unknown at 120 s '
     '(z3 core, nlsat, solve-eqs+nlsat; also per component at 90 s). xiA, xiB, lengths and the area integral ARE registered.'),
    ('O5.rotation_equivariance_of_compute_average_normal', 'nested square roots (|nA - nB| of two normalised normals) under a symbolic rotation; not attempted beyond the '
     'translation case, where the lemma/rewrite chain discharges'),
    ('O4.mortar_end_to_end_bounds_without_smooth_linear_cut',
     'integrate_with_mortar area bounds on the parallel family with the real smooth_linear inlined: partial-overlap configurations take 14 s or stay unknown at '
     '60 s (erratic); registered instead as a chain: lemma on the real smooth_linear + goals with smooth_linear replaced by any function satisfying the lemma'),
    ('O4.assembly_sum_equals_pair_integral_for_general_pairs',
     'assemble_nodal_areas sum == integrate_with_mortar(1) for arbitrary segment pairs: needs uniqueness reasoning between the vmapped and the un-vmapped '
     'relational 2x2 solves (unknown at 60 s); registered on the parallel family (exact first-moment identity, bounds, support) instead'),
    ('O2.sphere_monolithic', 'penalty energy with Levelset.sphere as one query (4-6 sample square roots + edge Jacobians, 28+ reals): unknown at 60 s; registered as a cut-lemma '
     'chain (radius sign lemma per sample, Jacobian sign lemma per edge, goals with those definitions dropped)'),
    ('O6.smooth_distance_monolithic', 'EdgeCpp.smooth_distance symmetry/bounds as one query over the real cpp, real normals (sqrt) and real smooth min in both edge orders: '
     'unknown at 60 s; registered as a chain (lemma on the real SmoothFunctions.min, structure lemmas with normals and smooth min abstracted, goals on the renamed model)'),
    ('O1.closest_edge_with_real_cpp_distance', 'selection logic of get_closest_distance / get_closest_edge with the real cpp_distance inlined per edge (3 sqrt per edge): '
     '18 s to unknown at 60 s for 3 edges; registered with cpp_distance cut at the function boundary (arbitrary value per edge), its value being O1.cpp_distance'),
]


# ============================================================================================ O6 smoothed two-edge distance (shared with C18)
SAFE_TOL = 1e-14


def _area2(p0, p1, p2):
    """EdgeCpp.area without the factor 1/2 ... kept WITH the factor: 0.5*(p0x(p1y-p2y) + p1x(p2y-p0y) + p2x(p0y-p1y))"""
    return v_mul(0.5, v_add(v_add(v_mul(p0[0], v_sub(p1[1], p2[1])), v_mul(p1[0], v_sub(p2[1], p0[1]))), v_mul(p2[0], v_sub(p0[1], p1[1]))))


def _sfmin_facts(x, y, e, m):
    """what C18-O1 establishes for m = SmoothFunctions.min(x, y, e), for ALL real e: never above min, at most max(e, safeTol)/4 below, exact
    outside the band |x - y| >= e (in particular for e <= 0)"""
    mn = v_min(x, y)
    return [v_le(m, mn), v_le(v_sub(mn, m), v_mul(0.25, v_max(e, SAFE_TOL))), v_implies(v_le(e, v_abs(v_sub(x, y))), v_eq(m, mn))]


def smooth_distance_obligations(h):
    """EdgeCpp.smooth_distance(twoEdges, p, smoothingTol) for two GENERAL edges (8 coordinate reals; edges sharing a corner vertex are the
    special case E0[1] == E1[0] or E1[1] == E0[0]), any point p, smoothingTol > 0:
      (a) symmetric in the two edges;  (b) with s = -sign(a1+a2) (+1 if zero) and pd_i = (p - cpp(E_i, p)) . n_i:  s*result <= min(s pd0, s pd1),
      >= that min - max(tol_eff, safeTol)/4 with tol_eff = |n0 x n1| smoothingTol, equal to it outside the band |s pd0 - s pd1| >= tol_eff;
      the arguments handed to SmoothFunctions.min are exactly (s pd0, s pd1, width) with (c) width >= 0, width = tol_eff (0 if |n0 x n1| <= 1e-14).
    Cut-lemma chain (DESIGN 4): lemma L on the real SmoothFunctions.min (symmetric, bounds, exactness: for all real eps); goals with, at trace time only,
    Surface.compute_normal(edge) replaced by an arbitrary unit vector per edge (hash-consed), SmoothFunctions.min replaced by an arbitrary function
    constrained by the instances of L at the argument triples that occur, and its arguments captured.  Replay runs the un-stubbed code (arguments
    still captured).  Takes only the harness: registered under C16 here and importable for C18."""
    import z3
    M = _mods()
    E, S = M['EdgeCpp'], M['Surface']
    from optimism import SmoothFunctions as SF
    h.encoded(E.smooth_distance, E.cpp, E.area, E.cross, E.dot, SF.min, SF.min_base, S.compute_normal)
    h.bounds('two general non-degenerate edges E0, E1 (8 reals), point p in R^2, smoothingTol > 0: 11 reals (+ 4 for the two abstracted unit normals); both edge orders')
    h.outside('degenerate edges', 'rounding', 'the selection of the two edges by Contact.get_closest_two_edges (by (a) their order is immaterial)')
    h.assume_note('cut: Surface.compute_normal(edge) is replaced at trace time by an arbitrary vector n(edge) with n.n = 1 (one per edge, shared by both edge orders); '
                  'the true normal is such a vector', 'cut: SmoothFunctions.min is replaced at trace time by an arbitrary function constrained by the instances of '
                  'the lemma proven in the same obligation on the real SmoothFunctions.min (lemma_smooth_min.*); replay uses the real functions',
                  'symbolic denominators |b-a|^2 are assumed non-zero (non-degenerate edges)')

    # ---- lemma L on the real SmoothFunctions.min, all real x, y, eps
    cl = Case(h, lambda x, y, e: (SF.min(x, y, e), SF.min(y, x, e)), dict(x=0.3, y=0.1, e=0.5),
              sampler=lambda rng: [rng.normal(), rng.normal(), rng.normal() * (1e-14 if rng.uniform() < 0.3 else 1.0)], label='smooth_min')

    def spec_l(i, o):
        x, y, e = s0(i['x']), s0(i['y']), s0(i['e'])
        f = _sfmin_facts(x, y, e, s0(o[0]))
        return [], [Eq(s0(o[0]), s0(o[1]), name='symmetric'), Holds(f[0], name='never_exceeds_min'), Holds(f[1], name='at_most_quarter_width_below_min'),
                    Holds(f[2], name='exact_outside_band')]
    cl.prove('lemma_smooth_min', spec_l, cap=60)

    # ---- structure lemmas on the code (normals abstracted, SmoothFunctions.min abstracted and its arguments/result captured)
    stub = [True]
    real_normal, real_min = S.compute_normal, SF.min

    def fn(E0, E1, p, tol):
        caps = []

        def min_wrap(x, y, eps):
            m = jx.havoc(jnp.stack([x, y, eps]), 'sfmin')[0] if stub[0] else real_min(x, y, eps)
            caps.append((x, y, eps, m))
            return m
        SF.min = min_wrap
        if stub[0]:
            S.compute_normal = lambda edge: jx.havoc(edge, 'nrm')[0]
        try:
            r01 = E.smooth_distance(jnp.stack([E0, E1]), p, tol)
            r10 = E.smooth_distance(jnp.stack([E1, E0]), p, tol)
            n0, n1 = S.compute_normal(E0), S.compute_normal(E1)
            pd0, pd1 = E.dot(p - E.cpp(E0, p)[0], n0), E.dot(p - E.cpp(E1, p)[0], n1)
        finally:
            S.compute_normal, SF.min = real_normal, real_min
        assert len(caps) == 2
        return r01, r10, caps[0], caps[1], pd0, pd1, n0, n1
    ex = dict(E0=onp.array([[0.0, 0.0], [1.0, 1.0]]), E1=onp.array([[1.0, 1.0], [2.0, 0.5]]), p=onp.array([1.1, 1.2]), tol=0.2)

    def smp(rng):
        a, b, c_ = rng.normal(size=2), rng.normal(size=2), rng.normal(size=2)
        if rng.uniform() < 0.5:
            return [onp.array([a, b]), onp.array([b, c_]), b + 0.3 * rng.normal(size=2), rng.uniform(0.01, 1.0)]
        return [onp.array([a, b]), onp.array([c_, rng.normal(size=2)]), rng.normal(size=2), rng.uniform(0.01, 1.0)]
    stub[0] = False
    jx.validate(fn, [onp.asarray(ex[k], dtype=float) for k in ex], n=4, seed=h.seed, sampler=lambda rng: [onp.asarray(v, dtype=float) for v in smp(rng)])
    h.fact('translator_validation[smooth_distance]', True, 'ground runs of the un-stubbed function (both edge orders, captured arguments) through JX agree with the real function', nontrivial=False)
    stub[0] = True
    c = Case(h, fn, ex, validate=0, label='smooth_distance', jit=False)
    stub[0] = False
    assert len(c.ctx.havocs['sfmin']) == 2 and len(c.ctx.havocs['nrm']) == 2

    def model(sgn, P0, P1, n0, n1, tol, cross_teff=None):
        """the abstract model of smooth_distance: oriented distances, tol_eff = |n0 x n1| tol, width"""
        x, y = v_mul(sgn, P0), v_mul(sgn, P1)
        if cross_teff is None:
            crossN = v_abs(v_sub(v_mul(n0[0], n1[1]), v_mul(n0[1], n1[0])))
            teff = v_mul(crossN, tol)
        else:
            crossN, teff = cross_teff
        return x, y, teff, v_if(v_lt(SAFE_TOL, crossN), teff, 0.0)

    def structure(sgn, P0, P1, n0, n1, tol, r01, r10, c01, c10, when=True, tag=''):
        x, y, teff, width = model(sgn, P0, P1, n0, n1, tol)
        sc = v_add(1.0, v_add(v_abs(P0), v_abs(P1)))
        at = []
        for o_, r, cp, xx, yy in (('[E0,E1]', r01, c01, x, y), ('[E1,E0]', r10, c10, y, x)):
            at += [Eq([s0(cp[0]), s0(cp[1])], [xx, yy], when=when, name='b.%s.smooth_min_gets_the_oriented_projected_distances%s' % (o_, tag), scale=sc),
                   Eq(r, v_mul(sgn, s0(cp[3])), when=when, name='b.%s.result_is_orientation_times_smooth_min%s' % (o_, tag), scale=sc)]
        return at

    def width_atoms(n0, n1, tol, c01, c10):
        _, _, _, width = model(1.0, 0.0, 0.0, n0, n1, tol)
        return [Eq(s0(cp[2]), width, name='b.%s.width_is_abs_cross_of_normals_times_tol' % o_, scale=tol) for o_, cp in (('[E0,E1]', c01), ('[E1,E0]', c10))] + \
               [Holds([v_le(0.0, s0(c01[2])), v_le(0.0, s0(c10[2]))], name='c.width_handed_to_smooth_min_is_nonnegative')]

    def claims(sgn, P0, P1, n0, n1, tol, m01, m10, cross_teff=None):
        """final goals, stated on the model: result_ij = sgn * m_ij"""
        x, y, teff, width = model(sgn, P0, P1, n0, n1, tol, cross_teff)
        mn = v_min(x, y)
        sc = v_add(1.0, v_add(v_abs(P0), v_abs(P1)))
        at = [Eq(v_mul(sgn, m01), v_mul(sgn, m10), name='a.symmetric_in_the_two_edges', scale=sc)]
        for o_, m in (('[E0,E1]', m01), ('[E1,E0]', m10)):
            sr = v_mul(sgn, v_mul(sgn, m))
            at += [Le(sr, mn, name='b.%s.never_exceeds_oriented_min' % o_, scale=sc),
                   Le(v_sub(mn, v_mul(0.25, v_max(teff, SAFE_TOL))), sr, name='b.%s.at_most_quarter_width_below' % o_, scale=sc),
                   Eq(sr, mn, when=v_le(teff, v_abs(v_sub(x, y))), name='b.%s.exact_outside_band' % o_, scale=sc)]
        return at

    def orient(E0, E1):
        return v_add(_area2(E0[0], E0[1], E1[0]), _area2(E1[0], E1[1], E0[0]))

    def spec(i, o):
        E0, E1, p, tol = i['E0'], i['E1'], i['p'], s0(i['tol'])
        r01, r10, c01, c10, pd0, pd1, n0, n1 = o
        r01, r10, pd0, pd1 = s0(r01), s0(r10), s0(pd0), s0(pd1)
        asum = orient(E0, E1)
        at = []
        # the orientation factor is constant on each of the three sign cases of a1 + a2 (case split keeps the lemma queries cheap)
        for tag, cond, sg in (('[a1+a2>0]', v_lt(0.0, asum), -1.0), ('[a1+a2<0]', v_lt(asum, 0.0), 1.0), ('[a1+a2=0]', v_eq(asum, 0.0), 1.0)):
            at += structure(sg, pd0, pd1, n0, n1, tol, r01, r10, c01, c10, when=cond, tag=tag)
        at += width_atoms(n0, n1, tol, c01, c10)
        n_struct = len(at)
        sgn = v_if(v_lt(0.0, asum), -1.0, 1.0)
        # on the real code the model's m_ij are the captured results of SmoothFunctions.min and result_ij = sgn * m_ij is checked as r_ij directly
        fin = claims(sgn, pd0, pd1, n0, n1, tol, v_mul(sgn, r01), v_mul(sgn, r10))
        return [v_lt(0.0, _len2(E0)), v_lt(0.0, _len2(E1)), v_lt(0.0, tol)], at + fin, n_struct
    pre, atoms, n_struct = spec(c.inp, c.out)

    def conc(k):
        def concrete(vals):
            ci, co = c.conc_inputs(vals), c.real(vals)
            ca, catoms, _ = spec(ci, co)
            return all(bool(x) for x in sym.flat(list(ca))), catoms[k], dict(outputs=[onp.asarray(l).tolist() for l in jax.tree_util.tree_leaves(co)][:8])
        return concrete
    base = list(pre) + c.side(True)
    for k in range(n_struct):
        h.prove('smooth_distance.' + atoms[k].name, base, atoms[k], inputs=c.inp, concrete=conc(k), cap=20 if h.thorough() else 5, order=('nlsat', 'core'),
                note='structure lemma, proven on the encoding of the code (normals and smooth min abstracted)')

    # ---- goals on the abstracted model: a1+a2, pd0, pd1, |n0 x n1|, tol_eff and the two smooth-min results renamed to free reals; the structure lemmas above
    # are what ties the code to this model, lemma_smooth_min.* what ties the real SmoothFunctions.min to the facts assumed for m01, m10
    A, P0, P1, m01, m10, CR, TE = [z3.Real('abs!' + nm) for nm in ('a1_plus_a2', 'pd0', 'pd1', 'm01', 'm10', 'abs_cross_n0_n1', 'tol_eff')]
    sgn = v_if(v_lt(0.0, A), -1.0, 1.0)
    x, y, teff, width = model(sgn, P0, P1, None, None, None, (CR, TE))
    assume = [CR >= 0, TE >= 0]          # |n0 x n1| >= 0 and tol_eff = |n0 x n1| * smoothingTol >= 0 (smoothingTol > 0); nothing else about them is used
    assume += [sym.tob(t) for t in _sfmin_facts(x, y, width, m01)] + [sym.tob(t) for t in _sfmin_facts(y, x, width, m10)] + [m01 == m10]   # L at (x,y,w), (y,x,w); symmetry
    fin = claims(sgn, P0, P1, None, None, None, m01, m10, (CR, TE))
    assert len(fin) == len(atoms) - n_struct
    for k, atom in enumerate(fin):
        h.prove('smooth_distance.' + atom.name, assume, atom, inputs=c.inp, concrete=conc(n_struct + k), cap=60,
                note='goal on the abstracted model (chain: structure lemmas + lemma_smooth_min); a countermodel cannot be replayed directly and is reported inconclusive')


@obligation(P, 'O6.smooth_distance', cap=400)
def o6(h):
    """EdgeCpp.smooth_distance: symmetric in its two edges, one-sided quarter-width approximation of the oriented min of the two projected distances,
    non-negative smoothing width (see smooth_distance_obligations; the same function is registered under C18)"""
    smooth_distance_obligations(h)
