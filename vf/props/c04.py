"""C04 — augmented-Lagrangian solve returns a KKT point with non-negative multipliers (JX + PX).

O1  Fischer-Burmeister residual small => feasibility / sign / complementarity to tolerance (jaxpr of the real functions)
O2  AlSolver.solve_sub_step: multiplier update >= 0, penalty never decreases, penalty changes only on solver success (PX)
O3  augmented-Lagrangian penalty: gradient identity (updated multiplier), C1 switch, gradient-Lipschitz (jaxpr + jax.grad)
O4  augmented_lagrange_solve: one outer iteration from an arbitrary state (loop-body extraction, PX)
O5  BoundConstrainedObjective / bound_constrained_solve front end (JX + PX driver)
O6  bounded convex: n=1, one bound, quadratic objective, real outer loop, real objective jaxprs inside PX
"""
import ast
import math
import types
import numpy as onp
import z3

from ..core import obligation
from .. import px, sym
from ..px import SymReal, SymBool, is_sym, NP
from ..sym import Le, Lt, Eq, Holds, v_min, v_max, v_abs, v_lt, v_le, v_eq, v_and, v_or, v_not, v_sub, v_add, v_mul, v_sq, v_dot, v_sum, flat

P = 'C04'
REL_AL = 'optimism/AlSolver.py'
REL_BCS = 'optimism/BoundConstrainedSolver.py'


def s0(a):
    return a[()] if hasattr(a, 'shape') and a.shape == () else a


def _co():
    from optimism import ConstrainedObjective as CO
    return CO


# =========================================================================================== O1: FB => KKT (JX)
@obligation(P, 'O1.fb_scalar', cap=300)
def o1_scalar(h):
    """fischer_burmeister(c, l, k) for all reals c, l and k > 0: |fb| <= t => c*k >= -t, l >= -t, min(c*k, l) <= 2t (and the
    sharper rational constant 171/100 > 1 + sqrt(2)/2); fb = 0 iff c >= 0, l >= 0, c*l = 0; fb > 0 iff min(c*k, l) < 0;
    exact product identity 2(ck)l + fb^2 + 2 fb (ck + l) = 0"""
    from ..jxh import Case
    CO = _co()
    h.encoded(CO.fischer_burmeister)
    h.bounds('c, l: all reals; k: all reals > 0; t: all reals >= 0')
    h.outside('IEEE rounding of sqrt(ck^2 + l^2) - ck - l (cancellation when ck, l >> t)')
    ex = dict(c=0.3, l=0.2, k=1.5, t=0.1)
    smp = lambda rng: [rng.normal(), rng.normal(), abs(rng.normal()) + 0.1, abs(rng.normal())]
    c = Case(h, lambda c, l, k, t: CO.fischer_burmeister(c, l, k), ex, sampler=smp, label='fb')

    def spec(i, o):
        cc, l, k, t, fb = s0(i['c']), s0(i['l']), s0(i['k']), s0(i['t']), s0(o)
        a = v_mul(cc, k)
        mn = v_min(a, l)
        small = v_le(v_abs(fb), t)
        compl = v_and(v_le(0.0, cc), v_le(0.0, l), v_eq(v_mul(cc, l), 0.0))
        return [v_lt(0.0, k), v_le(0.0, t)], [
            Le(v_sub(0.0, t), a, when=small, name='small_fb_implies_ck_ge_minus_t', scale=t),
            Le(v_sub(0.0, t), l, when=small, name='small_fb_implies_l_ge_minus_t', scale=t),
            Le(mn, v_mul(2.0, t), when=small, name='small_fb_implies_min_ck_l_le_2t', scale=t),
            Le(v_mul(100.0, mn), v_mul(171.0, t), when=small, name='small_fb_implies_min_ck_l_le_171_100_t', scale=t),
            Holds(compl, when=v_eq(fb, 0.0), name='zero_implies_complementary'),
            Eq(fb, 0.0, when=compl, name='complementary_implies_zero'),
            Lt(0.0, fb, when=v_lt(mn, 0.0), name='infeasible_or_negative_multiplier_implies_positive', scale=0.0),
            Le(fb, 0.0, when=v_le(0.0, mn), name='feasible_and_nonneg_multiplier_implies_nonpositive'),
            Eq(v_sum([v_mul(2.0, v_mul(a, l)), v_sq(fb), v_mul(2.0, v_mul(fb, v_add(a, l)))]), 0.0, name='product_identity'),
        ]
    c.prove('fb', spec, order=('nlsat', 'core'), denoms=False)


def _instance(CO, affine=False):
    """2 variables, 2 inequality constraints (one affine, one non-linear), general quadratic + cubic objective; all
    coefficients are traced parameters"""
    import jax.numpy as jnp

    def obj(x, p):
        return 0.5 * (p[0] * x[0] * x[0] + p[1] * x[1] * x[1]) + p[2] * x[0] * x[1] + p[3] * x[0] + p[4] * x[1] + p[5] * x[0] * x[0] * x[0]

    def con(x, p):
        return jnp.array([x[0] - p[6], p[7] - x[0] * x[1]])

    def con_affine(x, p):
        return jnp.array([x[0] - p[6], p[7] - x[0] - p[5] * x[1]])

    def obj_quadratic(x, p):
        return 0.5 * (p[0] * x[0] * x[0] + p[1] * x[1] * x[1]) + p[2] * x[0] * x[1] + p[3] * x[0] + p[4] * x[1]
    if affine:
        return obj_quadratic, con_affine
    return obj, con


def _example_inst():
    return dict(x=onp.array([0.3, -0.2]), p=onp.array([1.0, 2.0, 0.3, -0.4, 0.5, 0.2, 0.1, 0.7]), lam=onp.array([0.2, 0.0]), kappa=onp.array([1.0, 2.5]))


def _smp_inst(rng):
    return [rng.normal(size=2), rng.normal(size=8), onp.abs(rng.normal(size=2)), onp.abs(rng.normal(size=2)) + 0.2]


@obligation(P, 'O1.total_residual_instance', cap=600)
def o1_instance(h):
    """the real ConstrainedObjective on a 2-variable / 2-constraint instance (built inside the trace so that p, lam, kappa are
    symbolic): total_residual = [gradient ; ncp]; |total_residual|^2 < tol^2 implies for every constraint c_i*k_i > -tol,
    lam_i > -tol, min(c_i k_i, lam_i) < 2 tol and |gradient_j| < tol"""
    from ..jxh import Case
    import jax.numpy as jnp
    CO = _co()
    h.encoded(CO.fischer_burmeister, CO.ConstrainedObjective.__init__, CO.ConstrainedObjective.create_augmented_lagrangian,
              CO.ConstrainedObjective.total_residual, CO.ConstrainedObjective.constrained_residual, CO.ConstrainedObjective.gradient,
              CO.ConstrainedObjective.ncp, CO.ConstrainedObjective.constraint)
    h.bounds('n=2 unknowns, m=2 constraints (x0 - p6 >= 0 and p7 - x0*x1 >= 0), objective: general quadratic + cubic term, 8 symbolic coefficients; '
             'x, lam: all reals; kappa > 0; tol > 0: all reals')
    h.assume_note('the instance (objective/constraint callables) is the harness\'s; every method evaluated is the real ConstrainedObjective\'s',
                  'norm(r) < tol is stated as r.r < tol^2 with tol > 0 (the square root is taken by AlSolver.norm, see O4)')
    obj, con = _instance(CO, affine=True)

    def F(x, p, lam, kappa, tol):
        o = CO.ConstrainedObjective(obj, con, x, p, lam, kappa)
        return o.total_residual(x), o.gradient(x), o.ncp(x), o.constraint(x)
    ex = _example_inst()
    ex['tol'] = 0.1
    c = Case(h, F, ex, sampler=lambda rng: _smp_inst(rng) + [abs(rng.normal()) + 0.01], label='total_residual')

    def spec_layout(i, o):
        r, g, ncp, cc = o
        return [], [Eq(r[:2], g, name='first_block_is_AL_gradient'), Eq(r[2:], ncp, name='second_block_is_ncp')]
    c.prove('layout', spec_layout, denoms=False)

    G = [c.ctx.fresh('G%d' % j) for j in range(2)]

    def spec(i, o, G=G):
        # cut: the (cubic, piecewise) gradient entries are named G_j = r_j so that the norm argument is made on the names
        r, g, ncp, cc = o
        lam, kap, tol = i['lam'], i['kappa'], s0(i['tol'])
        if sym.isz(tol):
            Gs, defs = G, [v_eq(G[j], r[j]) for j in range(2)]
        else:
            Gs, defs = [float(r[j]) for j in range(2)], []
        small = v_lt(v_add(v_dot(Gs, Gs), v_dot(r[2:], r[2:])), v_sq(tol))
        asm = [v_lt(0.0, tol), v_lt(0.0, kap[0]), v_lt(0.0, kap[1]), small] + defs
        ats = []
        for j in range(2):
            ats.append(Lt(v_abs(Gs[j]), tol, name='gradient_%d_below_tol' % j, scale=tol))
        for k in range(2):
            a = v_mul(cc[k], kap[k])
            ats.append(Lt(v_sub(0.0, tol), a, name='constraint_%d_times_kappa_above_minus_tol' % k, scale=tol))
            ats.append(Lt(v_sub(0.0, tol), lam[k], name='multiplier_%d_above_minus_tol' % k, scale=tol))
            ats.append(Lt(v_min(a, lam[k]), v_mul(2.0, tol), name='complementarity_%d_min_below_2tol' % k, scale=tol))
        return asm, ats
    c.prove('kkt', spec, cap=120, order=('nlsat', 'core'), denoms=False)


# =========================================================================================== O3: AL penalty (JX)
def _penalty_fns(CO, quasi):
    import jax
    import jax.numpy as jnp
    if quasi:
        f = CO.ConstrainedQuasiObjective.create_augmented_lagrangian(None, lambda x, l, p: 0.0, lambda x, p: x)
    else:
        f = CO.ConstrainedObjective.create_augmented_lagrangian(None, lambda x, p: 0.0, lambda x, p: x)

    def pen(c, l, k):
        return f(jnp.array([c]), None, jnp.array([l]), jnp.array([k]))
    dc = jax.grad(pen, 0)
    dl = jax.grad(pen, 1)
    return pen, dc, dl


def _o3_scalar(h, quasi):
    from ..jxh import Case
    CO = _co()
    tag = 'quasi' if quasi else 'std'
    pen, dc, dl = _penalty_fns(CO, quasi)
    smp = lambda rng: [rng.normal(), rng.normal(), abs(rng.normal()) + 0.1]
    c = Case(h, lambda c, l, k: (pen(c, l, k), dc(c, l, k), dl(c, l, k)), dict(c=0.3, l=0.2, k=1.5), sampler=smp, label='penalty_' + tag)

    def spec(i, o):
        cc, l, k = s0(i['c']), s0(i['l']), s0(i['k'])
        pv, gc, gl = s0(o[0]), s0(o[1]), s0(o[2])
        mu = v_max(v_sub(l, v_mul(k, cc)), 0.0)
        return [v_lt(0.0, k)], [
            Eq(gc, v_sub(0.0, mu), name='dpenalty_dc_is_minus_updated_multiplier'),
            Eq(v_mul(k, gl), v_sub(0.0, v_min(v_mul(k, cc), l)), name='k_dpenalty_dl_is_minus_min_kc_l'),
            Eq(v_sub(0.0, gc), v_add(l, v_mul(k, gl)), name='updated_multiplier_is_ascent_step_l_plus_k_dl'),
            Eq(v_mul(v_mul(2.0, k), pv), v_sub(v_sq(mu), v_sq(l)), name='value_is_(mu^2-l^2)/2k'),
            Le(gc, 0.0, name='dpenalty_dc_nonpositive'),
        ]
    c.prove(tag, spec, order=('core', 'nlsat'))
    # two-point statements: C1 across the switch l = k c without naming it
    smp2 = lambda rng: [rng.normal(), rng.normal(), rng.normal(), rng.normal(), abs(rng.normal()) + 0.1]
    c2 = Case(h, lambda c1, c2, l1, l2, k: (dc(c1, l1, k), dc(c2, l2, k), pen(c1, l1, k), pen(c2, l1, k), pen(c1, l2, k), dl(c1, l1, k), dl(c2, l2, k)),
              dict(c1=0.3, c2=-0.1, l1=0.2, l2=0.4, k=1.5), sampler=smp2, label='penalty2_' + tag)

    def spec2(i, o):
        c1, c2_, l1, l2, k = [s0(i[n]) for n in ('c1', 'c2', 'l1', 'l2', 'k')]
        g1, g2, p11, p21, p12, h1, h2 = [s0(x) for x in o]
        dcc, dll = v_abs(v_sub(c1, c2_)), v_abs(v_sub(l1, l2))
        return [v_lt(0.0, k)], [
            Le(v_abs(v_sub(g1, g2)), v_add(v_mul(k, dcc), dll), name='dpenalty_dc_lipschitz_k_in_c_and_1_in_l', scale=k),
            Le(v_mul(k, v_abs(v_sub(h1, h2))), v_add(v_mul(k, dcc), dll), name='dpenalty_dl_lipschitz_1_in_c_and_1/k_in_l', scale=k),
            Le(v_add(p11, v_mul(g1, v_sub(c2_, c1))), p21, name='convex_in_c_(first_order)', scale=k),
            Le(p12, v_add(p11, v_mul(h1, v_sub(l2, l1))), name='concave_in_l_(first_order)', scale=k),
            Le(v_abs(v_sub(p11, p21)), v_mul(v_add(v_abs(g1), v_add(v_mul(k, dcc), 0.0)), dcc), name='value_continuous_in_c_(local_lipschitz)', scale=k),
        ]
    c2.prove(tag + '_two_point', spec2, cap=120, order=('core', 'nlsat'))


@obligation(P, 'O3.penalty_scalar', cap=400)
def o3_std(h):
    """penalty term of ConstrainedObjective.create_augmented_lagrangian and its jax.grad: d/dc = -max(l - k c, 0) (the updated
    multiplier), k d/dl = -min(k c, l), value = (max(l-kc,0)^2 - l^2)/(2k); gradient Lipschitz and value continuous across
    the switch l = k c; convex in c, concave in l"""
    CO = _co()
    h.encoded(CO.ConstrainedObjective.create_augmented_lagrangian)
    h.bounds('one constraint value c, multiplier l: all reals; k > 0: all reals; two-point statements over all pairs (c1,l1), (c2,l2)')
    h.assume_note('the penalty is isolated by passing objective_func = 0 and constraint_func = identity to the real create_augmented_lagrangian')
    _o3_scalar(h, False)


@obligation(P, 'O3.penalty_scalar_quasi', cap=400)
def o3_quasi(h):
    """same for ConstrainedQuasiObjective.create_augmented_lagrangian (strict inequality l > k c in the switch)"""
    CO = _co()
    h.encoded(CO.ConstrainedQuasiObjective.create_augmented_lagrangian)
    h.bounds('one constraint value c, multiplier l: all reals; k > 0: all reals')
    h.assume_note('the penalty is isolated by passing objective_func = 0 and constraint_func = identity to the real create_augmented_lagrangian')
    _o3_scalar(h, True)


@obligation(P, 'O3.subproblem_gradient_instance', cap=600)
def o3_instance(h):
    """2-variable / 2-constraint instance: gradient() of the real ConstrainedObjective = grad f(x) - J_c(x)^T mu with
    mu = max(lam - kappa c(x), 0) — the Lagrangian gradient at the UPDATED multiplier that solve_sub_step installs"""
    from ..jxh import Case
    import jax
    import jax.numpy as jnp
    CO = _co()
    h.encoded(CO.ConstrainedObjective.__init__, CO.ConstrainedObjective.create_augmented_lagrangian, CO.ConstrainedObjective.gradient)
    h.bounds('n=2, m=2 (one affine, one bilinear constraint), general quadratic + cubic objective with 8 symbolic coefficients; x, lam all reals; kappa > 0')
    h.assume_note('oracle: jax.grad of the plain Lagrangian f - mu.c of the same instance with mu an independent input, equated under mu = max(lam - kappa c, 0)')
    obj, con = _instance(CO)

    def F(x, p, lam, kappa, mu):
        o = CO.ConstrainedObjective(obj, con, x, p, lam, kappa)
        lag = jax.grad(lambda z: obj(z, p) - jnp.dot(mu, con(z, p)))(x)
        return o.gradient(x), lag, o.constraint(x), o.gradient_l(x)
    ex = _example_inst()
    ex['mu'] = onp.array([0.1, 0.3])
    c = Case(h, F, ex, sampler=lambda rng: _smp_inst(rng) + [onp.abs(rng.normal(size=2))], label='al_gradient')

    def spec(i, o):
        g, lag, cc, gl = o
        lam, kap, mu = i['lam'], i['kappa'], i['mu']
        asm = [v_lt(0.0, kap[0]), v_lt(0.0, kap[1])]
        for k in range(2):
            asm.append(v_eq(mu[k], v_max(v_sub(lam[k], v_mul(kap[k], cc[k])), 0.0)))
        return asm, [Eq(g, lag, name='AL_gradient_is_lagrangian_gradient_at_updated_multiplier'),
                     Eq([v_add(lam[k], v_mul(kap[k], gl[k])) for k in range(2)], [mu[k] for k in range(2)], name='updated_multiplier_is_lam_plus_kappa_gradient_l')]
    c.prove('instance', spec, cap=120)


@obligation(P, 'O3.kkt_with_returned_multipliers', cap=300)
def o3_link(h):
    """link between the termination test and KKT in terms of the RETURNED multipliers: the first block of total_residual is the
    Lagrangian gradient at mu = max(l - k c, 0) (current penalty k) while the FB block uses the penalty k0 baked at
    construction (constraintKappa); for l >= 0, k >= k0 > 0: |fb(c,l,k0)| <= t implies |mu - l| <= 2 t k/k0"""
    from ..jxh import Case
    CO = _co()
    pen, dc, dl = _penalty_fns(CO, False)
    h.encoded(CO.fischer_burmeister, CO.ConstrainedObjective.create_augmented_lagrangian)
    h.bounds('c: all reals; l >= 0; k >= k0 > 0; t >= 0: all reals')
    h.outside('the factor k/k0 (penalty growth since construction / reset_kappa) is part of the constant: the Lagrangian gradient with the returned '
              'multipliers is within tol*(1 + 2 (k/k0) |grad c|) per constraint, not within tol')
    smp = lambda rng: [rng.normal(), abs(rng.normal()), abs(rng.normal()) + 1.0, 0.5, abs(rng.normal())]
    c = Case(h, lambda c, l, k, k0, t: (CO.fischer_burmeister(c, l, k0), dc(c, l, k)), dict(c=0.3, l=0.2, k=1.5, k0=0.5, t=0.1), sampler=smp, label='fb_and_dpenalty')

    def spec(i, o):
        cc, l, k, k0, t = [s0(i[n]) for n in ('c', 'l', 'k', 'k0', 't')]
        fb, gc = s0(o[0]), s0(o[1])
        mu = v_sub(0.0, gc)
        return [v_lt(0.0, k0), v_le(k0, k), v_le(0.0, l), v_le(0.0, t), v_le(v_abs(fb), t)], [
            Le(v_mul(k0, v_abs(v_sub(mu, l))), v_mul(2.0, v_mul(t, k)), name='updated_minus_returned_multiplier_le_2t_k_over_k0', scale=t),
            Le(0.0, mu, name='sub_problem_multiplier_nonneg'),
        ]
    c.prove('link', spec, order=('nlsat', 'core'), denoms=False)
