"""C04 — augmented-Lagrangian solve returns a KKT point with non-negative multipliers (JX + PX).

O1  Fischer-Burmeister residual small => feasibility / sign / complementarity to tolerance (jaxpr of the real functions)
O2  AlSolver.solve_sub_step: multiplier update >= 0, penalty never decreases, penalty changes only on solver success (PX)
O3  augmented-Lagrangian penalty: gradient identity (updated multiplier), C1 switch, gradient-Lipschitz (jaxpr + jax.grad)
O4  augmented_lagrange_solve: one outer iteration from an arbitrary state (loop-body extraction, PX)
O5  BoundConstrainedObjective / bound_constrained_solve front end (JX + PX driver)
O6  bounded convex: n=1, one bound, quadratic objective, real outer loop, real objective jaxprs inside PX
"""
import ast
import math
import types
import numpy as onp
import z3

from ..core import obligation
from .. import px, sym
from ..px import SymReal, SymBool, is_sym, NP
from ..sym import Le, Lt, Eq, Holds, v_min, v_max, v_abs, v_lt, v_le, v_eq, v_and, v_or, v_not, v_sub, v_add, v_mul, v_sq, v_dot, v_sum, flat

P = 'C04'
REL_AL = 'optimism/AlSolver.py'
REL_BCS = 'optimism/BoundConstrainedSolver.py'


def s0(a):
    return a[()] if hasattr(a, 'shape') and a.shape == () else a


def _co():
    from optimism import ConstrainedObjective as CO
    return CO


# =========================================================================================== O1: FB => KKT (JX)
@obligation(P, 'O1.fb_scalar', cap=300)
def o1_scalar(h):
    """fischer_burmeister(c, l, k) for all reals c, l and k > 0: |fb| <= t => c*k >= -t, l >= -t, min(c*k, l) <= 2t (and the
    sharper rational constant 171/100 > 1 + sqrt(2)/2); fb = 0 iff c >= 0, l >= 0, c*l = 0; fb > 0 iff min(c*k, l) < 0;
    exact product identity 2(ck)l + fb^2 + 2 fb (ck + l) = 0"""
    from ..jxh import Case
    CO = _co()
    h.encoded(CO.fischer_burmeister)
    h.assume_note('none (no stub; the square root is encoded by its defining relation s >= 0, s^2 = radicand)')
    h.bounds('c, l: all reals; k: all reals > 0; t: all reals >= 0')
    h.outside('IEEE rounding of sqrt(ck^2 + l^2) - ck - l (cancellation when ck, l >> t)')
    ex = dict(c=0.3, l=0.2, k=1.5, t=0.1)
    smp = lambda rng: [rng.normal(), rng.normal(), abs(rng.normal()) + 0.1, abs(rng.normal())]
    c = Case(h, lambda c, l, k, t: CO.fischer_burmeister(c, l, k), ex, sampler=smp, label='fb')

    def spec(i, o):
        cc, l, k, t, fb = s0(i['c']), s0(i['l']), s0(i['k']), s0(i['t']), s0(o)
        a = v_mul(cc, k)
        mn = v_min(a, l)
        small = v_le(v_abs(fb), t)
        compl = v_and(v_le(0.0, cc), v_le(0.0, l), v_eq(v_mul(cc, l), 0.0))
        return [v_lt(0.0, k), v_le(0.0, t)], [
            Le(v_sub(0.0, t), a, when=small, name='small_fb_implies_ck_ge_minus_t', scale=t),
            Le(v_sub(0.0, t), l, when=small, name='small_fb_implies_l_ge_minus_t', scale=t),
            Le(mn, v_mul(2.0, t), when=small, name='small_fb_implies_min_ck_l_le_2t', scale=t),
            Le(v_mul(100.0, mn), v_mul(171.0, t), when=small, name='small_fb_implies_min_ck_l_le_171_100_t', scale=t),
            Holds(compl, when=v_eq(fb, 0.0), name='zero_implies_complementary'),
            Eq(fb, 0.0, when=compl, name='complementary_implies_zero'),
            Lt(0.0, fb, when=v_lt(mn, 0.0), name='infeasible_or_negative_multiplier_implies_positive', scale=0.0),
            Le(fb, 0.0, when=v_le(0.0, mn), name='feasible_and_nonneg_multiplier_implies_nonpositive'),
            Eq(v_sum([v_mul(2.0, v_mul(a, l)), v_sq(fb), v_mul(2.0, v_mul(fb, v_add(a, l)))]), 0.0, name='product_identity'),
        ]
    c.prove('fb', spec, order=('nlsat', 'core'), denoms=False)


def _instance(CO, affine=False):
    """2 variables, 2 inequality constraints (one affine, one non-linear), general quadratic + cubic objective; all
    coefficients are traced parameters"""
    import jax.numpy as jnp

    def obj(x, p):
        return 0.5 * (p[0] * x[0] * x[0] + p[1] * x[1] * x[1]) + p[2] * x[0] * x[1] + p[3] * x[0] + p[4] * x[1] + p[5] * x[0] * x[0] * x[0]

    def con(x, p):
        return jnp.array([x[0] - p[6], p[7] - x[0] * x[1]])

    def con_affine(x, p):
        return jnp.array([x[0] - p[6], p[7] - x[0] - p[5] * x[1]])

    def obj_quadratic(x, p):
        return 0.5 * (p[0] * x[0] * x[0] + p[1] * x[1] * x[1]) + p[2] * x[0] * x[1] + p[3] * x[0] + p[4] * x[1]
    if affine:
        return obj_quadratic, con_affine
    return obj, con


def _example_inst():
    return dict(x=onp.array([0.3, -0.2]), p=onp.array([1.0, 2.0, 0.3, -0.4, 0.5, 0.2, 0.1, 0.7]), lam=onp.array([0.2, 0.0]), kappa=onp.array([1.0, 2.5]))


def _smp_inst(rng):
    return [rng.normal(size=2), rng.normal(size=8), onp.abs(rng.normal(size=2)), onp.abs(rng.normal(size=2)) + 0.2]


def _o1_notes(h, CO, affine):
    h.outside('other instances (the statements are about the plumbing of the class, which does not depend on the callables); IEEE rounding')
    h.encoded(CO.fischer_burmeister, CO.ConstrainedObjective.__init__, CO.ConstrainedObjective.create_augmented_lagrangian,
              CO.ConstrainedObjective.total_residual, CO.ConstrainedObjective.constrained_residual, CO.ConstrainedObjective.gradient,
              CO.ConstrainedObjective.ncp, CO.ConstrainedObjective.constraint)
    h.bounds('n=2 unknowns, m=2 constraints (%s), objective: general quadratic%s, 8 symbolic coefficients; x, lam: all reals; kappa > 0; tol > 0: all reals'
             % ('x0 - p6 >= 0 and p7 - x0 - p5*x1 >= 0' if affine else 'x0 - p6 >= 0 and p7 - x0*x1 >= 0', '' if affine else ' + cubic term'))
    h.assume_note('the instance (objective/constraint callables) is the harness\'s; every method evaluated is the real ConstrainedObjective\'s, '
                  'constructed inside the trace so that p, lam, kappa are symbolic',
                  'norm(r) < tol is stated as r.r < tol^2 with tol > 0 (the square root is taken by AlSolver.norm, see O4)')


@obligation(P, 'O1.total_residual_wiring', cap=300)
def o1_wiring(h):
    """real ConstrainedObjective on a 2-variable / 2-constraint non-linear instance: total_residual(x) = [gradient(x) ; ncp(x)],
    ncp_i = fischer_burmeister(constraint_i(x), lam_i, kappa_i at construction); after a later change of .kappa and .lam the
    FB block still uses the construction-time penalty while the gradient block uses the current one"""
    from ..jxh import Case
    import jax
    import jax.numpy as jnp
    CO = _co()
    _o1_notes(h, CO, False)
    obj, con = _instance(CO)

    def F(x, p, lam, kappa, lam2, kappa2):
        o = CO.ConstrainedObjective(obj, con, x, p, lam, kappa)
        first = (o.total_residual(x), o.gradient(x), o.ncp(x), o.constraint(x), jax.vmap(CO.fischer_burmeister)(o.constraint(x), lam, kappa))
        o.lam = lam2
        o.kappa = kappa2
        o2 = CO.ConstrainedObjective(obj, con, x, p, lam2, kappa2)
        second = (o.total_residual(x), o2.gradient(x), jax.vmap(CO.fischer_burmeister)(o.constraint(x), lam2, kappa))
        o.reset_kappa()
        return first, second, o.kappa
    ex = _example_inst()
    ex['lam2'] = onp.array([0.0, 0.4])
    ex['kappa2'] = onp.array([4.0, 2.5])
    c = Case(h, F, ex, sampler=lambda rng: _smp_inst(rng) + [onp.abs(rng.normal(size=2)), onp.abs(rng.normal(size=2)) + 0.2], label='total_residual')

    def spec(i, o):
        (r, g, ncp, cc, fbo), (r2, g2, fb2), kreset = o
        return [], [Eq(r[:2], g, name='first_block_is_AL_gradient'), Eq(r[2:], ncp, name='second_block_is_ncp'),
                    Eq(ncp, fbo, name='ncp_i_is_fb_of_constraint_i_lam_i_kappa_i'),
                    Eq(r2[:2], g2, name='after_update_first_block_uses_current_lam_and_kappa'),
                    Eq(r2[2:], fb2, name='after_update_fb_block_uses_current_lam_and_construction_kappa'),
                    Eq(kreset, i['kappa'], name='reset_kappa_restores_construction_kappa')]
    c.prove('wiring', spec, denoms=False)


@obligation(P, 'O1.norm_to_components', cap=300)
def o1_norm(h):
    """stacked residual [r_0, r_1, r_2, fb(c,l,k)] (three arbitrary other entries): r.r + fb^2 < tol^2 implies |r_j| < tol,
    c k > -tol, l > -tol, min(c k, l) < 2 tol — with O1.total_residual_wiring this is the KKT reading of `errorNorm < tol`
    for every constraint of any instance with up to 4 residual entries"""
    from ..jxh import Case
    CO = _co()
    h.encoded(CO.fischer_burmeister)
    h.bounds('c, l and three other residual entries: all reals; k > 0, tol > 0: all reals')
    h.outside('IEEE rounding; more than 4 residual entries in one query (the argument is per entry and independent of the others)')
    h.assume_note('composition (by substitution of the exact equalities of O1.total_residual_wiring) is stated, the monolithic instance query is O1.total_residual_instance (thorough tier)')
    smp = lambda rng: [rng.normal(size=3), rng.normal(), rng.normal(), abs(rng.normal()) + 0.1, abs(rng.normal()) + 0.01]
    c = Case(h, lambda r, c, l, k, tol: CO.fischer_burmeister(c, l, k), dict(r=onp.array([0.1, -0.2, 0.05]), c=0.3, l=0.2, k=1.5, tol=0.1), sampler=smp, label='fb_in_norm')

    def spec(i, o):
        r, cc, l, k, tol, fb = i['r'], s0(i['c']), s0(i['l']), s0(i['k']), s0(i['tol']), s0(o)
        a = v_mul(cc, k)
        asm = [v_lt(0.0, k), v_lt(0.0, tol), v_lt(v_add(v_dot(r, r), v_sq(fb)), v_sq(tol))]
        return asm, [Lt(v_abs(r[0]), tol, name='other_entry_below_tol', scale=tol),
                     Lt(v_abs(fb), tol, name='fb_entry_below_tol', scale=tol),
                     Lt(v_sub(0.0, tol), a, name='constraint_times_kappa_above_minus_tol', scale=tol),
                     Lt(v_sub(0.0, tol), l, name='multiplier_above_minus_tol', scale=tol),
                     Lt(v_min(a, l), v_mul(2.0, tol), name='complementarity_min_below_2tol', scale=tol)]
    c.prove('norm', spec, order=('nlsat', 'core'), denoms=False)


@obligation(P, 'O1.total_residual_instance', tiers=('thorough',), cap=1500)
def o1_instance(h):
    """monolithic: the real ConstrainedObjective on a 2-variable / 2-constraint instance: |total_residual|^2 < tol^2 implies for
    every constraint c_i*k_i > -tol, lam_i > -tol, min(c_i k_i, lam_i) < 2 tol and |gradient_j| < tol"""
    from ..jxh import Case
    import jax.numpy as jnp
    CO = _co()
    _o1_notes(h, CO, True)
    obj, con = _instance(CO, affine=True)

    def F(x, p, lam, kappa, tol):
        o = CO.ConstrainedObjective(obj, con, x, p, lam, kappa)
        return o.total_residual(x), o.gradient(x), o.ncp(x), o.constraint(x)
    ex = _example_inst()
    ex['tol'] = 0.1
    c = Case(h, F, ex, sampler=lambda rng: _smp_inst(rng) + [abs(rng.normal()) + 0.01], label='total_residual')
    G = [c.ctx.fresh('G%d' % j) for j in range(2)]

    def mk(which):
        def spec(i, o, G=G):
            # cut: the piecewise gradient entries are named G_j = r_j so that the norm argument is made on the names
            r, g, ncp, cc = o
            lam, kap, tol = i['lam'], i['kappa'], s0(i['tol'])
            if sym.isz(tol):
                Gs, defs = G, [v_eq(G[j], r[j]) for j in range(2)]
            else:
                Gs, defs = [float(r[j]) for j in range(2)], []
            small = v_lt(v_add(v_dot(Gs, Gs), v_dot(r[2:], r[2:])), v_sq(tol))
            asm = [v_lt(0.0, tol), v_lt(0.0, kap[0]), v_lt(0.0, kap[1]), small] + defs
            ats = []
            for j in range(2):
                ats.append(Lt(v_abs(Gs[j]), tol, name='gradient_%d_below_tol' % j, scale=tol))
            for k in range(2):
                a = v_mul(cc[k], kap[k])
                ats.append(Lt(v_sub(0.0, tol), a, name='constraint_%d_times_kappa_above_minus_tol' % k, scale=tol))
                ats.append(Lt(v_sub(0.0, tol), lam[k], name='multiplier_%d_above_minus_tol' % k, scale=tol))
                ats.append(Lt(v_min(a, lam[k]), v_mul(2.0, tol), name='complementarity_%d_min_below_2tol' % k, scale=tol))
            return asm, [a for a in ats if (a.name == 'complementarity_1_min_below_2tol') == which]
        return spec
    c.prove('kkt', mk(False), cap=200, order=('core',), denoms=False)
    c.prove('kkt', mk(True), cap=400, order=('nlsat', 'core'), denoms=False)


# =========================================================================================== O3: AL penalty (JX)
def _penalty_fns(CO, quasi):
    import jax
    import jax.numpy as jnp
    if quasi:
        f = CO.ConstrainedQuasiObjective.create_augmented_lagrangian(None, lambda x, l, p: 0.0, lambda x, p: x)
    else:
        f = CO.ConstrainedObjective.create_augmented_lagrangian(None, lambda x, p: 0.0, lambda x, p: x)

    def pen(c, l, k):
        return f(jnp.array([c]), None, jnp.array([l]), jnp.array([k]))
    dc = jax.grad(pen, 0)
    dl = jax.grad(pen, 1)
    return pen, dc, dl


def _o3_scalar(h, quasi):
    from ..jxh import Case
    CO = _co()
    tag = 'quasi' if quasi else 'std'
    pen, dc, dl = _penalty_fns(CO, quasi)
    smp = lambda rng: [rng.normal(), rng.normal(), abs(rng.normal()) + 0.1]
    c = Case(h, lambda c, l, k: (pen(c, l, k), dc(c, l, k), dl(c, l, k)), dict(c=0.3, l=0.2, k=1.5), sampler=smp, label='penalty_' + tag)

    def spec(i, o):
        cc, l, k = s0(i['c']), s0(i['l']), s0(i['k'])
        pv, gc, gl = s0(o[0]), s0(o[1]), s0(o[2])
        mu = v_max(v_sub(l, v_mul(k, cc)), 0.0)
        return [v_lt(0.0, k)], [
            Eq(gc, v_sub(0.0, mu), name='dpenalty_dc_is_minus_updated_multiplier'),
            Eq(v_mul(k, gl), v_sub(0.0, v_min(v_mul(k, cc), l)), name='k_dpenalty_dl_is_minus_min_kc_l'),
            Eq(v_sub(0.0, gc), v_add(l, v_mul(k, gl)), name='updated_multiplier_is_ascent_step_l_plus_k_dl'),
            Eq(v_mul(v_mul(2.0, k), pv), v_sub(v_sq(mu), v_sq(l)), name='value_is_(mu^2-l^2)/2k'),
            Le(gc, 0.0, name='dpenalty_dc_nonpositive'),
        ]
    c.prove(tag, spec, order=('core', 'nlsat'))
    # two-point statements: C1 across the switch l = k c without naming it
    smp2 = lambda rng: [rng.normal(), rng.normal(), rng.normal(), rng.normal(), abs(rng.normal()) + 0.1]
    c2 = Case(h, lambda c1, c2, l1, l2, k: (dc(c1, l1, k), dc(c2, l2, k), pen(c1, l1, k), pen(c2, l1, k), pen(c1, l2, k), dl(c1, l1, k), dl(c2, l2, k)),
              dict(c1=0.3, c2=-0.1, l1=0.2, l2=0.4, k=1.5), sampler=smp2, label='penalty2_' + tag)

    def spec2(i, o):
        c1, c2_, l1, l2, k = [s0(i[n]) for n in ('c1', 'c2', 'l1', 'l2', 'k')]
        g1, g2, p11, p21, p12, h1, h2 = [s0(x) for x in o]
        dcc, dll = v_abs(v_sub(c1, c2_)), v_abs(v_sub(l1, l2))
        return [v_lt(0.0, k)], [
            Le(v_abs(v_sub(g1, g2)), v_add(v_mul(k, dcc), dll), name='dpenalty_dc_lipschitz_k_in_c_and_1_in_l', scale=k),
            Le(v_mul(k, v_abs(v_sub(h1, h2))), v_add(v_mul(k, dcc), dll), name='dpenalty_dl_lipschitz_1_in_c_and_1/k_in_l', scale=k),
            Le(v_add(p11, v_mul(g1, v_sub(c2_, c1))), p21, name='convex_in_c_(first_order)', scale=k),
            Le(p12, v_add(p11, v_mul(h1, v_sub(l2, l1))), name='concave_in_l_(first_order)', scale=k),
            Le(v_abs(v_sub(p11, p21)), v_mul(v_add(v_abs(g1), v_add(v_mul(k, dcc), 0.0)), dcc), name='value_continuous_in_c_(local_lipschitz)', scale=k),
        ]
    c2.prove(tag + '_two_point', spec2, cap=120, order=('core', 'nlsat'))


@obligation(P, 'O3.penalty_scalar', cap=400)
def o3_std(h):
    """penalty term of ConstrainedObjective.create_augmented_lagrangian and its jax.grad: d/dc = -max(l - k c, 0) (the updated
    multiplier), k d/dl = -min(k c, l), value = (max(l-kc,0)^2 - l^2)/(2k); gradient Lipschitz and value continuous across
    the switch l = k c; convex in c, concave in l"""
    CO = _co()
    h.encoded(CO.ConstrainedObjective.create_augmented_lagrangian)
    h.bounds('one constraint value c, multiplier l: all reals; k > 0: all reals; two-point statements over all pairs (c1,l1), (c2,l2)')
    h.assume_note('the penalty is isolated by passing objective_func = 0 and constraint_func = identity to the real create_augmented_lagrangian')
    h.outside('second derivatives at the switch (the penalty is C1, not C2); IEEE rounding')
    _o3_scalar(h, False)


@obligation(P, 'O3.penalty_scalar_quasi', cap=400)
def o3_quasi(h):
    """same for ConstrainedQuasiObjective.create_augmented_lagrangian (strict inequality l > k c in the switch)"""
    CO = _co()
    h.encoded(CO.ConstrainedQuasiObjective.create_augmented_lagrangian)
    h.bounds('one constraint value c, multiplier l: all reals; k > 0: all reals')
    h.assume_note('the penalty is isolated by passing objective_func = 0 and constraint_func = identity to the real create_augmented_lagrangian')
    h.outside('the dependence of the quasi objective itself on the multipliers (objective_func(x, l, p)); IEEE rounding')
    _o3_scalar(h, True)


@obligation(P, 'O3.subproblem_gradient_instance', cap=600)
def o3_instance(h):
    """2-variable / 2-constraint instance: gradient() of the real ConstrainedObjective = grad f(x) - J_c(x)^T mu with
    mu = max(lam - kappa c(x), 0) — the Lagrangian gradient at the UPDATED multiplier that solve_sub_step installs"""
    from ..jxh import Case
    import jax
    import jax.numpy as jnp
    CO = _co()
    h.encoded(CO.ConstrainedObjective.__init__, CO.ConstrainedObjective.create_augmented_lagrangian, CO.ConstrainedObjective.gradient)
    h.bounds('n=2, m=2 (one affine, one bilinear constraint), general quadratic + cubic objective with 8 symbolic coefficients; x, lam all reals; kappa > 0')
    h.assume_note('oracle: jax.grad of the plain Lagrangian f - mu.c of the same instance with mu an independent input, equated under mu = max(lam - kappa c, 0)')
    h.outside('that jax.grad differentiates correctly (JAX trusted); other instances')
    obj, con = _instance(CO)

    def F(x, p, lam, kappa, mu):
        o = CO.ConstrainedObjective(obj, con, x, p, lam, kappa)
        lag = jax.grad(lambda z: obj(z, p) - jnp.dot(mu, con(z, p)))(x)
        return o.gradient(x), lag, o.constraint(x), o.gradient_l(x)
    ex = _example_inst()
    ex['mu'] = onp.array([0.1, 0.3])
    c = Case(h, F, ex, sampler=lambda rng: _smp_inst(rng) + [onp.abs(rng.normal(size=2))], label='al_gradient')

    def spec(i, o):
        g, lag, cc, gl = o
        lam, kap, mu = i['lam'], i['kappa'], i['mu']
        asm = [v_lt(0.0, kap[0]), v_lt(0.0, kap[1])]
        for k in range(2):
            asm.append(v_eq(mu[k], v_max(v_sub(lam[k], v_mul(kap[k], cc[k])), 0.0)))
        return asm, [Eq(g, lag, name='AL_gradient_is_lagrangian_gradient_at_updated_multiplier'),
                     Eq([v_add(lam[k], v_mul(kap[k], gl[k])) for k in range(2)], [mu[k] for k in range(2)], name='updated_multiplier_is_lam_plus_kappa_gradient_l')]
    c.prove('instance', spec, cap=120)


@obligation(P, 'O3.kkt_with_returned_multipliers', cap=300)
def o3_link(h):
    """link between the termination test and KKT in terms of the RETURNED multipliers: the first block of total_residual is the
    Lagrangian gradient at mu = max(l - k c, 0) (current penalty k) while the FB block uses the penalty k0 baked at
    construction (constraintKappa); for l >= 0, k >= k0 > 0: |fb(c,l,k0)| <= t implies |mu - l| <= 2 t k/k0"""
    from ..jxh import Case
    CO = _co()
    pen, dc, dl = _penalty_fns(CO, False)
    h.encoded(CO.fischer_burmeister, CO.ConstrainedObjective.create_augmented_lagrangian)
    h.bounds('c: all reals; l >= 0; k >= k0 > 0; t >= 0: all reals')
    h.outside('the factor k/k0 (penalty growth since construction / reset_kappa) is part of the constant: the Lagrangian gradient with the returned '
              'multipliers is within tol*(1 + 2 (k/k0) |grad c|) per constraint, not within tol')
    smp = lambda rng: [rng.normal(), abs(rng.normal()), abs(rng.normal()) + 1.0, 0.5, abs(rng.normal())]
    c = Case(h, lambda c, l, k, k0, t: (CO.fischer_burmeister(c, l, k0), dc(c, l, k)), dict(c=0.3, l=0.2, k=1.5, k0=0.5, t=0.1), sampler=smp, label='fb_and_dpenalty')

    def spec(i, o):
        cc, l, k, k0, t = [s0(i[n]) for n in ('c', 'l', 'k', 'k0', 't')]
        fb, gc = s0(o[0]), s0(o[1])
        mu = v_sub(0.0, gc)
        return [v_lt(0.0, k0), v_le(k0, k), v_le(0.0, l), v_le(0.0, t), v_le(v_abs(fb), t)], [
            Le(v_mul(k0, v_abs(v_sub(mu, l))), v_mul(2.0, v_mul(t, k)), name='updated_minus_returned_multiplier_le_2t_k_over_k0', scale=t),
            Le(0.0, mu, name='sub_problem_multiplier_nonneg'),
        ]
    c.prove('link', spec, order=('nlsat', 'core'), denoms=False)


# =========================================================================================== PX model pieces
class KVec(onp.ndarray):
    """numpy array (object or float) with jax's functional-update interface `a.at[idx].set(v)` (used on `kappa`)"""
    @property
    def at(self):
        return _At(self)


class _At:
    def __init__(self, a):
        self.a = a

    def __getitem__(self, idx):
        return _AtIdx(self.a, idx)


class _AtIdx:
    def __init__(self, a, idx):
        self.a, self.idx = a, idx

    def _upd(self, f):
        b = onp.array(self.a, dtype=self.a.dtype).view(KVec)
        b[self.idx] = f(onp.asarray(b)[self.idx])
        return b

    def set(self, v):
        return self._upd(lambda old: v)

    def multiply(self, v):
        return self._upd(lambda old: old * v)

    def add(self, v):
        return self._upd(lambda old: old + v)


def kvec(a):
    return onp.asarray(a).view(KVec)


def _cat(args):
    out = []
    for a in args:
        out.extend(list(onp.asarray(a, dtype=object).reshape(-1)))
    return out


def same_arg(a, b):
    cs = [px._z(x) == px._z(y) for x, y in zip(a, b)]
    return z3.And(*cs) if cs else z3.BoolVal(True)


class UTable:
    """uninterpreted vector-valued functions: every call draws fresh reals (same creation order in the symbolic run and in
    a replay); functional consistency (equal arguments => equal results) is imposed by Ackermann constraints"""

    def __init__(self, ex):
        self.ex = ex
        self.calls = {}

    def __call__(self, kind, args, m):
        ex = self.ex
        key = _cat(args)
        val = ex.vec(kind, m)
        prev = self.calls.setdefault(kind, [])
        if ex.symbolic:
            for k2, v2 in prev:
                cond = same_arg(key, k2)
                for a, b in zip(val, v2):
                    ex.pc.append(z3.Implies(cond, px._z(a) == px._z(b)))
        else:
            for k2, v2 in prev:
                if all(float(a) == float(b) for a, b in zip(key, k2)):
                    return onp.array(v2)
        prev.append((key, val))
        return val


class _PublicState:
    """state attributes of the real ConstrainedObjective that solver code may legitimately read or assign: p, lam, kappa,
    constraintKappa (frozen at construction), scaling / invScaling (Objective base: 1.0). `kappa` accepts any array and
    always offers jax's `.at[...]` functional-update interface"""
    scaling = 1.0
    invScaling = 1.0
    precondStrategy = None

    @property
    def kappa(self):
        return self._kappa

    @kappa.setter
    def kappa(self, v):
        self._kappa = kvec(onp.array(onp.asarray(v)))

    def reset_kappa(self):
        self.log.append(('reset_kappa', None, self.p))
        self.kappa = onp.array(self.constraintKappa)


class UConstrained(_PublicState):
    """an arbitrary smooth inequality-constrained problem behind the FULL public ConstrainedObjective interface: every
    evaluation method (value, gradient*, hessian*, jacobian*, constraint, ncp, ncp_hessian, constrained_*, total_residual,
    apply_precond, ...) is an uninterpreted function of its arguments and of the state it reads on the real class (fresh
    reals per distinct argument tuple, functionally consistent); lam, kappa, p are plain attributes exactly as on the real
    class; constraintKappa is an independent symbolic vector with 0 < constraintKappa <= kappa (kappa starts there at
    construction / reset_kappa and, by the property, never decreases)"""

    def __init__(self, ex, n, m, log=None, lam_nonneg=False):
        self.ex, self.n, self.m = ex, n, m
        self.U = UTable(ex)
        self.log = [] if log is None else log
        self.p = 'P_OLD'
        self.lam = ex.vec('lam', m)
        k = ex.vec('kappa', m)
        ck = ex.vec('constraintKappa', m)
        for i in range(m):
            ex.assume(ck[i] > 0)
            ex.assume(ck[i] <= k[i])
            if lam_nonneg:
                ex.assume(self.lam[i] >= 0)
        self.kappa = k
        self.constraintKappa = ck

    # ---- the methods the AL solver reads (state dependence as on the real class)
    def constraint(self, x):
        return self.U('c', [x], self.m)

    def ncp(self, x):
        self.log.append(('ncp', x, self.lam))
        return self.U('ncp', [x, self.lam], self.m)

    def gradient(self, x):
        return self.U('grad', [x, self.lam, self.kappa], self.n)

    def total_residual(self, x):
        self.mark_total = len(self.ex.pc)     # path-condition entries from here on: this residual, its norm, the decisions taken on it
        r = self.U('res', [x, self.lam, self.kappa], self.n + self.m)
        self.log.append(('total_residual', x, self.lam, self.kappa, r, self.mark_total))
        return r

    def constrained_residual(self, xl):
        return self.U('res', [xl, self.kappa], self.n + self.m)

    def update_precond(self, x):
        self.log.append(('update_precond', x, self.p, onp.array(x)))

    # ---- the rest of the public interface (uninterpreted; linearity of the operator-vector products is not modelled)
    def value(self, x):
        return self.U('value', [x, self.lam, self.kappa], 1)[0]

    def gradient_p(self, x):
        return self.U('grad_p', [x, self.lam, self.kappa], self.n)

    def gradient_l(self, x):
        return self.U('grad_l', [x, self.lam, self.kappa], self.m)

    def hessian(self, x):
        return self.U('hess', [x, self.lam, self.kappa], self.n * self.n).reshape(self.n, self.n)

    def hessian_vec(self, x, vx):
        return self.U('hess_vec', [x, self.lam, self.kappa, vx], self.n)

    def jacobian_p_vec(self, x, vp):
        return self.U('jac_p_vec', [x, self.lam, self.kappa, vp], self.n)

    def jacobian_l_vec(self, x, vl):
        return self.U('jac_l_vec', [x, self.lam, self.kappa, vl], self.n)

    def ncp_hessian(self, x):
        return self.U('ncp_hess', [x, self.lam], self.m)

    def constrained_jacobian_vec(self, xl, vxl):
        return self.U('cjac_vec', [xl, self.kappa, vxl], self.n + self.m)

    def constrained_jacobian_p_vec(self, xl, vp):
        return self.U('cjac_p_vec', [xl, self.kappa, vp], self.n + self.m)

    def apply_precond(self, vx):
        return self.U('precond', [vx], self.n)

    def multiply_by_approx_hessian(self, vx):
        return self.U('approx_hess', [vx], self.n)

    def check_stability(self, x):
        self.log.append(('check_stability', x, self.p))


def al_settings_sym(ex, mod, max_al_iters=100, newton_only=None, second_order=None):
    ps, f, tol = ex.real('penalty_scaling'), ex.real('target_constraint_decrease_factor'), ex.real('al_tol')
    nlow = ex.int('num_initial_low_order_iterations')
    ex.assume(ps >= 1)
    ex.assume(tol > 0)
    ex.assume(nlow >= 0)
    so = bool(ex.bool('use_second_order_update')) if second_order is None else second_order
    no = bool(ex.bool('use_newton_only')) if newton_only is None else newton_only
    return mod.Settings(ps, f, 2e-2, 100, so, no, nlow, 1e-2, max_al_iters, tol)


AL_ADMISSIBLE = 'penalty_scaling >= 1, tol > 0, target_constraint_decrease_factor any real, num_initial_low_order_iterations >= 0 (all symbolic); use_second_order_update, use_newton_only: both values'


def norm_model(v):
    """AlSolver.norm = np.linalg.norm; the line search applies it to a BOOLEAN (`norm(trialErrorNorm < errorNorm)`):
    jnp.linalg.norm(True) = 1.0, (False) = 0.0 (ground fact checked in O4). For a vector it is sqrt(v.v); the entries are
    first given names (e_i = v_i, definitional) so that the solver argues about the norm on the names"""
    if isinstance(v, SymBool):
        return 1.0 if bool(v) else 0.0
    if isinstance(v, (bool, onp.bool_)):
        return 1.0 if v else 0.0
    ex = px.cur()
    if ex is not None and ex.symbolic and isinstance(v, onp.ndarray) and v.dtype == object:
        w = onp.empty(v.shape, dtype=object)
        for i, x in enumerate(v.reshape(-1)):
            if isinstance(x, SymReal):
                e = z3.Real('px_' + ex._name('nrm'))
                ex.pc.append(e == x.z)
                w.reshape(-1)[i] = SymReal(e)
            else:
                w.reshape(-1)[i] = x
        v = w
    return NP.linalg.norm(v)


def goal_tail(ex, mark, extra, name, atom, info=None):
    """record a goal whose hypotheses are only the TAIL of the path condition (entries from index `mark` on) plus `extra`
    (which must be members/consequences of the path condition): a subset of the path condition, hence sound; it keeps the
    irrelevant iteration history away from the solver"""
    if not ex.symbolic:
        return ex.goal(name, atom, info=info)
    saved = ex.pc
    ex.pc = list(saved[mark:]) + [px._z(c) for c in extra]
    try:
        ex.goal(name, atom, info=info)
        ex.goals[-1]['pc_full'] = list(saved) + [px._z(c) for c in extra]     # px.run_px re-decides a sat verdict under the full path condition (replayable model)
    finally:
        ex.pc = saved


def idx_of(lst, e):
    return [i for i, x in enumerate(lst) if x is e][0]


def _zb(x):
    """SymBool / bool -> z3 bool or python bool (no branching)"""
    return x.z if isinstance(x, SymBool) else bool(x)


# =========================================================================================== O2: solve_sub_step (PX)
def make_substep_harness(n, m):
    def fn(ex):
        mod = px.load_module(REL_AL)
        obj = UConstrained(ex, n, m)
        S = al_settings_sym(ex, mod, newton_only=False, second_order=False)
        x0 = ex.vec('x', n)
        ncpOld = ex.vec('ncpErrorOld', m)
        for i in range(m):
            ex.assume(ncpOld[i] >= 0)
        xs = ex.vec('xSub', n)
        succ = ex.bool('solverSuccess')
        lam0, kap0, ck0 = onp.array(obj.lam), onp.array(obj.kappa), obj.constraintKappa
        seen = {}

        def sub(o, x, settings, cb):
            seen['args'] = (o, x, settings, cb)
            seen['lam_at_sub'] = o.lam
            return xs, succ
        xr, ncpErr, flag = mod.solve_sub_step(obj, x0, ncpOld, S, 'SUBSETTINGS', sub, 'SUBCB')
        lam1, kap1 = obj.lam, obj.kappa
        ex.goal('sub_solver_called_on_the_objective_from_the_current_point', Holds(seen['args'][0] is obj and seen['args'][1] is x0 and seen['args'][2] == 'SUBSETTINGS' and seen['args'][3] == 'SUBCB'))
        ex.goal('returns_the_sub_solver_point_and_flag', Holds(xr is xs and flag is succ))
        c = obj.constraint(xs)
        for i in range(m):
            upd = sym.v_max(sym.v_sub(px.unwrap(lam0[i]), sym.v_mul(px.unwrap(kap0[i]), px.unwrap(c[i]))), 0.0)
            ex.goal('multiplier_update_is_max_lam_minus_kappa_c_at_new_point', Eq(px.unwrap(lam1[i]), upd))
            ex.goal('multipliers_nonnegative_after', Le(0.0, px.unwrap(lam1[i])))
        ncpNew = obj.U('ncp', [xs, lam1], m)
        thr0 = 10.0 * S.tol / onp.sqrt(m)
        for i in range(m):
            ex.goal('ncp_error_is_abs_ncp_at_new_point_with_updated_multipliers', Eq(px.unwrap(ncpErr[i]), sym.v_abs(px.unwrap(ncpNew[i]))))
            thr = sym.v_max(sym.v_mul(px.unwrap(S.target_constraint_decrease_factor), px.unwrap(ncpOld[i])), px.unwrap(thr0))
            poor = sym.v_lt(thr, px.unwrap(ncpErr[i]))
            grow = sym.v_and(poor, _zb(succ))
            ex.goal('penalty_grows_by_penalty_scaling_iff_poor_progress_and_solver_success',
                    Eq(px.unwrap(kap1[i]), sym.v_if(grow, sym.v_mul(px.unwrap(S.penalty_scaling), px.unwrap(kap0[i])), px.unwrap(kap0[i]))))
            ex.goal('penalty_never_decreases', Le(px.unwrap(kap0[i]), px.unwrap(kap1[i])))
            ex.goal('penalty_stays_positive', Lt(0.0, px.unwrap(kap1[i]), scale=0.0))
            ex.goal('penalty_unchanged_without_solver_success', Eq(px.unwrap(kap1[i]), px.unwrap(kap0[i]), when=sym.v_not(_zb(succ))))
            ex.goal('inv_penalty_at_least_construction_penalty', Le(px.unwrap(ck0[i]), px.unwrap(kap1[i])))
        ex.goal('construction_penalty_not_modified', Holds(obj.constraintKappa is ck0))
    return fn


O2_GOALS = ['sub_solver_called_on_the_objective_from_the_current_point', 'returns_the_sub_solver_point_and_flag',
            'multiplier_update_is_max_lam_minus_kappa_c_at_new_point', 'multipliers_nonnegative_after',
            'ncp_error_is_abs_ncp_at_new_point_with_updated_multipliers', 'penalty_grows_by_penalty_scaling_iff_poor_progress_and_solver_success',
            'penalty_never_decreases', 'penalty_stays_positive', 'penalty_unchanged_without_solver_success',
            'inv_penalty_at_least_construction_penalty', 'construction_penalty_not_modified']


def _o2_notes(h, n, m):
    h.encoded('optimism.AlSolver:solve_sub_step (real source)')
    h.bounds('n=%d unknowns, m=%d constraints; lam: all reals; kappa >= constraintKappa > 0 (both symbolic); constraint / ncp values: arbitrary (uninterpreted functions of their arguments); '
             'previous ncp error >= 0; settings: %s' % (n, m, AL_ADMISSIBLE))
    h.assume_note('stub: the sub-problem solver returns an arbitrary point and an arbitrary success flag (its guarantees are C01/C05)',
                  'stub: objective = arbitrary problem behind the full public ConstrainedObjective interface (every evaluation method uninterpreted, functionally consistent; lam, kappa, p, constraintKappa attributes); kappa supports jax\'s .at[mask].set(v)',
                  'penalty monotonicity is claimed for penalty_scaling >= 1 and kappa > 0 only (both assumed)')
    h.outside('penalty_scaling < 1 or non-positive penalties (inadmissible settings)')


@obligation(P, 'O2.sub_step[m=1]', cap=300)
def o2_m1(h):
    """solve_sub_step, one constraint: lam+ = max(lam - kappa c(x+), 0) >= 0 for all lam, kappa > 0, c; kappa_i is multiplied by
    penalty_scaling exactly when |ncp_i| > max(factor*old_i, 10 tol/sqrt(m)) AND the sub-solver reported success, otherwise
    unchanged; kappa never decreases; returned ncp error is evaluated with the updated multipliers at the new point"""
    _o2_notes(h, 1, 1)
    px.run_px(h, 'sub_step', make_substep_harness(1, 1), cap=30, div_mode='goal', sqrt_mode='goal', feas_ms=200, expect_goals=O2_GOALS)


@obligation(P, 'O2.sub_step[m=2]', cap=300)
def o2_m2(h):
    """same with two unknowns and two constraints (componentwise masks: each penalty grows independently)"""
    _o2_notes(h, 2, 2)
    px.run_px(h, 'sub_step', make_substep_harness(2, 2), cap=30, div_mode='goal', sqrt_mode='goal', feas_ms=200, expect_goals=O2_GOALS)


# =========================================================================================== O4: one outer AL iteration (PX)
def select_outer_for(fd):
    k = [i for i, s in enumerate(fd.body) if isinstance(s, ast.For)][0]
    return fd.body[k], fd.body[:k]


def sub_settings_sym(ex):
    from optimism import EquationSolver as ES
    tol = ex.real('sub_tol')
    ex.assume(tol > 0)
    return ES.get_settings(tol=tol)


def make_al_step_harness(n, m, it, newton_only, second_order):
    """one pass through the body of `for it in range(maxAlIters)` of the real augmented_lagrange_solve from an arbitrary
    loop-head state (x, lam, kappa > 0, ncpError >= 0, errorNorm >= 0 arbitrary); the real prologue of the function is run
    first (useWarmStart=False, updatePrecond=False), then the loop-carried locals are havoced"""
    def fn(ex):
        mod = px.load_module(REL_AL)
        mod.norm = norm_model
        step, src, names = px.extract_step(mod, 'augmented_lagrange_solve', select_outer_for)
        log = []
        obj = UConstrained(ex, n, m, log=log)
        S = al_settings_sym(ex, mod, newton_only=newton_only, second_order=second_order)
        sub = sub_settings_sym(ex)
        x_in = ex.vec('x_entry', n)
        pNew = ('P_NEW',)
        keep = {}

        def linear_update(o, x, rhs, settings):
            dx, dl, code = ex.vec('dx', n), ex.vec('dl', m), ex.int('gmresCode')
            keep['dx0'], keep['dl0'] = onp.array(dx), onp.array(dl)
            log.append(('linear_update', x, o.lam, rhs, settings, code))
            return dx, dl, code
        mod.linear_update = linear_update
        xs = ex.vec('xSub', n)
        succ = ex.bool('solverSuccess')

        def sub_solver(o, x, settings, cb):
            log.append(('sub_solver', x, o.lam, settings, cb, o))
            return xs, succ

        def callback(xx, pp):
            log.append(('callback', xx, pp, obj.lam, obj.kappa))

        def havoc(loc):
            ov = {}
            ov['x'] = ex.vec('x', n)
            e = ex.real('errorNorm')
            ex.assume(e >= 0)
            ov['errorNorm'] = e
            ne = ex.vec('ncpError', m)
            for i in range(m):
                ex.assume(ne[i] >= 0)
            ov['ncpError'] = ne
            ov['it'] = it
            keep['pre'] = dict(ov)
            keep['prologue_p'] = obj.p
            del log[:]
            return ov
        kap0, ck0 = onp.array(obj.kappa), obj.constraintKappa
        kind, val, loc = step({}, havoc, obj, x_in, pNew, S, sub, callback, 'SUBCB', sub_solver, False, False, True)
        lam_pre = keep.get('lam_pre')
        x0, err0 = keep['pre']['x'], keep['pre']['errorNorm']
        tol2 = px.unwrap(S.tol * S.tol)
        # ---- the prologue installed the parameters
        ex.goal('parameters_installed_before_the_loop', Holds(keep['prologue_p'] is pNew and obj.p is pNew))
        # ---- callback first
        ex.goal('callback_at_start_of_iteration_with_current_iterate', Holds(len(log) >= 1 and log[0][0] == 'callback' and log[0][1] is x0 and log[0][2] is pNew))
        lam_start = log[0][3]
        # ---- second-order step exactly when configured
        lus = [e for e in log if e[0] == 'linear_update']
        want2 = (second_order and bool(it >= S.num_initial_low_order_iterations)) or newton_only
        ex.goal('second_order_update_exactly_when_configured', Holds(len(lus) == (1 if want2 else 0)))
        subs = [e for e in log if e[0] == 'sub_solver']
        ex.goal('sub_problem_solved_exactly_when_not_newton_only', Holds(len(subs) == (0 if newton_only else 1)))
        k_sub = idx_of(log, subs[0]) if subs else len(log)
        trials = [e for e in log[:k_sub] if e[0] == 'total_residual']
        x_ls, lam_ls = x0, lam_start     # state after the line search
        accepted = False
        if lus:
            lu = lus[0]
            ex.goal('linear_update_from_current_state_with_constrained_residual', Holds(lu[1] is x0 and lu[2] is lam_start and lu[4] is S and lu[3] == obj.constrained_residual))
            dx, dl = keep['dx0'], keep['dl0']
            ex.goal('line_search_tries_at_most_10_steps', Holds(1 <= len(trials) <= 10))
            y_last = loc.get('y')
            if newton_only or not subs:
                # no sub-solve on this path (newton-only mode; or an iteration that skipped it: then the goals
                # sub_problem_solved_exactly_when_not_newton_only / multipliers_nonnegative_at_end_of_iteration decide it)
                accepted = loc['x'] is y_last
            else:
                accepted = subs[0][1] is y_last
            ex.goal('line_search_rejection_count_consistent', Holds(accepted or len(trials) == 10))
            for j, tr in enumerate(trials):
                ex.goal('line_search_trial_point_is_x_plus_scaled_dx', Eq(px.unwrap(tr[1]), px.unwrap(x0 + dx)))
                ex.goal('line_search_trial_multipliers_are_saved_lam_plus_scaled_dl', Eq(px.unwrap(tr[2]), px.unwrap(lam_start + dl)),
                        info='multipliers not restored after a rejected trial (trial %d)' % j)
                dx, dl = dx * 0.2, dl * 0.2
            # hypotheses for statements about the LAST trial: the path-condition entries from its evaluation up to the next residual evaluation
            k_last = idx_of(log, trials[-1])
            nxt = [e[5] for e in log[k_last + 1:] if e[0] == 'total_residual']
            lo, hi = trials[-1][5], (nxt[0] if nxt else None)

            def goal_last_trial(name, atom):
                if not ex.symbolic:
                    return ex.goal(name, atom)
                saved = ex.pc
                ex.pc = list(saved[lo:hi]) + [px._z(err0 >= 0)]
                try:
                    ex.goal(name, atom)
                    ex.goals[-1]['pc_full'] = list(saved)
                finally:
                    ex.pc = saved
            if accepted:
                x_ls, lam_ls = y_last, trials[-1][2]
                goal_last_trial('line_search_accepts_only_strict_decrease_of_total_residual_norm', Lt(px.unwrap(loc['trialErrorNorm']), px.unwrap(err0)))
                goal_last_trial('accepted_trial_norm_is_norm_of_its_total_residual', Eq(px.unwrap(loc['trialErrorNorm'] * loc['trialErrorNorm']), px.unwrap(NP.dot(trials[-1][4], trials[-1][4]))))
            else:
                goal_last_trial('all_trials_rejected_means_no_decrease', Le(px.unwrap(err0 * err0), px.unwrap(NP.dot(trials[-1][4], trials[-1][4]))))
        else:
            ex.goal('no_line_search_without_second_order_update', Holds(len(trials) == 0))
        # ---- state handed on after the (possible) line search
        if subs:
            ex.goal('sub_solver_starts_from_line_search_result', Holds(subs[0][1] is x_ls and subs[0][5] is obj and subs[0][4] == 'SUBCB'))
            ex.goal('multipliers_after_line_search_are_accepted_trial_or_restored', Eq(px.unwrap(subs[0][2]), px.unwrap(lam_ls)))
            st = subs[0][3]
            if it == 0:
                ex.goal('sub_tolerance_ramp', Eq(px.unwrap(st.tol), px.unwrap(100.0 * sub.tol)))
            elif it < 3:
                ex.goal('sub_tolerance_ramp', Holds(sym.v_and(sym.v_lt(px.unwrap(sub.tol), px.unwrap(st.tol)), sym.v_lt(px.unwrap(st.tol), px.unwrap(100.0 * sub.tol)))))
            else:
                ex.goal('sub_tolerance_ramp', Holds(st is sub))
        else:
            ex.goal('newton_only_state_is_line_search_result', Holds(loc['x'] is x_ls))
            ex.goal('multipliers_after_line_search_are_accepted_trial_or_restored', Eq(px.unwrap(obj.lam), px.unwrap(lam_ls)))
        # ---- preconditioner refresh
        ups = [e for e in log if e[0] == 'update_precond']
        want_up = bool(lus) and (bool(lus[0][5] != 0) or len(trials) == 10)
        ex.goal('preconditioner_refreshed_iff_gmres_failed_or_last_trial_reached', Holds(len(ups) == (1 if want_up else 0)))
        if ups:
            ex.goal('preconditioner_refreshed_at_line_search_result_before_sub_solve', Holds(ups[0][1] is x_ls and idx_of(log, ups[0]) < k_sub))
        # ---- penalties
        for i in range(m):
            ex.goal('penalty_never_decreases', Le(px.unwrap(kap0[i]), px.unwrap(obj.kappa[i])))
            ex.goal('inv_penalty_at_least_construction_penalty', Le(px.unwrap(ck0[i]), px.unwrap(obj.kappa[i])))
        ex.goal('construction_penalty_not_modified', Holds(obj.constraintKappa is ck0))
        # ---- exits
        if kind == 'return':
            ex.goal('never_returns_in_newton_only_mode', Holds(not newton_only))
            ex.goal('returned_point_is_sub_solver_output', Holds(val is xs))
            ex.goal('callback_at_return_with_returned_point', Holds(log[-1][0] == 'callback' and log[-1][1] is val and log[-1][2] is pNew and log[-1][3] is obj.lam))
            mark = getattr(obj, 'mark_total', 0)
            R = obj.U('res', [val, obj.lam, obj.kappa], n + m)
            goal_tail(ex, mark, [S.tol > 0], 'return_only_if_total_residual_norm_with_current_multipliers_below_tol', Lt(px.unwrap(NP.dot(R, R)), tol2),
                      info='returned x whose total residual (evaluated with the multipliers at return) is not below tol')
            for i in range(m):
                ex.goal('multipliers_nonnegative_at_return', Le(0.0, px.unwrap(obj.lam[i])))
        else:
            ex.goal('iteration_falls_through_to_next', Holds(kind == 'next'))
            ex.goal('exactly_one_callback_without_return', Holds(len([e for e in log if e[0] == 'callback']) == 1))
            if not newton_only:
                for i in range(m):
                    ex.goal('multipliers_nonnegative_at_end_of_iteration', Le(0.0, px.unwrap(obj.lam[i])))
                mark = getattr(obj, 'mark_total', 0)
                R = obj.U('res', [loc['x'], obj.lam, obj.kappa], n + m)
                RR = px.unwrap(NP.dot(R, R))
                goal_tail(ex, mark, [S.tol > 0], 'no_return_means_not_converged', Le(tol2, RR))
                goal_tail(ex, mark, [S.tol > 0], 'inv_errorNorm_is_norm_of_total_residual_at_new_state', Eq(px.unwrap(loc['errorNorm'] * loc['errorNorm']), RR))
                ex.goal('inv_iterate_is_sub_solver_output', Holds(loc['x'] is xs))
                for i in range(m):
                    ex.goal('inv_ncpError_nonnegative', Le(0.0, px.unwrap(loc['ncpError'][i])))
            else:
                ex.goal('newton_only_error_norm_never_increases', Le(px.unwrap(loc['errorNorm']), px.unwrap(err0)))
    return fn


def _o4_notes(h, n, m):
    h.encoded('optimism.AlSolver:augmented_lagrange_solve (prologue + body of `for it`, extracted by AST from the current source)',
              'optimism.AlSolver:solve_sub_step (real source)', 'optimism.EquationSolver:settings_with_new_tol')
    h.bounds('n=%d unknowns, m=%d constraints; loop-head state: arbitrary x, lam (any sign), kappa >= constraintKappa > 0, ncpError >= 0, errorNorm >= 0; iteration index it in {0,1,2,3,7}; '
             'settings: %s' % (n, m, AL_ADMISSIBLE))
    h.assume_note('stub: linear_update (GMRES second-order step) returns an arbitrary (dx, dl, exit code)',
                  'stub: the sub-problem solver returns an arbitrary point and flag (C01/C05)',
                  'stub: objective = arbitrary problem behind the full public ConstrainedObjective interface: every evaluation method is an uninterpreted function of its arguments and (lam, kappa), functionally consistent (Ackermann); constraintKappa is an independent symbolic vector with 0 < constraintKappa <= kappa',
                  'model: AlSolver.norm of a boolean is 1.0/0.0 (jnp.linalg.norm(True) == 1.0, ground fact), of a vector sqrt(v.v)',
                  'inductive step: the pre-state is any state, reachable or not')
    h.outside('quality of the GMRES step; convergence; IEEE rounding')


O4_ITS = (0, 1, 2, 3, 7)


def _reg_o4():
    plan = []
    for tag in ('first_order', 'second_order', 'newton_only'):
        for it in ((0, 3) if tag == 'first_order' else O4_ITS):
            plan.append((tag, 1, 1, it, None, ('quick', 'thorough') if it in (0, 3) else ('thorough',)))
    plan.append(('first_order', 2, 2, 0, None, ('thorough',)))
    plan.append(('newton_only', 2, 2, 3, None, ('thorough',)))
    for it in (0, 3):
        for w in range(O4_NSHARD):
            plan.append(('second_order', 2, 2, it, (w, O4_NSHARD), ('thorough',)))
    for (tag, n, m, it, shard, tiers) in plan:
        newton_only, second_order = tag == 'newton_only', tag == 'second_order'

        def ob(h, n=n, m=m, it=it, newton_only=newton_only, second_order=second_order, shard=shard):
            _o4_notes(h, n, m)
            import jax.numpy as jnp
            h.fact('norm_of_boolean_is_1_or_0', float(jnp.linalg.norm(jnp.asarray(1.0) < jnp.asarray(2.0))) == 1.0 and float(jnp.linalg.norm(jnp.asarray(3.0) < jnp.asarray(2.0))) == 0.0,
                   'jnp.linalg.norm(True) = 1.0, jnp.linalg.norm(False) = 0.0 (the line-search acceptance test applies norm to a comparison)')
            px.run_px(h, 'al_step', make_al_step_harness(n, m, it, newton_only, second_order), cap=30, div_mode='goal', sqrt_mode='goal', feas_ms=150,
                      shard=shard, shard_depth=4)
        ob.__doc__ = ('one outer iteration (index it=%d) of the real augmented_lagrange_solve (%s mode, n=%d, m=%d) from an arbitrary loop-head state: return only behind '
                      'norm(total_residual) < tol with the multipliers current at return; line search restores lam on every rejected trial; lam >= 0 at the end of '
                      'the iteration; kappa never decreases; callback first and at return' % (it, tag, n, m))
        nm = 'O4.al_iteration[%s:n=%d:m=%d:it=%d]' % (tag, n, m, it)
        if shard:
            nm += '[shard %d/%d]' % shard
        obligation(P, nm, tiers=tiers, cap=900)(ob)


O4_NSHARD = 6
_reg_o4()


# ------------------------------------------------------------------------------------------ O4: prologue / epilogue
def make_al_whole_harness(useWarmStart, updatePrecond, before, iters):
    """the whole real augmented_lagrange_solve with max_al_iters = iters (0 or 1), first-order mode"""
    def fn(ex):
        mod = px.load_module(REL_AL)
        mod.norm = norm_model
        log = []
        obj = UConstrained(ex, 1, 1, log=log)
        S = al_settings_sym(ex, mod, max_al_iters=iters, newton_only=False, second_order=False)
        sub = sub_settings_sym(ex)
        x0 = ex.vec('x0', 1)
        x0c = onp.array(x0)
        dxw = ex.vec('dxWarm', 1)
        pNew = ('P_NEW',)

        class WS:
            @staticmethod
            def warm_start_increment(objective, x, p, *a, **k):
                log.append(('warm_start', onp.array(x), objective.p, p))
                return dxw
        mod.WarmStart = WS
        xs = ex.vec('xSub', 1)
        succ = ex.bool('solverSuccess')

        def sub_solver(o, x, settings, cb):
            log.append(('sub_solver', onp.array(x), o.p))
            return xs, succ

        def callback(xx, pp):
            log.append(('callback', onp.array(xx), pp, xx))
        raised, xr = None, None
        try:
            xr = mod.augmented_lagrange_solve(obj, x0, pNew, S, sub, callback=callback, sub_problem_callback='SUBCB', sub_problem_solver=sub_solver,
                                              useWarmStart=useWarmStart, updatePrecond=updatePrecond, updatePrecondBeforeWarmStart=before)
        except NameError as e:
            raised = e
        start = x0c + dxw if useWarmStart else x0c
        ex.goal('new_parameters_installed', Holds(obj.p is pNew))
        pro = [(e[0], e[3], e[2]) if e[0] == 'update_precond' else e for e in log if e[0] in ('warm_start', 'update_precond')]
        want = []
        if useWarmStart:
            if before:
                want.append(('update_precond', 'P_OLD', x0c))
            want.append(('warm_start', 'P_OLD', x0c))
        if updatePrecond:
            want.append(('update_precond', pNew, start))
        ex.goal('prologue_sequence_of_precond_updates_and_warm_start', Holds(len(pro) == len(want) and all(e[0] == w[0] and e[2] == w[1] for e, w in zip(pro, want))),
                info='expected %s' % [(w[0], w[1]) for w in want])
        for e, w in zip(pro, want):
            ex.goal('prologue_points', Eq(px.unwrap(e[1]), px.unwrap(w[2])))
        if useWarmStart:
            ws = [e for e in log if e[0] == 'warm_start'][0]
            ex.goal('warm_start_gets_new_parameters_as_argument', Holds(ws[3] is pNew))
        if iters == 0:
            ex.goal('iteration_cap_raises_instead_of_returning', Holds(raised is not None and xr is None))
        else:
            cbs = [e for e in log if e[0] == 'callback']
            ex.goal('first_callback_at_start_point_with_new_parameters', Holds(len(cbs) >= 1 and cbs[0][2] is pNew))
            ex.goal('first_callback_point', Eq(px.unwrap(cbs[0][1]), px.unwrap(start)))
            ss = [e for e in log if e[0] == 'sub_solver']
            ex.goal('sub_solver_runs_with_new_parameters_from_start_point', Holds(len(ss) == 1 and ss[0][2] is pNew))
            ex.goal('sub_solver_start_point', Eq(px.unwrap(ss[0][1]), px.unwrap(start)))
            R = obj.U('res', [xs, obj.lam, obj.kappa], 2)
            RR, tol2 = px.unwrap(NP.dot(R, R)), px.unwrap(S.tol * S.tol)
            if raised is None:
                ex.goal('return_only_if_total_residual_norm_with_current_multipliers_below_tol', Lt(RR, tol2))
                ex.goal('returned_point_reported', Holds(xr is xs and len(cbs) == 2 and cbs[1][3] is xs))
            else:
                ex.goal('unconverged_after_cap_raises_instead_of_returning', Le(tol2, RR))
                ex.goal('exception_is_NameError', Holds(isinstance(raised, NameError) and xr is None))
    return fn


@obligation(P, 'O4.prologue_epilogue', cap=600)
def o4_whole(h):
    """whole real augmented_lagrange_solve with an iteration cap of 0 and 1, all 8 combinations of useWarmStart / updatePrecond /
    updatePrecondBeforeWarmStart: parameters installed, warm start sees the old parameters, preconditioner refresh order,
    the first iteration starts from hugeVal error state, an unconverged solve raises NameError (never returns x)"""
    _o4_notes(h, 1, 1)
    h.encoded('optimism.AlSolver:augmented_lagrange_solve (whole function, max_al_iters in {0, 1})')
    h.assume_note('stub: WarmStart.warm_start_increment returns an arbitrary increment')
    for ws in (True, False):
        for up in (True, False):
            for before in ((True, False) if ws else (True,)):
                for iters in (0, 1):
                    px.run_px(h, 'whole[warm=%s,precond=%s,before=%s,iters=%d]' % (ws, up, before, iters), make_al_whole_harness(ws, up, before, iters),
                              cap=30, div_mode='goal', sqrt_mode='goal', feas_ms=150)


# =========================================================================================== O5: bound-constrained front end
def _scatter_mul(ctx, eqn, iv):
    """local JX rule for `a.at[idx].multiply(v)` (scatter-mul with concrete indices): target positions are found by binding the
    real primitive on an all-ones integer operand with a single update equal to 2"""
    import jax.numpy as jnp
    from .. import jx
    operand, idx, upd = iv
    idxc = jx._idx(idx)
    out = operand.copy().reshape(-1)
    uflat = upd.reshape(-1)
    one = jnp.ones(operand.shape, dtype=jnp.int64)
    for u in range(uflat.size):
        e = onp.ones(uflat.size, dtype=onp.int64)
        e[u] = 2
        r = onp.asarray(eqn.primitive.bind(one, idxc, jnp.asarray(e.reshape(upd.shape)), **eqn.params)).reshape(-1)
        for tpos in onp.nonzero(r != 1)[0]:
            out[tpos] = jx.s_mul(out[tpos], uflat[u])
    return out.reshape(operand.shape)


class _StubPrecondStrategy:
    """objective preconditioner strategy with a given (symbolic) diagonal"""

    def __init__(self, diag):
        self.diag = diag

    def initialize(self, x, p):
        pass

    def precond_at_attempt(self, attempt):
        d = self.diag
        return types.SimpleNamespace(diagonal=lambda: d)


def _build_bco(BCO, *a, **k):
    """construct the real BoundConstrainedObjective inside a trace the way it is constructed in real use as far as the index
    set is concerned: constrainedIndices is a CONCRETE integer array, and operations on concrete values in __init__ (e.g. sorting /
    de-duplicating the indices) run for real (jax.ensure_compile_time_eval) instead of being staged into the jaxpr"""
    import jax
    with jax.ensure_compile_time_eval():
        return BCO.BoundConstrainedObjective(*a, **k)


def _bco_case(h, with_precond):
    from ..jxh import Case
    import jax
    import jax.numpy as jnp
    from optimism import BoundConstrainedObjective as BCO
    idx = onp.array([2, 0])      # UNSORTED on purpose: get_multipliers()[i] must pair with the caller's i-th index

    def obj(x, p):
        A = jnp.array([[p[0], p[3], p[4]], [p[3], p[1], p[5]], [p[4], p[5], p[2]]])
        return 0.5 * x @ (A @ x) + p[6:9] @ x

    def F(x0, p, Kd, css, xq, lamq):
        if with_precond:
            o = _build_bco(BCO, obj, x0, p, idx, constraintStiffnessScaling=css, precondStrategy=_StubPrecondStrategy(Kd))
        else:
            o = _build_bco(BCO, obj, x0, p, idx)
        xb = o.scaling * xq
        g_scaled0 = jax.grad(lambda z: obj(o.invScaling * z, p))(o.scaling * x0)
        out = dict(lam0=o.lam, kappa0=o.kappa, scaling=o.scaling, inv=o.invScaling, c=o.constraint(xb), mult=o.get_multipliers(),
                   gradf0=jax.grad(obj)(x0, p), g_scaled0=g_scaled0, total=o.get_total_residual(xq), resid=o.get_residual(xq),
                   grad_xb=o.gradient(xb), tot_xb=o.total_residual(xb), kreset=(o.reset_kappa(), o.kappa)[1])
        # a later state: multipliers lamq (solver state), evaluation point xq in ORIGINAL coordinates
        o.lam = lamq
        out.update(mult_q=o.get_multipliers(), resid_q=o.get_residual(xq), total_q=o.get_total_residual(xq), gradf_q=jax.grad(obj)(xq, p),
                   idx_attr=jnp.asarray(o.constrainedIndices, dtype=float))
        return out
    ex = dict(x0=onp.array([0.1, -0.3, 0.2]), p=onp.array([2.0, 1.5, 3.0, 0.2, -0.1, 0.3, 0.5, -1.0, 0.7]), Kd=onp.array([2.0, 1.5, 3.0]), css=2.0, xq=onp.array([0.05, 0.2, -0.1]),
              lamq=onp.array([0.3, 0.0]))
    smp = lambda rng: [rng.normal(size=3), rng.normal(size=9), onp.abs(rng.normal(size=3)) + 0.3, abs(rng.normal()) + 0.3, rng.normal(size=3), onp.abs(rng.normal(size=2))]
    return Case(h, F, ex, sampler=smp, label='bco_precond' if with_precond else 'bco'), [2, 0]


@obligation(P, 'O5.bound_objective', cap=400)
def o5_bco(h):
    """BoundConstrainedObjective (n=3, constrainedIndices = [2, 0], UNSORTED, concrete as in real use): get_multipliers()[i] pairs with
    the caller's i-th index (total residual zero => Lagrangian stationary in original coordinates with the reported multipliers placed
    at constrainedIndices[i], reported multipliers >= 0, dofs feasible, multiplier_i * x[constrainedIndices[i]] = 0); constraint function is the scaled constrained dofs, initial
    multipliers max(grad f(x0) * invScaling, 0)[idx] >= 0 and equal to the positive part of the scaled objective's gradient,
    kappa0 = 1/4, scaling * invScaling = 1, get_multipliers / get_residual / get_total_residual plumbing; without and with
    a preconditioner strategy (symbolic positive diagonal, symbolic constraintStiffnessScaling > 0)"""
    import optimism.BoundConstrainedObjective as BCO
    CO = _co()
    h.encoded(BCO.BoundConstrainedObjective.__init__, BCO.BoundConstrainedObjective.get_multipliers, BCO.BoundConstrainedObjective.get_residual,
              BCO.BoundConstrainedObjective.get_total_residual, CO.ConstrainedObjective.__init__, CO.ConstrainedObjective.reset_kappa)
    h.bounds('n=3 unknowns, constrainedIndices = [2, 0]; objective: general quadratic (9 symbolic coefficients); x0, evaluation point: all reals; '
             'preconditioner diagonal > 0, constraintStiffnessScaling > 0: all reals')
    h.assume_note('stub: the preconditioner strategy returns a matrix object whose diagonal() is a symbolic positive vector; scipy sparse_diags in '
                  'ScaledPrecondStrategy.__init__ (and the onp.array conversion feeding it) is replaced by a no-op (it only stores the matrix for later preconditioner assembly)')
    h.outside('the assembled preconditioner matrices (ScaledPrecondStrategy.precond_at_attempt, sparse Cholesky): owned by the linear-solver properties; upper bounds (the class only supports x_i >= 0)')
    from .. import jx
    jx.OTHER['scatter-mul'] = _scatter_mul
    jx.OTHER['scatter_mul'] = _scatter_mul
    BCO.sparse_diags = lambda *a, **k: None
    BCO.onp = types.SimpleNamespace(array=lambda a: a)
    for wp in (False, True):
        c, idx = _bco_case(h, wp)

        def spec(i, o, wp=wp, idx=idx):
            Kd, css = i['Kd'], s0(i['css'])
            asm = [v_lt(0.0, css)] + [v_lt(0.0, Kd[k]) for k in range(3)]
            ats = []
            sc, inv = o['scaling'], o['inv']
            ats.append(Eq([v_mul(sc[k], inv[k]) for k in range(3)], [1.0] * 3, name='scaling_times_invScaling_is_one'))
            if not wp:
                ats.append(Eq(sc, [1.0] * 3, name='unit_scaling_without_preconditioner'))
            else:
                ats.append(Eq([v_sq(sc[1])], [Kd[1]], name='free_dof_scaling_is_sqrt_of_preconditioner_diagonal'))
                ats.append(Eq([v_mul(v_sq(v_mul(sc[k], css)), 1.0) for k in idx], [Kd[k] for k in idx], name='constrained_dof_scaling_is_sqrt_diag_over_stiffness_scaling'))
                ats.append(Le(0.0, sc, name='scaling_positive'))
            ats.append(Le(0.0, o['lam0'], name='initial_multipliers_nonnegative'))
            ats.append(Eq(o['lam0'], [v_max(v_mul(o['gradf0'][k], inv[k]), 0.0) for k in idx], name='initial_multipliers_are_positive_part_of_scaled_gradient_at_constrained_dofs'))
            ats.append(Eq(o['lam0'], [v_max(o['g_scaled0'][k], 0.0) for k in idx], name='initial_multipliers_match_gradient_of_scaled_objective'))
            ats.append(Eq(o['kappa0'], [0.25, 0.25], name='initial_penalty_is_one_quarter'))
            ats.append(Eq(o['kreset'], [0.25, 0.25], name='reset_kappa_restores_one_quarter'))
            ats.append(Eq(o['c'], [v_mul(sc[k], i['xq'][k]) for k in idx], name='constraint_is_scaled_constrained_dofs'))
            ats.append(Eq(o['mult'], [v_mul(o['lam0'][j], sc[k]) for j, k in enumerate(idx)], name='get_multipliers_unscales'))
            ats.append(Eq(o['resid'], o['grad_xb'], name='get_residual_is_gradient_at_scaled_point'))
            ats.append(Eq(o['total'], o['tot_xb'], name='get_total_residual_is_total_residual_at_scaled_point'))
            return asm, ats
        c.prove('with_precond' if wp else 'no_precond', spec, cap=150)

        def spec_pairing(i, o, wp=wp, idx=idx):
            """the property's clauses in ORIGINAL coordinates with the multipliers REPORTED by get_multipliers(): entry i belongs to
            the caller's i-th constrained dof (bound x[idx[i]] >= 0)"""
            Kd, css, xq, lamq = i['Kd'], s0(i['css']), i['xq'], i['lamq']
            asm = [v_lt(0.0, css)] + [v_lt(0.0, Kd[k]) for k in range(3)]
            inv, mult, gf = o['inv'], o['mult_q'], o['gradf_q']
            tq = o['total_q']
            kkt = [v_eq(tq[j], 0.0) for j in range(5)]
            # Lagrangian gradient in original coordinates with get_multipliers()[i] placed at constrainedIndices[i]
            lag = [gf[k] for k in range(3)]
            for j, k in enumerate(idx):
                lag[k] = v_sub(lag[k], mult[j])
            ats = [Eq(o['idx_attr'], [float(k) for k in idx], name='constrainedIndices_attribute_is_the_callers_order')]
            ats.append(Eq(lag, [0.0] * 3, when=v_and(*kkt), name='zero_total_residual_implies_lagrangian_stationary_with_reported_multipliers_at_callers_indices'))
            for j, k in enumerate(idx):
                ats.append(Le(0.0, mult[j], when=v_and(*kkt), name='zero_total_residual_implies_reported_multiplier_%d_nonnegative' % j))
                ats.append(Le(0.0, xq[k], when=v_and(*kkt), name='zero_total_residual_implies_callers_dof_%d_feasible' % j))
                ats.append(Eq(v_mul(mult[j], xq[k]), 0.0, when=v_and(*kkt), name='zero_total_residual_implies_complementarity_of_reported_multiplier_%d_with_callers_dof' % j))
            # without any KKT hypothesis: residual = invScaling * (grad f - E mu) with mu the sub-problem multiplier, paired by the caller's order
            return asm, ats
        c.prove('pairing_with_precond' if wp else 'pairing_no_precond', spec_pairing, cap=150, order=('core', 'nlsat'))


class BoundDriverObjective(_PublicState):
    """public state of a BoundConstrainedObjective for the driver: p, scaling / invScaling (symbolic), lam, kappa,
    constraintKappa, constrainedIndices; reset_kappa / update_precond are logged"""

    def __init__(self, ex, n, log):
        self.p = 'P_OLD'
        self.scaling = ex.vec('scaling', n)
        self.invScaling = ex.vec('invScaling', n)
        self.log = log
        self.constrainedIndices = onp.arange(n)
        self.lam = ex.vec('lam', n)
        self.kappa = ex.vec('kappa', n)
        self.constraintKappa = ex.vec('constraintKappa', n)
        self.kappa_before = onp.array(self.kappa)

    def update_precond(self, x):
        self.log.append(('update_precond', onp.array(x), self.p))


def make_bound_driver_harness(useWarmStart, updatePrecond, n=2):
    def fn(ex):
        log = []
        seen = {}
        dx = ex.vec('dxWarm', n)
        xs = ex.vec('xSolver', n)

        class WS:
            @staticmethod
            def warm_start_increment(objective, x, p, *a, **k):
                log.append(('warm_start', onp.array(x), objective.p, p))
                return dx

        class AL:
            @staticmethod
            def augmented_lagrange_solve(objective, x, p, alSettings, subSettings, **kw):
                log.append(('al_solve', onp.array(x), objective.p))
                seen.update(obj=objective, p=p, alS=alSettings, subS=subSettings, kw=dict(kw))
                return xs
        from optimism import EquationSolver as ES
        mod = px.load_module(REL_BCS, shims={'optimism.AlSolver': AL, 'optimism.WarmStart': WS, 'optimism.EquationSolver': ES})
        obj = BoundDriverObjective(ex, n, log)
        pNew = ('P_NEW',)
        x0 = ex.vec('x0', n)
        x0c = onp.array(x0)

        def subcb(xx, oo):
            log.append(('sub_problem_callback', onp.array(xx), oo.p, oo))
        solver = lambda *a, **k: None
        xr = mod.bound_constrained_solve(obj, x0, pNew, 'ALSETTINGS', 'SUBSETTINGS', callback='CB', sub_problem_callback=subcb,
                                         useWarmStart=useWarmStart, updatePrecond=updatePrecond, sub_problem_solver=solver)
        xb0 = obj.scaling * x0c
        start = xb0 + dx if useWarmStart else xb0
        want = [('reset_kappa', 'P_OLD', None)]
        if useWarmStart:
            if updatePrecond:
                want.append(('update_precond', 'P_OLD', xb0))
            want.append(('warm_start', 'P_OLD', xb0))
        want.append(('sub_problem_callback', pNew, xb0))
        if updatePrecond:
            want.append(('update_precond', pNew, start))
        want.append(('al_solve', pNew, start))
        ex.goal('call_sequence_and_parameter_state', Holds(len(log) == len(want) and all(e[0] == w[0] and e[2] == w[1] for e, w in zip(log, want))),
                info='expected %s got %s' % ([(w[0], w[1]) for w in want], [(e[0], e[2]) for e in log]))
        for e, w in zip(log, want):
            if w[2] is not None:
                ex.goal('points_passed_along_the_call_sequence', Eq(px.unwrap(e[1]), px.unwrap(w[2])), info=w[0])
        ex.goal('penalties_reset_before_anything_else', Holds(log[0][0] == 'reset_kappa'))
        ex.goal('penalties_are_the_construction_penalties_at_al_entry', Eq(px.unwrap(onp.asarray(obj.kappa)), px.unwrap(obj.constraintKappa)))
        ex.goal('new_parameters_installed_before_al_solve', Holds(obj.p is pNew and [e for e in log if e[0] == 'al_solve'][0][2] is pNew))
        kw = seen['kw']
        ex.goal('al_solve_gets_objective_parameters_settings_callbacks_and_solver', Holds(seen['obj'] is obj and seen['p'] is pNew and seen['alS'] == 'ALSETTINGS' and seen['subS'] == 'SUBSETTINGS'
                                                                                        and kw.get('callback') == 'CB' and kw.get('sub_problem_callback') is subcb and kw.get('sub_problem_solver') is solver))
        ex.goal('al_solve_does_not_warm_start_or_refresh_again', Holds(kw.get('useWarmStart') is False and kw.get('updatePrecond') is False))
        ex.goal('result_is_unscaled_al_output', Eq(px.unwrap(xr), px.unwrap(obj.invScaling * xs)))
        ex.goal('callers_start_vector_not_modified', Eq(px.unwrap(x0), px.unwrap(x0c)))
    return fn


@obligation(P, 'O5.bound_constrained_solve_driver', cap=300)
def o5_driver(h):
    """bound_constrained_solve: penalties reset first; objective.p is the new parameter set when augmented_lagrange_solve is entered
    (all four flag combinations); warm start and its preconditioner refresh see the old parameters; start = scaling*x0 (+ increment);
    the AL solve is told not to warm start / refresh again; the result is invScaling * (AL output); the caller's x0 is not modified"""
    h.encoded('optimism.BoundConstrainedSolver:bound_constrained_solve (real source)')
    h.bounds('n=2 unknowns; symbolic start, scaling vectors, warm-start increment and AL output; all 4 combinations of useWarmStart/updatePrecond')
    h.assume_note('stubs: WarmStart.warm_start_increment returns an arbitrary vector; AlSolver.augmented_lagrange_solve returns an arbitrary point (its behaviour is O4)')
    h.outside('whether the warm-started point is feasible; the quality of the warm-start increment')
    for ws in (True, False):
        for up in (True, False):
            px.run_px(h, 'driver[warm=%s,precond=%s]' % (ws, up), make_bound_driver_harness(ws, up), cap=20)


# =========================================================================================== O6: bounded convex (real loop, real objective)
_O6 = {}


def _o6_fns():
    """jaxprs (and jitted versions for replays) of the REAL BoundConstrainedObjective methods for f(x) = a x^2/2 + b x with the
    bound x >= 0, as pure functions of (x, p=(a,b), lam, kappa); the object is constructed inside the trace"""
    if _O6:
        return _O6
    import jax
    import jax.numpy as jnp
    from optimism import BoundConstrainedObjective as BCO
    idx = onp.array([0])

    def objf(x, p):
        return 0.5 * p[0] * x[0] * x[0] + p[1] * x[0]

    def build(x0, p, lam=None, kappa=None):
        o = _build_bco(BCO, objf, x0, p, idx)
        if lam is not None:
            o.lam, o.kappa = lam, kappa
        return o
    fns = dict(
        init=lambda x0, p: (lambda o: (o.lam, o.kappa, o.scaling, o.invScaling, o.constraintKappa))(build(x0, p)),
        gradient=lambda x, p, lam, kappa: build(x, p, lam, kappa).gradient(x),
        constraint=lambda x, p, lam, kappa: build(x, p, lam, kappa).constraint(x),
        ncp=lambda x, p, lam, kappa: build(x, p, lam, kappa).ncp(x),
        total_residual=lambda x, p, lam, kappa: build(x, p, lam, kappa).total_residual(x),
    )
    one = jnp.ones(1)
    for k, f in fns.items():
        args = (one, jnp.ones(2)) if k == 'init' else (one, jnp.ones(2), one, one)
        _O6[k] = (jax.make_jaxpr(f)(*args), jax.jit(f))
    _O6['__methods'] = (BCO.BoundConstrainedObjective.__init__,)
    return _O6


class RealBoundObjective(_PublicState):
    """PX-side handle on the real BoundConstrainedObjective: lam / kappa / p are attributes (as on the real class); every
    method evaluates the jaxpr of the real method on the current symbolic state (JX inside PX), or the real jitted method
    on floats in a replay"""

    def __init__(self, ex, p, x0):
        from .. import jx
        self.ex, self.F = ex, _o6_fns()
        self.ctx = jx.Ctx() if ex.symbolic else None
        self.nside = 0
        self.mark_total = 0
        self.p = p
        lam0, kap0, sc, inv, ck = self._call('init', x0, p)
        self.lam, self.kappa = lam0, kap0
        self.scaling, self.invScaling = sc, inv
        self.constraintKappa = onp.array(kap0)
        self.trace = []

    def _call(self, name, *args):
        from .. import jx
        cj, jit = self.F[name]
        ex = self.ex
        if not ex.symbolic:
            import jax.numpy as jnp
            out = jit(*[jnp.asarray(onp.asarray(a, dtype=float)) for a in args])
            return [onp.asarray(o, dtype=float) for o in out] if isinstance(out, (tuple, list)) else onp.asarray(out, dtype=float)
        zargs = [px.unwrap(onp.asarray(a, dtype=object)) for a in args]
        outs = jx.eval_jaxpr(self.ctx, cj.jaxpr, cj.consts, *zargs)
        for f in self.ctx.side[self.nside:]:
            ex.pc.append(f)
        self.nside = len(self.ctx.side)
        for g, d in self.ctx.denoms:
            ex._defined_goal('division_defined', (d != 0) if g is None else z3.Implies(g, d != 0), 'zero denominator in the real objective')
        del self.ctx.denoms[:]
        res = []
        for o in outs:
            w = onp.empty(o.shape, dtype=object)
            for i, v in enumerate(o.reshape(-1)):
                w.reshape(-1)[i] = px.wrap(v) if sym.isz(v) else v
            res.append(w)
        return res if len(res) > 1 else res[0]

    def gradient(self, x):
        return self._call('gradient', x, self.p, self.lam, self.kappa)

    def constraint(self, x):
        return self._call('constraint', x, self.p, self.lam, self.kappa)

    def ncp(self, x):
        return self._call('ncp', x, self.p, self.lam, self.kappa)

    def total_residual(self, x):
        self.mark_total = len(self.ex.pc)     # the path-condition entries from here on define this residual and what is tested on it
        return self._call('total_residual', x, self.p, self.lam, self.kappa)

    def reset_kappa(self):
        self.kappa = onp.array(self.constraintKappa)

    def update_precond(self, x):
        self.trace.append('update_precond')

    def apply_precond(self, vx):
        return vx

    def check_stability(self, x):
        pass


def make_convex_harness(max_iters, with_failure):
    def fn(ex):
        from optimism import EquationSolver as ES
        al = px.load_module(REL_AL)
        al.norm = norm_model
        bcs = px.load_module(REL_BCS, shims={'optimism.AlSolver': al, 'optimism.EquationSolver': ES})
        a, b, x0 = ex.real('a'), ex.real('b'), ex.vec('x0', 1)
        for c in (a >= 0.1, a <= 10.0, b >= -100.0, b <= 100.0, x0[0] >= -100.0, x0[0] <= 100.0):
            ex.assume(c)
        p = onp.array([a, b], dtype=object if ex.symbolic else float)
        obj = RealBoundObjective(ex, p, x0)
        tol, stol = ex.real('tol'), ex.real('sub_tol')
        for c in (tol > 0, tol <= 1.0, stol > 0, stol <= 1.0):
            ex.assume(c)
        alS = al.get_settings(max_al_iters=max_iters, tol=tol)
        subS = ES.get_settings(tol=stol)
        lam_init = onp.array(obj.lam)
        for i in range(1):
            ex.goal('initial_multiplier_nonnegative', Le(0.0, px.unwrap(lam_init[i])))
        hist = []

        def sub_solver(o, x, settings, cb):
            # contract of the sub-problem solver (C01): success flag => |grad AL(x')| < settings.tol
            xn = ex.vec('xSub', 1)
            ok = bool(ex.bool('solverSuccess')) if with_failure else True
            if ok:
                g = o.gradient(xn)
                ex.assume(g[0] < settings.tol)
                ex.assume(g[0] > -settings.tol)
            return xn, ok

        def callback(xx, pp):
            hist.append((onp.array(obj.lam), onp.array(obj.kappa)))
        raised, xr = None, None
        try:
            xr = bcs.bound_constrained_solve(obj, x0, p, alS, subS, callback=callback, sub_problem_callback=None, useWarmStart=False, updatePrecond=False,
                                             sub_problem_solver=sub_solver)
        except NameError as e:
            raised = e
        for k, (lm, kp) in enumerate(hist):
            ex.goal('multipliers_nonnegative_at_every_callback', Le(0.0, px.unwrap(lm[0])))
            if k:
                ex.goal('penalty_never_decreases_between_callbacks', Le(px.unwrap(hist[k - 1][1][0]), px.unwrap(kp[0])))
        if raised is None:
            x = xr[0]
            lam = obj.lam[0]
            tail = (list(obj.ctx.side) + list(ex.pc[obj.mark_total:])) if ex.symbolic else []
            k0, kcur = float(obj.constraintKappa[0]), obj.kappa[0]
            zt = px.unwrap(tol)
            # constrained minimiser of a x^2/2 + b x over x >= 0: a x* = max(-b, 0); multiplier lam* = max(b, 0)
            axs = sym.v_max(sym.v_sub(0.0, px.unwrap(b)), 0.0)
            lstar = sym.v_max(px.unwrap(b), 0.0)
            # cut facts, each proved under the FULL path condition (the termination gate of the real loop on the real residual)
            R = obj.total_residual(xr)
            cuts = [('gate_gradient_entry_below_tol', Lt(sym.v_abs(px.unwrap(R[0])), zt, scale=zt)),
                    ('gate_fb_entry_below_tol', Lt(sym.v_abs(px.unwrap(R[1])), zt, scale=zt)),
                    ('returned_multiplier_nonnegative', Le(0.0, px.unwrap(lam))),
                    ('returned_point_feasible_within_tol_over_kappa0', Le(px.unwrap(-1.0 * tol), px.unwrap(k0 * x), scale=zt)),
                    ('complementarity_min_kappa0_x_lam_within_2tol', Le(sym.v_min(px.unwrap(k0 * x), px.unwrap(lam)), px.unwrap(2.0 * tol), scale=zt)),
                    ('penalty_within_64_times_initial', Holds(sym.v_and(sym.v_le(k0, px.unwrap(kcur)), sym.v_le(px.unwrap(kcur), 64.0 * k0))))]
            for nm, at in cuts:
                if ex.symbolic and nm != 'returned_multiplier_nonnegative':
                    # hypotheses: the sqrt definitions of the objective evaluations + the tail of the path condition (last total_residual, its norm, the
                    # `errorNorm < tol` decision) + multiplier sign; a subset of the path condition, so the cut is sound
                    saved = ex.pc
                    ex.pc = tail + [px._z(tol > 0), z3.Not(cuts[2][1].neg(0))]
                    try:
                        ex.goal(nm, at)
                        ex.goals[-1]['pc_full'] = list(saved)
                    finally:
                        ex.pc = saved
                else:
                    ex.goal(nm, at)
            # conclusions from the cut facts alone (+ the parameter box): the iteration history is irrelevant to them
            if ex.symbolic:
                hyps = [px._z(c) for c in (a >= 0.1, a <= 10.0, tol > 0)]
                for nm, at in cuts:
                    if nm != 'gate_fb_entry_below_tol':
                        hyps.append(z3.Not(at.neg(0)))
                saved = ex.pc
                ex.pc = hyps
            try:
                ex.goal('returned_point_is_constrained_minimiser_within_80_tol_over_a', Le(sym.v_abs(sym.v_sub(sym.v_mul(px.unwrap(a), px.unwrap(x)), axs)), px.unwrap(80.0 * tol), scale=zt))
                if ex.symbolic:
                    ex.goals[-1]['pc_full'] = list(saved)
                ex.goal('returned_multiplier_within_210_tol_of_kkt_multiplier', Le(sym.v_abs(sym.v_sub(px.unwrap(lam), lstar)), px.unwrap(210.0 * tol), scale=zt))
                if ex.symbolic:
                    ex.goals[-1]['pc_full'] = list(saved)
            finally:
                if ex.symbolic:
                    ex.pc = saved
        else:
            ex.goal('unwinding_bound_reached_raises', Holds(isinstance(raised, NameError)))
    return fn


def _o6_notes(h, iters, with_failure):
    import optimism.BoundConstrainedObjective as BCO
    CO = _co()
    h.encoded('optimism.BoundConstrainedSolver:bound_constrained_solve (real source)', 'optimism.AlSolver:augmented_lagrange_solve (whole real function)',
              'optimism.AlSolver:solve_sub_step', BCO.BoundConstrainedObjective.__init__, CO.ConstrainedObjective.__init__, CO.ConstrainedObjective.gradient,
              CO.ConstrainedObjective.ncp, CO.ConstrainedObjective.constraint, CO.ConstrainedObjective.total_residual, CO.fischer_burmeister,
              CO.ConstrainedObjective.create_augmented_lagrangian)
    h.bounds('n=1, one bound x >= 0; f = a x^2/2 + b x with 1/10 <= a <= 10, |b| <= 100, |x0| <= 100; default AL settings (tol 1e-8, penalty_scaling 4, kappa0 1/4), '
             'default sub-solver settings; at most %d outer iterations unrolled (the real loop raises NameError at the bound: then nothing is claimed about the result)' % iters)
    h.assume_note('the sub-problem solver is replaced by its contract: returns SOME point with |grad AL| < (ramped) sub tolerance and flag True'
                  + ('; or any point with flag False' if with_failure else ''),
                  'the objective methods are the jaxprs of the real BoundConstrainedObjective/ConstrainedObjective methods evaluated on the symbolic state (JX inside PX); update_precond is a no-op')
    h.outside('that the loop terminates within the bound (with the default tolerances the first three sub-solves are only required to reach 100^(1-it/3) * 1e-8, so an early return is possible but not forced); '
              'n >= 2; non-quadratic objectives')


@obligation(P, 'O6.bounded_convex[iters=3]', cap=900)
def o6_3(h):
    """real bound_constrained_solve + real augmented_lagrange_solve + real objective jaxprs, 3 outer iterations unrolled (the
    design's unwinding bound): every return delivers the constrained minimiser (a|x - x*| <= 80 tol) and the KKT multiplier
    (within 210 tol); lam >= 0 at every callback, penalties non-decreasing"""
    _o6_notes(h, 3, False)
    px.run_px(h, 'convex', make_convex_harness(3, False), cap=60, div_mode='goal', sqrt_mode='goal', feas_ms=300,
              expect_goals=['returned_point_is_constrained_minimiser_within_80_tol_over_a', 'returned_multiplier_within_210_tol_of_kkt_multiplier'])


@obligation(P, 'O6.bounded_convex_with_solver_failures[iters=3]', tiers=('thorough',), cap=900)
def o6_3f(h):
    """3 outer iterations; the sub-solver may also report failure and return an arbitrary point"""
    _o6_notes(h, 3, True)
    px.run_px(h, 'convex', make_convex_harness(3, True), cap=60, div_mode='goal', sqrt_mode='goal', feas_ms=300,
              expect_goals=['returned_point_is_constrained_minimiser_within_80_tol_over_a', 'returned_multiplier_within_210_tol_of_kkt_multiplier'])



# =========================================================================================== O7: derivative closures (also C19)
def _o7_instance():
    import jax.numpy as jnp

    def obj(x, p):
        q, c = p[0], p[1]
        return (0.5 * (c[0] * x[0] * x[0] + c[1] * x[1] * x[1]) + c[2] * x[0] * x[1] + c[3] * x[0] + c[4] * x[1] + c[5] * x[0] * x[0] * x[0]
                + q[0] * x[1] + q[1] * q[0] * x[0])

    def con(x, p):
        q = p[0]
        return jnp.array([x[0] - q[0], q[1] - x[0] * x[1]])
    return obj, con


def _with_attr(o, name, fn):
    """call fn(value) with attribute `name` of the object replaced by value (restored afterwards): lets jax differentiate the
    object's own PUBLIC methods with respect to a piece of its state"""
    def g(v):
        old = getattr(o, name)
        setattr(o, name, v)
        try:
            return fn()
        finally:
            setattr(o, name, old)
    return g


@obligation(P, 'O7.derivative_closures_at_current_penalty', cap=600)
def o7_closures(h):
    """[also serves C19: "the warm-start increment is the exact linear predictor"] every derivative closure of the real
    ConstrainedObjective equals the jax.jvp / jax.grad of the object's own public value / gradient / constrained_residual at the
    CURRENT state (lam, kappa) — for all values including kappa != constraintKappa: jacobian_p_vec(x, dp) = d/deps gradient(x; p[0]
    + eps dp) (the right-hand side of WarmStart.warm_start_increment), hessian_vec and hessian (its operator), jacobian_l_vec,
    gradient_p, gradient_l, constrained_jacobian_vec, constrained_jacobian_p_vec; same on a BoundConstrainedObjective"""
    from ..jxh import Case
    import jax
    import jax.numpy as jnp
    CO = _co()
    from optimism.Objective import Params, param_index_update
    import optimism.BoundConstrainedObjective as BCO
    C = CO.ConstrainedObjective
    h.encoded(C.__init__, C.create_augmented_lagrangian, C.jacobian_p_vec, C.hessian_vec, C.hessian, C.jacobian_l_vec, C.gradient_p, C.gradient_l, C.gradient, C.value,
              C.constrained_residual, C.constrained_jacobian_vec, C.constrained_jacobian_p_vec, param_index_update, BCO.BoundConstrainedObjective.__init__)
    h.bounds('n=2 unknowns, m=2 constraints, constraints x0 - q0 >= 0 and q1 - x0*x1 >= 0 with q = p[0] (the parameter slot the warm start differentiates), objective: quadratic + cubic + '
             'terms in q (6 + 2 symbolic coefficients); x, q, lam, directions dp, vx, vl, vxl: all reals; kappa > 0 and constraintKappa > 0 INDEPENDENT symbolic vectors '
             '(object constructed with constraintKappa, then .kappa assigned); BoundConstrainedObjective: n=3, bounds on dofs 2 and 0, kappa symbolic (construction value 1/4)')
    h.assume_note('oracle: jax.jvp / jax.grad of the object\'s own public value(), gradient(), constrained_residual() with the attribute p (slot 0 replaced through the real param_index_update), lam '
                  'or the argument varied — no second implementation of the augmented Lagrangian; JAX differentiation is trusted',
                  'the penalty switch l >= k c is differentiated branch-wise by JAX on both sides: the identities are claimed for all states, at the switch both sides use the same branch')
    missing = [nm for nm, attr in (('jacobian_p2_vec', 'jac_xp2_vec'), ('vec_hessian', 'vec_hess'), ('gradient_and_tangent', 'grad_and_tangent'), ('vec_jacobian_p0', 'vec_jac_xp0'))
               if not hasattr(C(lambda x, p: 0.0 * x[0], lambda x, p: x, jnp.zeros(1), Params(jnp.zeros(1)), jnp.zeros(1), jnp.ones(1)), attr)]
    h.outside('second derivatives AT the switch (the penalty is C1 only); methods inherited from Objective whose closures ConstrainedObjective.__init__ never creates (it does not call '
              'Objective.__init__): %s raise AttributeError on a ConstrainedObjective, so WarmStart.warm_start_increment(index=2) is unavailable for constrained objectives' % ', '.join(missing))
    obj, con = _o7_instance()

    def F(x, q, c, lam, kappa, ck, dp, vx, vl, vxl):
        p = Params(q, c)
        o = C(obj, con, x, p, lam, ck)
        o.kappa = kappa
        xl = jnp.hstack((x, lam))
        out = {}
        g_of_q = _with_attr(o, 'p', lambda: o.gradient(x))
        out['jpv'] = (o.jacobian_p_vec(x, dp), jax.jvp(lambda qq: g_of_q(param_index_update(p, 0, qq)), (q,), (dp,))[1])
        out['hv'] = (o.hessian_vec(x, vx), jax.jvp(lambda z: o.gradient(z), (x,), (vx,))[1])
        out['Hv'] = (o.hessian(x) @ vx, jax.jvp(lambda z: o.gradient(z), (x,), (vx,))[1])
        g_of_l = _with_attr(o, 'lam', lambda: o.gradient(x))
        out['jlv'] = (o.jacobian_l_vec(x, vl), jax.jvp(g_of_l, (lam,), (vl,))[1])
        v_of_q = _with_attr(o, 'p', lambda: o.value(x))
        out['gp'] = (o.gradient_p(x)[0], jax.grad(lambda qq: v_of_q(param_index_update(p, 0, qq)))(q))
        v_of_l = _with_attr(o, 'lam', lambda: o.value(x))
        out['gl'] = (o.gradient_l(x), jax.grad(v_of_l)(lam))
        out['cjv'] = (o.constrained_jacobian_vec(xl, vxl), jax.jvp(lambda z: o.constrained_residual(z), (xl,), (vxl,))[1])
        r_of_q = _with_attr(o, 'p', lambda: o.constrained_residual(xl))
        out['cjp'] = (o.constrained_jacobian_p_vec(xl, dp), jax.jvp(lambda qq: r_of_q(param_index_update(p, 0, qq)), (q,), (dp,))[1])
        return out
    ex = dict(x=onp.array([0.3, -0.2]), q=onp.array([0.1, 0.7]), c=onp.array([1.0, 2.0, 0.3, -0.4, 0.5, 0.2]), lam=onp.array([0.2, 0.1]), kappa=onp.array([4.0, 2.5]),
              ck=onp.array([1.0, 0.5]), dp=onp.array([0.3, -0.6]), vx=onp.array([0.5, 0.25]), vl=onp.array([-0.2, 0.4]), vxl=onp.array([0.1, 0.2, -0.3, 0.4]))
    smp = lambda rng: [rng.normal(size=2), rng.normal(size=2), rng.normal(size=6), onp.abs(rng.normal(size=2)), onp.abs(rng.normal(size=2)) + 0.2, onp.abs(rng.normal(size=2)) + 0.2,
                       rng.normal(size=2), rng.normal(size=2), rng.normal(size=2), rng.normal(size=4)]
    c1 = Case(h, F, ex, sampler=smp, label='closures')
    names = dict(jpv='jacobian_p_vec_is_directional_derivative_of_gradient_wrt_p0_at_current_kappa', hv='hessian_vec_is_jvp_of_gradient_at_current_kappa',
                 Hv='hessian_times_vector_is_jvp_of_gradient_at_current_kappa', jlv='jacobian_l_vec_is_derivative_of_gradient_wrt_lam',
                 gp='gradient_p_slot0_is_gradient_of_value_wrt_p0', gl='gradient_l_is_gradient_of_value_wrt_lam',
                 cjv='constrained_jacobian_vec_is_jvp_of_constrained_residual', cjp='constrained_jacobian_p_vec_is_derivative_of_constrained_residual_wrt_p0')

    def spec(i, o):
        asm = [v_lt(0.0, i['kappa'][k]) for k in range(2)] + [v_lt(0.0, i['ck'][k]) for k in range(2)]
        return asm, [Eq(o[k][0], o[k][1], name=names[k]) for k in ('jpv', 'hv', 'Hv', 'jlv', 'gp', 'gl', 'cjv', 'cjp')]
    c1.prove('constrained', spec, cap=120, order=('core', 'nlsat'))

    # ---- BoundConstrainedObjective (inherits the closures; scaled objective, construction penalty 1/4)
    idx = onp.array([2, 0])      # unsorted, concrete

    def objb(x, p):
        q, c = p[0], p[1]
        A = jnp.array([[c[0], c[3], c[4]], [c[3], c[1], c[5]], [c[4], c[5], c[2]]])
        return 0.5 * x @ (A @ x) + q @ x + q[0] * x[1] * x[2]

    def FB(x0, q, c, lam, kappa, dp, vx):
        p = Params(q, c)
        o = _build_bco(BCO, objb, x0, p, idx)
        o.lam, o.kappa = lam, kappa
        xb = o.scaling * x0
        g_of_q = _with_attr(o, 'p', lambda: o.gradient(xb))
        return dict(jpv=(o.jacobian_p_vec(xb, dp), jax.jvp(lambda qq: g_of_q(param_index_update(p, 0, qq)), (q,), (dp,))[1]),
                    hv=(o.hessian_vec(xb, vx), jax.jvp(lambda z: o.gradient(z), (xb,), (vx,))[1]))
    exb = dict(x0=onp.array([0.1, -0.3, 0.2]), q=onp.array([0.5, -1.0, 0.7]), c=onp.array([2.0, 1.5, 3.0, 0.2, -0.1, 0.3]), lam=onp.array([0.2, 0.0]), kappa=onp.array([4.0, 1.0]),
               dp=onp.array([0.3, -0.6, 0.1]), vx=onp.array([0.5, 0.25, -1.0]))
    smpb = lambda rng: [rng.normal(size=3), rng.normal(size=3), rng.normal(size=6), onp.abs(rng.normal(size=2)), onp.abs(rng.normal(size=2)) + 0.2, rng.normal(size=3), rng.normal(size=3)]
    c2 = Case(h, FB, exb, sampler=smpb, label='closures_bound')
    c2.prove('bound', lambda i, o: ([v_lt(0.0, i['kappa'][k]) for k in range(2)],
                                    [Eq(o['jpv'][0], o['jpv'][1], name=names['jpv']), Eq(o['hv'][0], o['hv'][1], name=names['hv'])]), cap=120)


DESIGNED_NOT_REGISTERED = [
    ('O1.total_residual_instance[bilinear constraint, monolithic]',
     'norm(total_residual) < tol => per-constraint KKT bounds as ONE query on the instance with the bilinear constraint and the cubic objective: unknown at 120 s '
     'per goal (core and nlsat) even with the gradient entries named; registered instead as the exact wiring identities on that instance (O1.total_residual_wiring) + '
     'the norm argument on the real fischer_burmeister (O1.norm_to_components) in both tiers, and as a monolithic query on the affine/quadratic instance in the thorough tier (170 s)'),
    ('O2.kappa_monotone_only_if_penalty_scaling_ge_1',
     'the converse direction (penalty_scaling < 1 admits a decrease) is an existence statement; registered: for penalty_scaling >= 1 and kappa > 0 no penalty decreases, '
     'and the exact growth rule kappa_i <- penalty_scaling*kappa_i iff poor progress and solver success'),
    ('O4.al_iteration[n=2,m=2] for it in {1, 2, 7} and O4.lam_nonnegative_in_newton_only_mode',
     'n=2/m=2 is registered for it in {0, 3} only (6 shards each, ~1-5 CPU-min per shard; the other indices differ by the tolerance-ramp constant only and are covered for n=m=1); '
     'in use_newton_only mode the multipliers after an accepted second-order trial are lam + dl with an arbitrary (stubbed) dl, so lam >= 0 at the end of the iteration '
     'is not claimed there (the design restricts it to use_newton_only=False); that mode also never returns (goal never_returns_in_newton_only_mode)'),
    ('O6.bounded_convex[iters>=4]',
     'with the default settings the iteration with index 3 enters the second-order update: the real linear_update drives scipy GMRES through LinearOperator callbacks and cannot run on '
     'proxies; with it stubbed the setting is O4\'s. Termination within the bound is not forced by the sub-solver contract (tolerance ramp 100^(1-it/3) on the first three sub-solves), '
     'so the registered claim is: every return within 3 unrolled iterations is the constrained minimiser / KKT multiplier up to 80 / 210 tol; the NameError exit at the bound carries no claim'),
]


@obligation(P, 'O8.settings_constructor', cap=300)
def o8_settings(h):
    """AlSolver.get_settings puts every keyword into the Settings field of the same name (the solver reads fields by name)"""
    from .c01 import make_generic_settings_harness
    h.encoded('optimism.AlSolver:get_settings', 'optimism.AlSolver:Settings')
    h.bounds('every keyword symbolic (reals, integers, Booleans)')
    px.run_px(h, 'settings', make_generic_settings_harness('optimism/AlSolver.py'), cap=20)
