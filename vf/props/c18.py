"""C18 — smoothed min/max/abs, friction regularisation, ramp, segment parameter (JX, all reals)."""
import numpy as onp
import jax
import jax.numpy as jnp

from ..core import obligation
from ..jxh import Case
from ..sym import v_eq as sym_eq
from ..sym import Le, Lt, Eq, Holds, v_min, v_max, v_abs, v_lt, v_le, v_and, v_or, v_not, v_sub, v_add, v_mul, v_sq, v_dot

P = 'C18'
SAFE = 1e-14


def _mods():
    from optimism import SmoothFunctions as SF
    from optimism.contact import Friction, MortarContact, EdgeCpp
    return SF, Friction, MortarContact, EdgeCpp


def s0(a):
    return a[()] if hasattr(a, 'shape') and a.shape == () else a


@obligation(P, 'O1.min_max_abs_bounds', cap=240)
def o1(h):
    """smooth min/max/abs: one-sided, within eps/4, exact outside the band, symmetric — all reals, all eps"""
    SF = _mods()[0]
    h.encoded(SF.min_base, SF.min, SF.max, SF.abs)
    h.bounds('x, y: all reals; eps: all reals > safeTol=1e-14 (main case), 0 < eps <= 1e-14 and eps <= 0 as separate cases')
    ex = dict(x=0.3, y=0.1, eps=0.5)
    smp = lambda rng: [rng.normal(), rng.normal(), abs(rng.normal()) + 0.01]

    c = Case(h, lambda x, y, eps: SF.min(x, y, eps), ex, sampler=smp, label='min')

    def spec(i, o):
        x, y, e, m = s0(i['x']), s0(i['y']), s0(i['eps']), s0(o)
        mn = v_min(x, y)
        band = v_lt(v_abs(v_sub(x, y)), e)
        return [v_lt(SAFE, e)], [
            Le(m, mn, name='never_exceeds_min', scale=e),
            Le(v_sub(mn, m), v_mul(0.25, e), name='within_quarter_eps', scale=e),
            Eq(m, mn, when=v_not(band), name='exact_outside_band'),
            Lt(m, mn, when=band, name='strictly_below_inside_band', scale=0.0),
        ]
    c.prove('min', spec)

    def spec_tiny(i, o):
        x, y, e, m = s0(i['x']), s0(i['y']), s0(i['eps']), s0(o)
        mn = v_min(x, y)
        return [v_le(e, SAFE)], [
            Le(m, mn, name='never_exceeds_min'),
            Le(v_sub(mn, m), 0.25 * SAFE, name='within_quarter_safeTol'),
            Eq(m, mn, when=v_or(v_le(e, 0.0), v_le(e, v_abs(v_sub(x, y)))), name='exact_outside_band'),
        ]
    c.prove('min_tiny_eps', spec_tiny)

    c2 = Case(h, lambda x, y, eps: (SF.min(x, y, eps), SF.min(y, x, eps)), ex, sampler=smp, label='min_sym')
    c2.prove('min_symmetric', lambda i, o: ([], Eq(s0(o[0]), s0(o[1]))))

    cm = Case(h, lambda x, y, eps: SF.max(x, y, eps), ex, sampler=smp, label='max')

    def spec_max(i, o):
        x, y, e, m = s0(i['x']), s0(i['y']), s0(i['eps']), s0(o)
        mx = v_max(x, y)
        band = v_lt(v_abs(v_sub(x, y)), e)
        return [v_lt(SAFE, e)], [
            Le(mx, m, name='never_below_max', scale=e),
            Le(v_sub(m, mx), v_mul(0.25, e), name='within_quarter_eps', scale=e),
            Eq(m, mx, when=v_not(band), name='exact_outside_band'),
        ]
    cm.prove('max', spec_max)

    ca = Case(h, lambda x, eps: SF.abs(x, eps), dict(x=0.3, eps=0.5), sampler=lambda rng: [rng.normal(), abs(rng.normal()) + 0.01], label='abs')

    def spec_abs(i, o):
        x, e, m = s0(i['x']), s0(i['eps']), s0(o)
        ab = v_abs(x)
        band = v_lt(v_abs(v_mul(2.0, x)), e)
        return [v_lt(SAFE, e)], [
            Le(ab, m, name='never_below_abs', scale=e),
            Le(v_sub(m, ab), v_mul(0.25, e), name='within_quarter_eps', scale=e),
            Eq(m, ab, when=v_not(band), name='exact_outside_band'),
        ]
    ca.prove('abs', spec_abs)


@obligation(P, 'O2.friction', cap=240)
def o2(h):
    """regularised friction potential: 0 <= E <= mu|s|, Coulomb minus sReg/2 outside the switch radius, midpoint convex"""
    SF, Friction, _, _ = _mods()
    from optimism import Math
    h.encoded(Friction.compute_friction_energy_from_perp_slip, Math.safe_sqrt)
    h.bounds('slip: all of R^2 (and R^1); mu >= 0, sReg > 0: all reals')

    def f(s, mu, sreg):
        return Friction.compute_friction_energy_from_perp_slip(s, Friction.Params(mu, sreg))
    smp = lambda rng: [rng.normal(size=2), abs(rng.normal()) + 0.1, abs(rng.normal()) + 0.1]
    c = Case(h, f, dict(s=onp.array([0.3, -0.2]), mu=0.4, sReg=0.1), sampler=smp, label='friction')
    n = c.ctx.fresh('norm_s')

    def spec(i, o, n=n):
        s, mu, r, E = i['s'], s0(i['mu']), s0(i['sReg']), s0(o)
        ss = v_dot(s, s)
        import math
        if isinstance(ss, float):
            n = math.sqrt(ss)
            nn = []
        else:
            nn = [n >= 0, n * n == ss]
        return [v_le(0.0, mu), v_lt(0.0, r)] + nn, [
            Le(0.0, E, name='nonnegative'),
            Le(E, v_mul(mu, n), name='below_coulomb', scale=r),
            Eq(E, v_mul(mu, v_sub(n, v_mul(0.5, r))), when=v_le(r, n), name='coulomb_minus_half_sReg_outside'),
        ]
    c.prove('bounds', spec, order=('nlsat', 'core'))

    def f2(a, b, mu, sreg):
        return f(a, mu, sreg), f(b, mu, sreg), f(0.5 * (a + b), mu, sreg)
    c1 = Case(h, lambda a, b, mu, sreg: f2(a, b, mu, sreg), dict(a=onp.array([0.3]), b=onp.array([0.1]), mu=0.4, sReg=0.1),
              sampler=lambda rng: [rng.normal(size=1), rng.normal(size=1), abs(rng.normal()) + 0.1, abs(rng.normal()) + 0.1], label='friction_midpoint_1d')
    c1.prove('midpoint_convex_1d', lambda i, o: ([v_le(0.0, s0(i['mu'])), v_lt(0.0, s0(i['sReg']))],
                                                 Le(v_mul(2.0, s0(o[2])), v_add(s0(o[0]), s0(o[1])))), order=('nlsat', 'core'))
    # any dimension: (i) E depends on the slip only through its norm (2-D instance proved on the real code),
    # (ii) E(m) <= (E(a)+E(b))/2 whenever 0 <= |m| <= (|a|+|b|)/2 (triangle inequality is the only vector fact used)
    cr = Case(h, lambda s, n, mu, sreg: (f(s, mu, sreg), f(jnp.array([n, 0.0]), mu, sreg)), dict(s=onp.array([0.3, -0.2]), n=0.4, mu=0.4, sReg=0.1),
              sampler=lambda rng: [rng.normal(size=2), abs(rng.normal()), abs(rng.normal()) + 0.1, abs(rng.normal()) + 0.1], label='friction_radial')
    cr.prove('depends_on_norm_only', lambda i, o: ([v_le(0.0, s0(i['n'])), sym_eq(v_sq(s0(i['n'])), v_dot(i['s'], i['s'])), v_lt(0.0, s0(i['sReg']))],
                                                   Eq(s0(o[0]), s0(o[1]))), order=('nlsat', 'core'))

    def f3(na, nb, nm, mu, sreg):
        return f(jnp.array([na]), mu, sreg), f(jnp.array([nb]), mu, sreg), f(jnp.array([nm]), mu, sreg)
    cn = Case(h, f3, dict(na=0.3, nb=0.1, nm=0.15, mu=0.4, sReg=0.1),
              sampler=lambda rng: [abs(rng.normal()), abs(rng.normal()), abs(rng.normal()), abs(rng.normal()) + 0.1, abs(rng.normal()) + 0.1], label='friction_midpoint_norms')
    cn.prove('midpoint_convex_any_dim_via_norms',
             lambda i, o: ([v_le(0.0, s0(i['mu'])), v_lt(0.0, s0(i['sReg'])), v_le(0.0, s0(i['na'])), v_le(0.0, s0(i['nb'])), v_le(0.0, s0(i['nm'])),
                            v_le(v_mul(2.0, s0(i['nm'])), v_add(s0(i['na']), s0(i['nb'])))],
                           Le(v_mul(2.0, s0(o[2])), v_add(s0(o[0]), s0(o[1])))), order=('nlsat', 'core'))


def _lipschitz(h, name, gradfn, example, sampler, K, width_name, nvars, cap=60, extra=None):
    """|g(p) - g(q)|_inf <= K/width * |p - q|_1 over all p, q (both branches): implies continuity of the gradient"""
    def two(p, q, w):
        return gradfn(p, w), gradfn(q, w)
    c = Case(h, two, example, sampler=sampler, label=name)

    def spec(i, o):
        p, q, w = i['p'], i['q'], s0(i['w'])
        g1, g2 = o
        from ..sym import flat, v_sum
        d1 = v_sum([v_abs(v_sub(a, b)) for a, b in zip(flat(p), flat(q))])
        ats = []
        for k, (a, b) in enumerate(zip(flat(g1), flat(g2))):
            ats.append(Le(v_mul(w, v_abs(v_sub(a, b))), v_mul(K, d1), name='comp%d' % k, scale=w))
        asm = [v_lt(SAFE, w)] + (extra(i) if extra else [])
        return asm, ats
    c.prove(name, spec, cap=cap)


@obligation(P, 'O3.C1_gradient_lipschitz', cap=300)
def o3(h):
    """every gradient is Lipschitz with constant K/width across all branch switches => C1 (continuity of the first
    derivative at every switch, from both sides, without naming the switch)"""
    SF, Friction, Mortar, _ = _mods()
    h.encoded(SF.min_base, SF.zmax, Friction.compute_friction_energy_from_perp_slip, Mortar.smooth_linear)
    h.bounds('all real argument pairs p, q; eps (resp. sReg, l) > 1e-14')
    g_min = jax.grad(lambda p, e: SF.min(p[0], p[1], e))
    _lipschitz(h, 'min', g_min, dict(p=onp.array([0.3, 0.1]), q=onp.array([0.0, 0.2]), w=0.5),
               lambda rng: [rng.normal(size=2), rng.normal(size=2), abs(rng.normal()) + 0.05], 1.0, 'eps', 2)
    g_max = jax.grad(lambda p, e: SF.max(p[0], p[1], e))
    _lipschitz(h, 'max', g_max, dict(p=onp.array([0.3, 0.1]), q=onp.array([0.0, 0.2]), w=0.5),
               lambda rng: [rng.normal(size=2), rng.normal(size=2), abs(rng.normal()) + 0.05], 1.0, 'eps', 2)
    g_abs = jax.grad(lambda p, e: SF.abs(p[0], e))
    _lipschitz(h, 'abs', g_abs, dict(p=onp.array([0.3]), q=onp.array([0.1]), w=0.5),
               lambda rng: [rng.normal(size=1), rng.normal(size=1), abs(rng.normal()) + 0.05], 2.0, 'eps', 1)
    g_zmax = jax.grad(lambda p, e: SF.zmax(p[0], e))
    _lipschitz(h, 'zmax', g_zmax, dict(p=onp.array([0.3]), q=onp.array([0.1]), w=0.5),
               lambda rng: [rng.normal(size=1), rng.normal(size=1), abs(rng.normal()) + 0.05], 0.5, 'eps', 1)
    g_sl = jax.grad(lambda p, l: Mortar.smooth_linear(p[0], l))
    _lipschitz(h, 'smooth_linear', g_sl, dict(p=onp.array([0.3]), q=onp.array([0.1]), w=0.2),
               lambda rng: [rng.uniform(-0.5, 1.5, size=1), rng.uniform(-0.5, 1.5, size=1), rng.uniform(0.01, 0.49)], 1.0, 'l', 1,
               extra=lambda i: [v_le(s0(i['w']), 0.5)])
    g_fr1 = jax.grad(lambda p, r: Friction.compute_friction_energy_from_perp_slip(p, Friction.Params(1.0, r)))
    _lipschitz(h, 'friction_1d', g_fr1, dict(p=onp.array([0.3]), q=onp.array([0.1]), w=0.2),
               lambda rng: [rng.normal(size=1), rng.normal(size=1), abs(rng.normal()) + 0.05], 1.0, 'sReg', 1, cap=120)


def _pinned_gradient(h, name, gfun, example, sampler, assumes, point_desc):
    """gradient of a smoothed function at a PINNED argument (all other inputs symbolic) is exactly 0 — the pinned point is a
    constant of the jaxpr, so everything computed from it alone is folded by the real primitives; if that folding produces a
    non-finite number the encoder refuses (the value is non-finite for EVERY value of the symbolic inputs): the refusal is then
    confirmed by running the real function at witness values and reported as a violation (definedness of the derivative)."""
    import math
    try:
        c = Case(h, gfun, example, sampler=sampler, label=name)
        c.prove(name, lambda i, o: (assumes(i), [Eq(x, 0.0, name='derivative_is_zero_at_%s[%d]' % (point_desc, k))
                                                 for k, x in enumerate(onp.asarray(o, dtype=object).reshape(-1))]))
    except Exception as e:    # noqa: BLE001 (CrossHair is not involved here)
        if 'non-finite' not in str(e) and 'validation' not in str(e):
            raise
        import numpy.random as npr
        rng = npr.default_rng(0)
        bad = None
        for _ in range(6):
            args = sampler(rng)
            out = onp.asarray(gfun(*args), dtype=float).reshape(-1)
            if not all(math.isfinite(v) for v in out):
                bad = (args, out)
                break
        if bad is None:
            raise
        h.violation('%s/derivative_is_finite_at_%s' % (name, point_desc), dict(inputs=[float(a) for a in bad[0]], derivative=[repr(float(v)) for v in bad[1]]),
                    'constant folding of the pinned argument gives a non-finite intermediate (%s); the real derivative at the witness is %s'
                    % (str(e)[:120], bad[1]))


@obligation(P, 'O8.derivatives_defined_at_symmetry_points', cap=240)
def o8(h):
    """the derivative exists (and is 0 by symmetry) exactly AT the points where the smoothing matters most: zero slip for the
    friction potential (every mu, sReg), x = 0 for the smoothed absolute value (every eps) — a 0/0 leaking out of an unselected
    branch through a zero cotangent is invisible to every query that assumes symbolic denominators non-zero"""
    SF, Friction, _, _ = _mods()
    h.encoded(Friction.compute_friction_energy_from_perp_slip, SF.abs, SF.min_base)
    h.bounds('pinned argument exactly 0 (1-D and 2-D slip), mu >= 0, sReg > 0, eps > 0 symbolic')
    h.assume_note('derivative jaxpr as produced by jax.grad of the real function (custom JVP rules of safe_sqrt included)')
    pos = lambda rng: [abs(rng.normal()) + 0.05, abs(rng.normal()) + 0.05]
    for dim in (1, 2):
        g = (lambda d: lambda mu, sReg: jax.grad(lambda s: Friction.compute_friction_energy_from_perp_slip(s, Friction.Params(mu, sReg)))(jnp.zeros(d)))(dim)
        _pinned_gradient(h, 'friction_%dd' % dim, g, dict(mu=0.4, sReg=0.1), pos,
                         lambda i: [v_le(0.0, s0(i['mu'])), v_lt(0.0, s0(i['sReg']))], 'zero_slip')
    ga = lambda eps: jax.grad(lambda x: SF.abs(x, eps))(0.0)
    _pinned_gradient(h, 'abs', ga, dict(eps=0.5), lambda rng: [abs(rng.normal()) + 0.05], lambda i: [v_lt(0.0, s0(i['eps']))], 'zero')


@obligation(P, 'O4.zmax_ramp_segment', cap=240)
def o4(h):
    """zmax >= max(x,0), exact outside (-eps,eps); smooth_linear monotone and within l/2 of the identity"""
    SF, _, Mortar, _ = _mods()
    h.encoded(SF.zmax, Mortar.smooth_linear)
    h.bounds('x all reals, eps > 0; xi all reals, 0 < l <= 1/2')
    c = Case(h, lambda x, eps: SF.zmax(x, eps), dict(x=0.3, eps=0.5), sampler=lambda rng: [rng.normal(), abs(rng.normal()) + 0.01], label='zmax')

    def spec(i, o):
        x, e, z = s0(i['x']), s0(i['eps']), s0(o)
        mx = v_max(x, 0.0)
        return [v_lt(0.0, e)], [
            Le(mx, z, name='ge_ramp', scale=e),
            Le(v_sub(z, mx), v_mul(0.25, e), name='within_quarter_eps', scale=e),
            Eq(z, mx, when=v_or(v_le(e, x), v_le(x, v_sub(0.0, e))), name='exact_outside_band'),
        ]
    c.prove('zmax', spec)
    c2 = Case(h, lambda a, b, l: (Mortar.smooth_linear(a, l), Mortar.smooth_linear(b, l)), dict(a=0.3, b=0.6, l=0.1),
              sampler=lambda rng: [rng.uniform(-.5, 1.5), rng.uniform(-.5, 1.5), rng.uniform(0.01, 0.5)], label='smooth_linear')

    def spec2(i, o):
        a, b, l = s0(i['a']), s0(i['b']), s0(i['l'])
        fa, fb = s0(o[0]), s0(o[1])
        inside = v_and(v_le(0.0, a), v_le(a, 1.0))
        return [v_lt(0.0, l), v_le(l, 0.5)], [
            Le(fa, fb, when=v_and(v_le(a, b), v_le(0.0, a), v_le(b, 1.0)), name='monotone_on_unit_interval', scale=l),
            Le(v_abs(v_sub(fa, v_sub(a, v_mul(0.5, l)))), v_mul(0.5, l), when=inside, name='within_half_l_of_shifted_identity', scale=l),
            Eq(fa, v_sub(a, v_mul(0.5, l)), when=v_and(v_le(l, a), v_le(a, v_sub(1.0, l))), name='linear_in_the_middle'),
        ]
    c2.prove('smooth_linear', spec2)


# ------------------------------------------------------------------------------------------ O5: IEEE binary64 exactness outside the band
def _fp_eval(jaxpr, consts, args):
    """interpret the (small, branch-free) jaxprs of the smooth functions over z3 Float64 terms with round-to-nearest-even:
    only the handful of primitives that occur; anything else raises (then the obligation is a harness error, never a pass)"""
    import z3
    from jax import core as jcore
    F64 = z3.Float64()
    RNE = z3.RNE()

    def fp(v):
        if isinstance(v, z3.ExprRef):
            return v
        if isinstance(v, (bool, onp.bool_)):
            return z3.BoolVal(bool(v))
        return z3.FPVal(float(v), F64)
    env = {}

    def read(v):
        if isinstance(v, jcore.Literal):
            return fp(onp.asarray(v.val).item())
        return env[v]
    for v, c in zip(jaxpr.constvars, consts):
        env[v] = fp(onp.asarray(c).item())
    for v, a in zip(jaxpr.invars, args):
        env[v] = a
    for e in jaxpr.eqns:
        iv = [read(v) for v in e.invars]
        p = e.primitive.name
        if p == 'pjit':
            cj = e.params['jaxpr']
            out = _fp_eval(cj.jaxpr, cj.consts, iv)
        elif p == 'neg':
            out = [z3.fpNeg(iv[0])]
        elif p == 'abs':
            out = [z3.fpAbs(iv[0])]
        elif p == 'add':
            out = [z3.fpAdd(RNE, iv[0], iv[1])]
        elif p == 'sub':
            out = [z3.fpSub(RNE, iv[0], iv[1])]
        elif p == 'mul':
            out = [z3.fpMul(RNE, iv[0], iv[1])]
        elif p == 'div':
            out = [z3.fpDiv(RNE, iv[0], iv[1])]
        elif p == 'integer_pow' and e.params['y'] == 2:
            out = [z3.fpMul(RNE, iv[0], iv[0])]
        elif p == 'lt':
            out = [z3.fpLT(iv[0], iv[1])]
        elif p == 'gt':
            out = [z3.fpGT(iv[0], iv[1])]
        elif p == 'le':
            out = [z3.fpLEQ(iv[0], iv[1])]
        elif p == 'ge':
            out = [z3.fpGEQ(iv[0], iv[1])]
        elif p == 'select_n':
            out = [z3.If(iv[0], iv[2], iv[1])]
        elif p == 'cond':
            brs = e.params['branches']
            outs = [_fp_eval(b.jaxpr, b.consts, iv[1:]) for b in brs]
            assert len(brs) == 2
            out = [z3.If(iv[0], o1, o0) for o0, o1 in zip(outs[0], outs[1])]
        elif p == 'convert_element_type':
            out = [iv[0]]      # bool -> int32 index of a cond: the Bool itself is used as the selector
        else:
            raise RuntimeError('FP evaluator: primitive %s not supported' % p)
        for v, o in zip(e.outvars, out):
            env[v] = o
    return [read(v) for v in jaxpr.outvars]


@obligation(P, 'O5.ieee_exact_outside_band', cap=600)
def o5(h):
    """IN IEEE binary64 ARITHMETIC (z3 floating-point theory, round-to-nearest-even; not the real-arithmetic encoding of
    O1-O4): outside the smoothing band the smoothed min/max/abs returned by the real code is EXACTLY the true min/max/abs,
    for all finite doubles x, y and every finite width eps — the branch that is selected contains no rounding operation"""
    import z3
    import math
    SF = _mods()[0]
    h.encoded(SF.min_base, SF.min, SF.max, SF.abs)
    h.bounds('x, y: all finite binary64 values (NaN and infinities excluded); eps: all finite binary64 values; the band test is the one the code itself evaluates in floating point')
    h.assume_note('z3 FloatingPoint theory (bit-precise IEEE 754 binary64, RNE) instead of reals; only the exactness outside the band is claimed in floating point, the bounds inside the band are claimed over the reals (O1)')
    F64 = z3.Float64()
    x, y, e = z3.FP('x', F64), z3.FP('y', F64), z3.FP('eps', F64)
    finite = [z3.Not(z3.fpIsNaN(v)) for v in (x, y, e)] + [z3.Not(z3.fpIsInf(v)) for v in (x, y, e)]

    def run(name, fn, nargs, truth, band):
        ex = [0.3, 0.1, 0.5][:nargs] if nargs == 3 else [0.3, 0.5]
        cj = jax.make_jaxpr(fn)(*ex)
        args = [x, y, e] if nargs == 3 else [x, e]
        out = _fp_eval(cj.jaxpr, cj.consts, args)[0]
        goal = z3.fpEQ(out, truth)
        qn = '%s.exact_outside_band_in_binary64' % name
        if h.replay is not None:
            if h.replay.get('query') != '%s/%s' % (h.ob, qn):
                return
            v = h.replay['inputs']
            got = float(fn(*[v[k] for k in (['x', 'y', 'eps'] if nargs == 3 else ['x', 'eps'])]))
            want = v['truth']
            h.replay_result = dict(status='violated' if got != want else 'unreproduced', got=got, want=want)
            return
        rec = dict(query='%s/%s' % (h.ob, qn), status=None, solver='z3-fp', attempts=[], nonvacuous=None)
        import time
        t0 = time.time()
        s = z3.Solver()
        s.set('timeout', 240000)
        s.add(*finite)
        s.add(z3.Not(band))
        tw = s.check()
        rec['attempts'].append(('vacuity', str(tw), round(time.time() - t0, 2)))
        rec['nonvacuous'] = (tw == z3.sat)
        s.add(z3.Not(goal))
        r = s.check()
        rec['attempts'].append(('fp', str(r), round(time.time() - t0, 2)))
        rec['time_s'] = round(time.time() - t0, 2)
        if r == z3.unsat:
            rec['status'] = 'discharged'
        elif r == z3.sat:
            m = s.model()

            def val(t):
                f = m.eval(t, model_completion=True)
                return float(eval(str(z3.simplify(z3.fpToReal(f)).as_fraction()))) if not (z3.is_fprm(f)) else None
            vals = {k: val(t) for k, t in (('x', x), ('y', y), ('eps', e)) if nargs == 3 or k != 'y'}
            got = float(fn(*[vals[k] for k in (['x', 'y', 'eps'] if nargs == 3 else ['x', 'eps'])]))
            want = {'min': lambda: min(vals['x'], vals.get('y', 0.0)), 'max': lambda: max(vals['x'], vals.get('y', 0.0)), 'abs': lambda: abs(vals['x'])}[name]()
            vals['truth'] = want
            rec['model'] = vals
            if got != want and not (math.isnan(got) and math.isnan(want)):
                rec['status'] = 'violated'
                rec['witness'] = repr((got, want))
                rec['replay'] = h._write_replay(rec['query'], vals, dict(witness=rec['witness'], replay_info='real function in binary64'))
            else:
                rec['status'] = 'unreproduced'
                rec['detail'] = 'FP model does not reproduce on the real function'
        else:
            rec['status'] = 'inconclusive'
            rec['detail'] = 'z3 floating-point query returned unknown'
            # falsification aid only: look for a counterexample on slices with pinned width / second argument (a model
            # is a genuine counterexample and is replayed; unsat on a slice proves nothing and the verdict stays inconclusive)
            for pins in ([(e, 0.125)], [(e, 0.125), (y, 1.0)], [(e, 0.125), (y, -1.0)]):
                if nargs == 2 and any(v is y for v, _ in pins):
                    continue
                s2 = z3.Solver()
                s2.set('timeout', 60000)
                s2.add(*finite)
                s2.add(z3.Not(band))
                s2.add(z3.Not(goal))
                for v_, c_ in pins:
                    s2.add(v_ == z3.FPVal(c_, F64))
                r2 = s2.check()
                rec['attempts'].append(('pinned%d' % len(pins), str(r2), round(time.time() - t0, 2)))
                if r2 == z3.sat:
                    m = s2.model()

                    def val2(t):
                        f = m.eval(t, model_completion=True)
                        return float(eval(str(z3.simplify(z3.fpToReal(f)).as_fraction())))
                    vals = {k: val2(t) for k, t in (('x', x), ('y', y), ('eps', e)) if nargs == 3 or k != 'y'}
                    got = float(fn(*[vals[k] for k in (['x', 'y', 'eps'] if nargs == 3 else ['x', 'eps'])]))
                    want = {'min': lambda: min(vals['x'], vals.get('y', 0.0)), 'max': lambda: max(vals['x'], vals.get('y', 0.0)), 'abs': lambda: abs(vals['x'])}[name]()
                    vals['truth'] = want
                    rec['model'] = vals
                    if got != want:
                        rec['status'] = 'violated'
                        rec['detail'] = 'counterexample found on a pinned slice'
                        rec['witness'] = repr((got, want))
                        rec['replay'] = h._write_replay(rec['query'], vals, dict(witness=rec['witness'], replay_info='real function in binary64'))
                    break
        h.records.append(rec)
    RNE = z3.RNE()
    band_xy = z3.fpLT(z3.fpAbs(z3.fpSub(RNE, x, y)), e)
    run('min', lambda a, b, w: SF.min(a, b, w), 3, z3.fpMin(x, y), band_xy)
    # max(x,y) = -min_base(-x,-y): the code's own band test is on (-x)-(-y), which is exactly -(x-y)
    run('max', lambda a, b, w: SF.max(a, b, w), 3, z3.fpMax(x, y), z3.fpLT(z3.fpAbs(z3.fpSub(RNE, z3.fpNeg(x), z3.fpNeg(y))), e))
    run('abs', lambda a, w: SF.abs(a, w), 2, z3.fpAbs(x), z3.fpLT(z3.fpAbs(z3.fpSub(RNE, z3.fpNeg(x), x)), e))


@obligation(P, 'O6.friction_on_numpy_arrays_no_mutation', cap=300)
def o6(h):
    """the friction potential evaluated from its REAL source on a NumPy array of symbolic slips: the value has the stated
    closed form on both branches and the caller's array is left untouched, so a second evaluation on the same array gives
    the same value (PX; the JAX path of O2 cannot see in-place updates, which rebind instead of mutating there)"""
    from .. import px
    h.encoded('optimism.contact.Friction:compute_friction_energy_from_perp_slip (real source on proxies)', 'optimism.Math:safe_sqrt (stubbed by sqrt)')
    h.bounds('slip in R^2, mu >= 0, sReg > 0: all reals; two successive evaluations on the same NumPy array')

    def fn(ex):
        import types
        math_stub = types.SimpleNamespace(safe_sqrt=lambda x: px.NP.sqrt(x))
        mod = px.load_module('optimism/contact/Friction.py', shims={'optimism.Math': math_stub})
        s = ex.vec('s', 2)
        s_in = s.copy()
        mu, r = ex.real('mu'), ex.real('sReg')
        ex.assume(mu >= 0)
        ex.assume(r > 0)
        par = mod.Params(mu, r)
        e1 = mod.compute_friction_energy_from_perp_slip(s, par)
        U = px.unwrap
        ex.goal('input_array_left_untouched', Eq(U(s), U(s_in)))
        e2 = mod.compute_friction_energy_from_perp_slip(s, par)
        ex.goal('second_evaluation_on_the_same_array_gives_the_same_value', Eq(U(e2), U(e1)))
        ss = s_in[0] * s_in[0] + s_in[1] * s_in[1]
        inside = bool(ss <= r * r)
        if inside:
            ex.goal('quadratic_inside_the_switch_radius', Eq(U(e1 * (2.0 * r)), U(mu * ss)))
        else:
            n = px.NP.sqrt(ss)
            ex.goal('coulomb_minus_half_sReg_outside', Eq(U(e1), U(mu * (n - 0.5 * r))))
    px.run_px(h, 'friction_numpy', fn, cap=30, div_mode='goal', sqrt_mode='goal')


@obligation(P, 'O7.smooth_distance_corner', cap=600)
def o7(h):
    """EdgeCpp.smooth_distance (the smoothed minimum wrapped around the two edge distances at a corner): symmetric in the order
    of the two edges, non-negative smoothing width, one-sided and tight — the obligation chain is shared with C16"""
    from .c16 import smooth_distance_obligations
    smooth_distance_obligations(h)
