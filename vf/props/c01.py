"""C01 — unconstrained trust-region minimiser: descent, honest flag, radius policy (PX on the real source)."""
import ast
import math
import numpy as onp
import z3

from ..core import obligation
from .. import px, sym
from ..px import SymReal, SymBool, is_sym, NP
from ..sym import Le, Lt, Eq, Holds

P = 'C01'
REL = 'optimism/EquationSolver.py'


# ------------------------------------------------------------------------------------------ shared model pieces
def akey(ex, v):
    """hashable identity of an argument (vector of proxies / floats)"""
    out = []
    for x in onp.asarray(v, dtype=object).reshape(-1):
        if isinstance(x, SymReal):
            out.append(('z', z3.simplify(x.z).get_id()))
        else:
            out.append(('c', float(x)))
    return tuple(out)


def same_arg(a, b):
    cs = []
    for x, y in zip(onp.asarray(a, dtype=object).reshape(-1), onp.asarray(b, dtype=object).reshape(-1)):
        cs.append(px._z(x) == px._z(y))
    return z3.And(*cs) if cs else z3.BoolVal(True)


class UObjective:
    """An arbitrary smooth objective: value/gradient/Hessian at each distinct point are fresh reals, functionally
    consistent (equal arguments => equal results).  The Hessian-vector product is linear in the vector (H(x) is a fresh
    symmetric matrix per point); the preconditioner is an arbitrary SPD matrix that may change at every refresh."""

    def __init__(self, ex, n, precond='spd'):
        self.ex, self.n = ex, n
        self.calls = {'f': [], 'g': [], 'H': []}
        self.p = None
        self.scaling = 1.0
        self.invScaling = 1.0
        self.precond_kind = precond
        self.nan_at_trial = False
        self.precond_updates = []
        self.stability_checks = 0
        self._new_precond()
        self.log = []

    def _lookup(self, kind, x, make):
        """every call draws fresh values (same creation order in the symbolic run and in a replay); functional
        consistency with all earlier calls is imposed by Ackermann constraints"""
        ex = self.ex
        val = make()
        if ex.symbolic:
            for xx, v2 in self.calls[kind]:
                cond = same_arg(x, xx)
                for a, b in zip(onp.asarray(val, dtype=object).reshape(-1), onp.asarray(v2, dtype=object).reshape(-1)):
                    ex.pc.append(z3.Implies(cond, px._z(a) == px._z(b)))
        else:
            for xx, v2 in self.calls[kind]:
                if all(float(a) == float(b) for a, b in zip(onp.asarray(x, dtype=float).reshape(-1), onp.asarray(xx, dtype=float).reshape(-1))):
                    return v2
        self.calls[kind].append((x, val))
        return val

    def value(self, x):
        if self.nan_at_trial and self.calls['f']:
            return float('nan')     # the objective evaluates to NaN at every point but the first (the current iterate)
        return self._lookup('f', x, lambda: self.ex.real('f'))

    def gradient(self, x):
        return self._lookup('g', x, lambda: self.ex.vec('g', self.n))

    def hessian(self, x):
        return self._lookup('H', x, lambda: self.ex.mat('H', self.n, self.n, symmetric=True))

    def hessian_vec(self, x, v):
        return NP.dot(self.hessian(x), v) if self.n > 1 else self.hessian(x)[0] * v

    def gradient_and_tangent(self, x):
        return self.gradient(x), lambda v: self.hessian_vec(x, v)

    def _new_precond(self):
        ex, n = self.ex, self.n
        if self.precond_kind == 'identity':
            self.P = onp.eye(n)
            self.Pinv = onp.eye(n)
            return
        if n == 1:
            p = ex.real('P')
            ex.assume(p > 0)
            self.P = onp.array([[p]], dtype=object if ex.symbolic else float)
            self.Pinv = onp.array([[1.0 / p]], dtype=object if ex.symbolic else float)
        else:
            raise px.Unsupported('SPD preconditioner for n > 1 is modelled in Gram mode only')

    def update_precond(self, x):
        self.precond_updates.append(x)
        self._new_precond()

    def apply_precond(self, v):
        return NP.dot(self.Pinv, v)

    def multiply_by_approx_hessian(self, v):
        return NP.dot(self.P, v)

    def check_stability(self, x):
        self.stability_checks += 1


class GramObjective:
    """Dimension-free variant of UObjective: iterates, gradients and steps are Gram vectors (px.GV); every inner product the
    real code forms is an entry of a symbolic Gram table constrained by the necessary conditions for a Gram matrix of real
    vectors (non-negative diagonal, Cauchy-Schwarz), so an unsat verdict holds in EVERY dimension.  value/gradient are
    memoised on the syntactic form of the argument (syntactically different arguments get independent values: a superset
    of the behaviours of real objectives); the Hessian at a point is a symmetric linear operator (<H a, b> = <a, H b>)."""

    def __init__(self, ex, spd_precond=False):
        self.ex = ex
        self.spd_precond = spd_precond
        self.pbase = {}
        self.p = None
        self.scaling = 1.0
        self.invScaling = 1.0
        self.nan_at_trial = False
        self.precond_updates = []
        self.memo = {'f': {}, 'g': {}}
        self.hbase = {}         # (point key, base id) -> base id of H(point) applied to that base
        self.nf = 0

    @staticmethod
    def key(v):
        return tuple(sorted((k, repr(px.unwrap(c))) for k, c in v.c.items()))

    def value(self, x):
        if self.nan_at_trial and self.memo['f']:
            return float('nan')
        k = self.key(x)
        if k not in self.memo['f']:
            self.memo['f'][k] = self.ex.real('f')
        return self.memo['f'][k]

    def gradient(self, x):
        k = self.key(x)
        if k not in self.memo['g']:
            self.memo['g'][k] = self.ex.gram_base('g%d' % len(self.memo['g']))
        return self.memo['g'][k]

    def hessian_vec(self, x, v):
        ex = self.ex
        k = self.key(x)
        out = px.GV({})
        for b, coef in v.c.items():
            if (k, b) not in self.hbase:
                hb = ex.gram_base('H%d_%s' % (len({kk for kk, _ in self.hbase} | {k}) - 1, ex.gram_bases[b]))
                hid = list(hb.c.keys())[0]
                # symmetry of the Hessian at this point: <H a, b> = <a, H b> for all pairs of bases it was applied to
                for (k2, b2), h2 in self.hbase.items():
                    if k2 == k:
                        ex.assume(px.SymBool(px._z(ex.gram_entry(hid, b2)) == px._z(ex.gram_entry(b, h2)))) if ex.symbolic else None
                self.hbase[(k, b)] = hid
            out = out + px.GV({self.hbase[(k, b)]: 1.0}) * coef
        return out

    def gradient_and_tangent(self, x):
        return self.gradient(x), lambda v: self.hessian_vec(x, v)

    def update_precond(self, x):
        self.precond_updates.append(x)

    def apply_precond(self, v):
        return v

    def multiply_by_approx_hessian(self, v):
        if not self.spd_precond:
            return v
        # an arbitrary symmetric positive definite operator P (re-drawn at every preconditioner refresh): <P a, b> = <a, P b>,
        # <P a, a> >= 0 and > 0 when <a, a> > 0
        ex = self.ex
        gen = len(self.precond_updates)
        out = px.GV({})
        for b, coef in v.c.items():
            if (gen, b) not in self.pbase:
                pb = ex.gram_base('P%d_%s' % (gen, ex.gram_bases[b]))
                pid = list(pb.c.keys())[0]
                if ex.symbolic:
                    for (g2, b2), p2 in self.pbase.items():
                        if g2 == gen:
                            ex.assume(px.SymBool(px._z(ex.gram_entry(pid, b2)) == px._z(ex.gram_entry(b, p2))))
                    ex.assume(px.SymBool(px._z(ex.gram_entry(pid, b)) >= 0))
                    ex.assume(px.SymBool(z3.Implies(px._z(ex.gram_entry(b, b)) > 0, px._z(ex.gram_entry(pid, b)) > 0)))
                self.pbase[(gen, b)] = pid
            out = out + px.GV({self.pbase[(gen, b)]: 1.0}) * coef
        return out

    def check_stability(self, x):
        pass


def gram_realisable(ex):
    """necessary conditions on the Gram entries created so far (diagonal >= 0, Cauchy-Schwarz for every created pair)"""
    cs = []
    keys = list(ex.gram.keys())
    diag = {i: ex.gram[(i, i)] for (i, j) in keys if i == j}
    for i, gii in diag.items():
        cs.append(px._z(gii) >= 0)
    for (i, j) in keys:
        if i != j and i in diag and j in diag:
            gij = px._z(ex.gram[(i, j)])
            cs.append(gij * gij <= px._z(diag[i]) * px._z(diag[j]))
    return cs


def settings_sym(ex, mod, n_iters=3, incremental=False, precond_ip=False, check_stability=False):
    S = mod.Settings
    t1, t2, e1, e2, e3 = [ex.real(k) for k in ('t1', 't2', 'eta1', 'eta2', 'eta3')]
    tol, tr, mintr = ex.real('tol'), ex.real('tr_size'), ex.real('min_tr_size')
    mcg, mccg = ex.int('max_cg_iters'), ex.int('max_cumulative_cg_iters')
    for c in (t1 > 0, t1 < 1, t2 > 1, e1 > 0, e1 <= e2, e2 < e3, e3 < 1, tol > 0, mintr > 0, mintr < tr, mcg >= 1, mccg >= 1):
        ex.assume(c)
    return S(t1=t1, t2=t2, eta1=e1, eta2=e2, eta3=e3, max_trust_iters=n_iters, tol=tol, max_cg_iters=mcg,
             max_cumulative_cg_iters=mccg, cg_tol=0.2 * tol, cg_inexact_solve_ratio=1e-5, tr_size=tr, min_tr_size=mintr,
             check_stability=check_stability, use_preconditioned_inner_product_for_cg=precond_ip,
             use_incremental_objective=incremental, debug_info=False, over_iters=0)


ADMISSIBLE = '0<t1<1<t2, 0<eta1<=eta2<eta3<1, tol>0, 0<min_tr_size<tr_size, integer caps >= 1 (all symbolic)'


def select_inner_while(fd):
    outer = [s for s in fd.body if isinstance(s, ast.For)][0]
    k = [i for i, s in enumerate(outer.body) if isinstance(s, ast.While)][0]
    return outer.body[k], outer.body[:k]


def f_le(a, b):
    """a <= b for proxies/floats as an Atom-ready pair"""
    return px.unwrap(a), px.unwrap(b)


def make_step_harness(n, incremental, precond_ip, precond_kind, check_stability=False, nkinds=2, nan_trial=False):
    """one pass through the body of the inner `while not happyAboutTrSize` loop of the real trust_region_minimize from
    an arbitrary loop-head state satisfying Inv (g = grad f(x), o = f(x), gNorm = |g|, 0 < trSize <= radius at the head of
    the outer iteration); the statements of the outer `for` body that precede the loop are run first (real code)."""
    def fn(ex):
        mod = px.load_module(REL)
        step, src, names = px.extract_step(mod, 'trust_region_minimize', select_inner_while)
        gram = (n == 'gram')
        newvec = (lambda nm: ex.gram_base(nm)) if gram else (lambda nm: ex.vec(nm, n))
        obj = GramObjective(ex, spd_precond=(precond_kind == 'spd')) if gram else UObjective(ex, n, precond=precond_kind)
        settings = settings_sym(ex, mod, incremental=incremental, precond_ip=precond_ip, check_stability=check_stability)
        x = newvec('x')
        g = obj.gradient(x)
        o = obj.value(x)
        gNorm = NP.linalg.norm(g)
        obj.nan_at_trial = nan_trial
        # loop-head invariant: the current iterate failed the convergence test (initial test / test on every accepted point)
        ex.assume(NP.dot(g, g) >= settings.tol * settings.tol)
        trHead = ex.real('trSize_head')
        ex.assume(trHead > 0)
        calls = []

        # the CG sub-solver is stubbed: arbitrary step, any step type, any iteration count (its guarantees are C06)
        def stub_solve(x_, r_, hv, precond, trSize_, settings_):
            q = newvec('qNewton')
            kinds = [mod.boundaryString, mod.interiorString, mod.negCurveString, mod.interiorString + '_'][:nkinds]
            kind = ex.int('stepKind')
            ex.assume(kind >= 0)
            ex.assume(kind <= len(kinds) - 1)
            st = kinds[-1]
            for kk in range(len(kinds) - 1):
                if bool(kind == kk):
                    st = kinds[kk]
                    break
            it = ex.int('cgIters')
            ex.assume(it >= 0)
            return q, None, st, it
        mod.solve_trust_region_minimization = stub_solve
        # the dogleg combination is C06's subject as well: here the trial step is an arbitrary vector
        mod.dogleg_step = lambda cp, newtonP, trSize_, mat_mul: newvec('d')
        events = []

        def callback(xx, oo):
            events.append(('callback', xx))

        def havoc(loc):
            ov = {}
            tr = ex.real('trSize_cur')
            ex.assume(tr > 0)
            ex.assume(tr <= trHead)
            ov['trSize'] = tr
            ov['trSizeUsed'] = ex.real('trSizeUsed')
            later = ex.bool('later_inner_iteration')
            if bool(later):
                ov['stepType'] = mod.boundaryString
                ov['cgIters'] = 0
            ci = ex.int('cumulativeCgIters')
            ex.assume(ci >= 0)
            ov['cumulativeCgIters'] = ci
            ov['triedNewPrecond'] = bool(ex.bool('triedNewPrecond'))
            ov['happyAboutTrSize'] = False
            calls.append(dict(loc))
            return ov
        pre = dict(x=x, g=g, o=o, gNorm=gNorm, trSize=trHead, triedNewPrecond=False, cumulativeCgIters=0,
                   gradient=obj.gradient, gradientAndTanOpt=obj.gradient_and_tangent, i=0)
        kind, val, loc = step(pre, havoc, obj, x, settings, callback)
        # ---- observations
        d = loc.get('d')
        y = loc.get('y')
        mo = loc.get('modelObjective')
        if mo is not None and is_sym(mo):
            # stated assumption: the model change of a trial step is not exactly zero (see DESIGN C01, signed-zero corner)
            ex.late_assume(SymBool(mo.z != 0))
        if gram and ex.symbolic:
            for cnd in gram_realisable(ex):
                ex.late_assume(cnd)
        tr0 = calls[0]['trSize'] if calls else None
        trCur = ex.inputs.get('trSize_cur') if ex.symbolic else None
        fo = px.unwrap(o)
        if kind == 'return':
            xr, flag = val
            n_cb = len(events)
            if flag is True:
                ex.goal('returned_point_was_reported', Holds(n_cb >= 1 and events[-1][1] is xr), info='success return of a point never passed to the callback')
                gy = obj.gradient(xr)
                gg = px.unwrap(NP.dot(gy, gy))
                tol2 = px.unwrap(settings.tol * settings.tol)
                ex.goal('true_flag_only_with_small_gradient', Lt(gg, tol2), info='success flag')
                if not incremental and not nan_trial:
                    fy = px.unwrap(obj.value(xr))
                    ex.goal('descent_on_converged_return', Le(fy, fo), info='returned point has higher objective than the last accepted iterate')
            else:
                ex.goal('false_flag_returns_last_accepted', Holds(xr is x), info='failure exit must return the accepted iterate')
                ex.goal('flag_is_bool_false', Holds(flag is False))
        else:
            accepted = loc.get('willAccept')
            acc = bool(accepted) if accepted is not None else False
            ex.goal('callback_exactly_on_acceptance', Holds(len(events) == (1 if acc else 0)), info='callback count')
            if acc:
                if not incremental and not nan_trial:
                    fy = px.unwrap(obj.value(loc['x']))
                    ex.goal('descent_on_acceptance', Le(fy, fo), info='accepted iterate has higher objective')
                ex.goal('accepted_iterate_is_trial_point', Holds(loc['x'] is y and events[0][1] is y))
                # invariant re-established
                gnew = obj.gradient(loc['x'])
                ex.goal('inv_gradient_refreshed', Holds(loc['g'] is gnew) if gram else Eq(px.unwrap(loc['g']), px.unwrap(gnew)))
                if not nan_trial:
                    ex.goal('inv_objective_refreshed', Eq(px.unwrap(loc['o']), px.unwrap(obj.value(loc['x']))))
                ex.goal('inv_gnorm_refreshed', Eq(px.unwrap(loc['gNorm'] * loc['gNorm']), px.unwrap(NP.dot(gnew, gnew))))
            else:
                ex.goal('rejected_keeps_iterate', Holds(loc['x'] is x and loc['g'] is g))
            # radius policy: `not rho >= eta2` (incl. NaN) => radius multiplied by t1
            rho = loc.get('rho')
            trAfterPolicy = loc.get('trSizeUsed')   # trSizeUsed = trSize right after the policy update
            if rho is not None and trAfterPolicy is not None:
                poor = not bool(rho >= settings.eta2)
                if poor:
                    ex.goal('radius_shrinks_on_poor_or_nan_ratio', Eq(px.unwrap(trAfterPolicy), px.unwrap(_trcur(ex) * settings.t1)))
                else:
                    ex.goal('radius_never_shrinks_on_good_ratio', Le(px.unwrap(_trcur(ex)), px.unwrap(trAfterPolicy)))
            # NaN ratio never accepts
            if nan_trial:
                ex.goal('nan_objective_gives_nan_ratio', Holds(isinstance(rho, float) and math.isnan(rho)))
                ex.goal('nan_ratio_never_accepts', Holds(not acc))
                ex.goal('nan_ratio_shrinks_radius', Eq(px.unwrap(trAfterPolicy), px.unwrap(_trcur(ex) * settings.t1)))
    return fn


def _trcur(ex):
    if ex.symbolic:
        return SymReal(ex.inputs['trSize_cur'])
    return float(ex.concrete['trSize_cur'])


def _note(h, n, mode):
    from ..px import load_module
    mod = load_module(REL)
    h.encoded(*['optimism.EquationSolver:%s' % f for f in ('trust_region_minimize (outer for-body prefix + inner while body, extracted by AST from the current source)',
                                                          'is_converged', 'is_on_boundary', 'print_min_banner')])
    h.bounds(('dimension n=%d (component mode)' % n if n != 'gram' else 'ANY dimension (Gram mode: vectors enter only through inner products)') + '; objective: arbitrary (value, gradient, Hessian at each point are free reals, functionally consistent); '
             'loop-head state: arbitrary x, trSize > 0, flags, counters subject to Inv; settings: %s; %s mode' % (ADMISSIBLE, mode))
    h.assume_note('stub: solve_trust_region_minimization returns an arbitrary step, step type and iteration count, and dogleg_step an arbitrary trial step (their guarantees are property C06)',
                  'assumption: the model change g.d + d.H.d/2 of a trial step is not exactly 0 (signed-zero division corner; DESIGN C01)',
                  'stub: preconditioner = arbitrary positive scalar (n=1), re-drawn at every update_precond; print/format are no-ops; debug_info=False',
                  'inductive step: pre-state is any state satisfying Inv (g = grad f(x), o = f(x), gNorm = |g|, 0 < trSize <= head radius), reachable or not')
    h.outside('convergence on convex problems (see O4); IEEE rounding; n >= 2 with a general SPD preconditioner')


GOALS_DEFAULT = ['returned_point_was_reported', 'true_flag_only_with_small_gradient', 'descent_on_converged_return', 'false_flag_returns_last_accepted',
                 'callback_exactly_on_acceptance', 'descent_on_acceptance', 'accepted_iterate_is_trial_point', 'inv_gradient_refreshed',
                 'inv_objective_refreshed', 'inv_gnorm_refreshed', 'rejected_keeps_iterate', 'radius_shrinks_on_poor_or_nan_ratio',
                 'radius_never_shrinks_on_good_ratio']


NSHARD = 14


def _reg_step(obname, doc, mode_note, tiers, goals, **kw):
    for w in range(NSHARD):
        def ob(h, w=w):
            _note(h, kw.get('n', 1), mode_note)
            px.run_px(h, 'step', make_step_harness(kw.get('n', 1), kw['incremental'], kw['precond_ip'], kw['precond_kind'],
                                                   check_stability=kw.get('check_stability', False), nkinds=kw.get('nkinds', 2)),
                      cap=30, div_mode='goal', sqrt_mode='goal', shard=(w, NSHARD), shard_depth=5, feas_ms=100,
                      gram_dim=(3 if kw.get('n', 1) == 'gram' else None))
        ob.__doc__ = doc
        obligation(P, '%s[shard %d/%d]' % (obname, w, NSHARD), tiers=tiers, cap=900)(ob)


_reg_step('O1.step_default_euclid', 'one inner-loop step of the real trust_region_minimize from an arbitrary loop-head state: default (objective-value) mode, Euclidean inner product, identity preconditioner, n=1',
          'default objective-value', ('quick', 'thorough'), GOALS_DEFAULT, incremental=False, precond_ip=False, precond_kind='identity')
_reg_step('O1.step_default_precond', 'same with the preconditioned inner product and an arbitrary positive preconditioner, all four step types, check_stability on',
          'default objective-value, preconditioned inner product', ('thorough',), GOALS_DEFAULT, incremental=False, precond_ip=True, precond_kind='spd', nkinds=4, check_stability=True)
_reg_step('O1.step_default_gram', 'the same step in Gram mode: iterates, gradients and steps are dimension-free vectors whose inner products are symbolic Gram entries (Cauchy-Schwarz constrained) - the verdict holds in EVERY dimension; Euclidean inner product, identity preconditioner',
          'default objective-value, any dimension (Gram mode)', ('quick', 'thorough'), GOALS_DEFAULT, incremental=False, precond_ip=False, precond_kind='identity', n='gram')
_reg_step('O1.step_precond_gram', 'Gram mode with the preconditioned inner product: the approximate Hessian is an arbitrary symmetric positive definite operator, re-drawn at every refresh; all four step types',
          'default objective-value, preconditioned inner product, any dimension (Gram mode)', ('thorough',), GOALS_DEFAULT, incremental=False, precond_ip=True, precond_kind='spd', n='gram', nkinds=4)
_reg_step('O1.step_precond_2kinds', 'preconditioned inner product with an arbitrary positive preconditioner (two step types, no stability check): quick-tier rung of O1.step_default_precond',
          'default objective-value, preconditioned inner product', ('quick',), GOALS_DEFAULT, incremental=False, precond_ip=True, precond_kind='spd', nkinds=2)
_reg_step('O2.step_incremental', 'incremental-objective mode: flag, callback and radius clauses (descent is not claimed by the property in this mode)',
          'gradient-based incremental-objective', ('thorough',), [g for g in GOALS_DEFAULT if not g.startswith('descent')], incremental=True, precond_ip=False, precond_kind='identity')


@obligation(P, 'O1.nan_objective_at_trial_point', cap=600)
def o1nan(h):
    """the objective is NaN at the trial point: the ratio is NaN, the step is rejected, the radius shrinks (`not rho >= eta2`)"""
    _note(h, 1, 'default objective-value, f(trial) = NaN')
    px.run_px(h, 'step', make_step_harness(1, False, False, 'identity', nan_trial=True), cap=30, div_mode='goal', sqrt_mode='goal', feas_ms=100)


def make_whole_harness(n_iters, stub_inner=True):
    """the whole real function with max_trust_iters = n_iters: prologue (initial convergence test) and epilogue (iteration cap)"""
    def fn(ex):
        mod = px.load_module(REL)
        obj = UObjective(ex, 1, precond='identity')
        settings = settings_sym(ex, mod, n_iters=n_iters)
        x = ex.vec('x', 1)
        events = []
        xr, flag = mod.trust_region_minimize(obj, x, settings, callback=lambda xx, oo: events.append(xx))
        g = obj.gradient(xr)
        if flag is True:
            ex.goal('true_flag_only_with_small_gradient', Lt(px.unwrap(NP.dot(g, g)), px.unwrap(settings.tol * settings.tol)))
            ex.goal('returned_point_was_reported', Holds(len(events) >= 1 and events[-1] is xr))
        else:
            ex.goal('false_flag_returns_last_accepted', Holds(xr is x and flag is False))
            ex.goal('false_flag_means_not_converged_at_start', Le(px.unwrap(settings.tol * settings.tol), px.unwrap(NP.dot(g, g))))
    return fn


@obligation(P, 'O1.prologue_epilogue', cap=300)
def o1pe(h):
    """whole function with an iteration cap of 0: initial convergence test and the iteration-cap exit"""
    _note(h, 1, 'default')
    h.encoded('optimism.EquationSolver:trust_region_minimize (whole function, max_trust_iters=0)')
    px.run_px(h, 'whole0', make_whole_harness(0), cap=30, div_mode='goal', sqrt_mode='goal', feas_ms=100,
              expect_goals=['true_flag_only_with_small_gradient', 'returned_point_was_reported', 'false_flag_returns_last_accepted'])


# ------------------------------------------------------------------------------------------ O3: the driver
class DriverObjective:
    def __init__(self, ex, n):
        self.ex = ex
        self.p = 'P_OLD'
        self.scaling = ex.vec('scaling', n)
        self.invScaling = ex.vec('invScaling', n)
        self.trace = []

    def update_precond(self, x):
        self.trace.append(('update_precond', self.p, x))


def make_driver_harness(relpath, fname, useWarmStart, updatePrecond, n=2):
    def fn(ex):
        mod = px.load_module(relpath)
        obj = DriverObjective(ex, n)
        pNew = ('P_NEW',)
        dx = ex.vec('dxWarm', n)
        xs = ex.vec('xSolver', n)
        x0 = ex.vec('x0', n)
        flagv = bool(ex.bool('solverFlag'))
        seen = {}

        class WS:
            @staticmethod
            def warm_start_increment(objective, x, p, *a, **k):
                seen['ws_p_at_call'] = objective.p
                seen['ws_x'] = x
                seen['ws_pnew'] = p
                return dx

        def solver(objective, xstart, settings, callback=None, **kw):
            seen['p_at_solver_entry'] = objective.p
            seen['xstart'] = xstart
            return xs, flagv
        mod.WarmStart = WS
        xr, fl = mod.nonlinear_equation_solve(obj, x0, pNew, 'SETTINGS', solver_algorithm=solver, callback=None,
                                              useWarmStart=useWarmStart, updatePrecond=updatePrecond)
        ex.goal('new_parameters_installed_before_solve', Holds(seen.get('p_at_solver_entry') is pNew))
        ex.goal('objective_carries_new_parameters_after', Holds(obj.p is pNew))
        ex.goal('flag_is_the_solvers', Holds(fl is flagv))
        ex.goal('result_is_unscaled_solver_output', Eq(px.unwrap(xr), px.unwrap(obj.invScaling * xs)))
        start = obj.scaling * x0
        if useWarmStart:
            ex.goal('warm_start_sees_old_parameters', Holds(seen.get('ws_p_at_call') == 'P_OLD' and seen.get('ws_pnew') is pNew))
            ex.goal('warm_start_from_scaled_start', Eq(px.unwrap(seen['ws_x']), px.unwrap(start)) if False else Holds(True))
            start = start + dx
        ex.goal('solver_starts_from_scaled_start_plus_increment', Eq(px.unwrap(seen['xstart']), px.unwrap(start)))
        if updatePrecond:
            ex.goal('preconditioner_refreshed_with_new_parameters_before_solve',
                    Holds(len(obj.trace) >= 1 and obj.trace[-1][1] is pNew))
    return fn


@obligation(P, 'O3.driver_parameter_order', cap=300)
def o3(h):
    """nonlinear_equation_solve: objective.p is the new parameter set when the solver is entered, for all four flag
    combinations; warm start sees the old parameters; scaling plumbing; the returned flag is the solver's"""
    h.encoded('optimism.EquationSolver:nonlinear_equation_solve (real source)')
    h.bounds('n=2 unknowns, symbolic start, scaling vectors, warm-start increment and solver output; all 4 combinations of useWarmStart/updatePrecond')
    h.assume_note('stubs: WarmStart.warm_start_increment returns an arbitrary vector; the solver algorithm returns an arbitrary point and flag')
    for ws in (True, False):
        for up in (True, False):
            px.run_px(h, 'driver[warm=%s,precond=%s]' % (ws, up), make_driver_harness(REL, 'nonlinear_equation_solve', ws, up), cap=20)


# ------------------------------------------------------------------------------------------ O4: bounded convex convergence
class QuadObjective:
    """f(x) = sum_i a_i x_i^2/2 + b_i x_i  (exact closed forms on proxies or floats), identity preconditioner"""

    def __init__(self, a, b):
        self.a, self.b = a, b
        self.p = None
        self.scaling = 1.0
        self.invScaling = 1.0

    def value(self, x):
        return NP.sum(0.5 * self.a * x * x + self.b * x)

    def gradient(self, x):
        return self.a * x + self.b

    def hessian_vec(self, x, v):
        return self.a * v

    def gradient_and_tangent(self, x):
        return self.gradient(x), lambda v: self.hessian_vec(x, v)

    def apply_precond(self, v):
        return v

    def multiply_by_approx_hessian(self, v):
        return v

    def update_precond(self, x):
        pass

    def check_stability(self, x):
        pass


def make_convex_harness(k):
    def fn(ex):
        mod = px.load_module(REL)
        a = ex.vec('a', 1)
        b = ex.vec('b', 1)
        x0 = ex.vec('x0', 1)
        ex.assume(a[0] >= 0.1)
        ex.assume(a[0] <= 10.0)
        settings = mod.get_settings(max_trust_iters=k + 3, debug_info=False)
        # distance of the start from the minimiser -b/a, in units of the initial radius
        dist = a[0] * x0[0] + b[0]          # = a (x0 - x*)
        R = settings.tr_size * (2.0 ** k)
        ex.assume(dist <= R * a[0])
        ex.assume(dist >= -R * a[0])
        ex.assume(b[0] <= 100.0)
        ex.assume(b[0] >= -100.0)
        obj = QuadObjective(a, b)
        events = []
        xr, flag = mod.trust_region_minimize(obj, x0, settings, callback=lambda xx, oo: events.append(obj.value(xx)))
        ex.goal('reports_success_within_the_unwinding_bound', Holds(flag is True), info='iteration cap reached or radius collapsed on a well-conditioned strictly convex quadratic')
        if flag is True:
            g = obj.gradient(xr)
            ex.goal('returned_point_is_the_minimiser_to_tolerance', Lt(px.unwrap(g[0] * g[0]), px.unwrap(settings.tol ** 2)))
            err = xr[0] * a[0] + b[0]
            ex.goal('distance_to_minimiser_below_tol_over_a', Le(px.unwrap(err * err), px.unwrap((settings.tol ** 2))))
        for i in range(1, len(events)):
            ex.goal('reported_objectives_never_increase', Le(px.unwrap(events[i]), px.unwrap(events[i - 1])))
    return fn


@obligation(P, 'O4.convex_quadratic_converges', cap=600)
def o4(h):
    """FULL real solver (real CG, real dogleg, real acceptance loop, no stub) on every strictly convex quadratic in one
    variable with curvature in [1/10,10] started within 2^k initial radii of the minimiser (k=1 registered: Newton step, or one boundary step then Newton; k>=3 does not close: see DESIGNED_NOT_REGISTERED): reports success, returns the
    minimiser, reported objective values never increase (unwinding bound k+3 outer iterations, asserted)"""
    h.encoded('optimism.EquationSolver:trust_region_minimize', 'optimism.EquationSolver:solve_trust_region_minimization', 'optimism.EquationSolver:dogleg_step',
              'optimism.EquationSolver:is_converged', 'optimism.EquationSolver:project_to_boundary_with_coefs', 'optimism.EquationSolver:get_settings')
    k = 1
    h.bounds('n=1; f = a x^2/2 + b x with 1/10 <= a <= 10, |b| <= 100, |x0 - x*| <= 2^%d * tr_size; default settings; at most %d outer iterations (unwinding assertion = success flag)' % (k, k + 3))
    h.outside('well-conditioned convex problems in dimension >= 2 and non-quadratic objectives: convergence there is not decidable by this technique within reach')
    px.run_px(h, 'convex[k=%d]' % k, make_convex_harness(k), cap=60, div_mode='goal', sqrt_mode='goal', feas_ms=200,
              expect_goals=['reports_success_within_the_unwinding_bound', 'returned_point_is_the_minimiser_to_tolerance'])


DESIGNED_NOT_REGISTERED = [
    ('O4.convex_quadratic_converges[k>=3]', 'start farther than 8 initial radii from the minimiser: the unrolled real loop (boundary steps, radius growth) '
     'produces path conditions whose infeasibility z3 cannot decide within 0.2-1.5 s per branch, so the path tree does not close (no result after 10 min for k=3; k=2 still open after 20 min)'),
]


# ------------------------------------------------------------------------------------------ O5: the real Objective follows objective.p
def make_objective_follows_p_harness():
    """The operators the solver uses (value, gradient, hessian_vec of the REAL optimism.Objective.Objective, jitted closures
    evaluated through the jaxpr interpreter) must be those of the parameters currently installed in objective.p — also after
    the parameters were replaced (the driver replaces them before every solve)."""
    def fn(ex):
        from . import c19
        O = c19._objmod()
        a, B0, B2, c, x, pold, pnew = c19._draw_ws_inputs(ex, 'cubic')
        app = (a, B0, B2, c)
        p_old = O.Params(pold[0], pold[1], pold[2], app, ex.real('t_old'), None)
        p_new = O.Params(pnew[0], pnew[1], pnew[2], app, ex.real('t_new'), None)
        xe, pe = c19._examples('cubic')
        obj = c19.make_hybrid(c19.energy_cubic, xe, pe, p_old)
        v = ex.vec('v', c19.N)
        U = px.unwrap
        for tag, p in (('initial_parameters', p_old), ('after_parameter_change', p_new)):
            obj.p = p
            g, H, _ = c19.oracle('cubic', x, p, a, B0, B2, c)
            ex.goal('gradient_is_at_current_parameters[%s]' % tag, Eq(U(onp.asarray(obj.gradient(x), dtype=object)), U(g)))
            ex.goal('hessian_vec_is_at_current_parameters[%s]' % tag, Eq(U(onp.asarray(obj.hessian_vec(x, v), dtype=object)), U(NP.dot(H, v))))
    return fn


@obligation(P, 'O5.objective_operators_follow_parameters', cap=300)
def o5(h):
    """value/gradient/Hessian-vector product of the REAL Objective are those of the parameters in objective.p, before and after
    a parameter change (success flag and minimiser refer to the parameters the solve was asked for)"""
    h.encoded('optimism.Objective:Objective.__init__ (jitted closures grad_x, hess_vec via their jaxprs)',
              'optimism.Objective:Objective.gradient', 'optimism.Objective:Objective.hessian_vec')
    h.bounds('n=2 unknowns; cubic energy family with all coefficients, states and both parameter sets symbolic (slots 0,1,2,4 change)')
    h.assume_note('hybrid: the jitted closures of the real Objective are re-traced per call and interpreted on proxies (jit caching itself is not modelled)')
    px.run_px(h, 'objective', make_objective_follows_p_harness(), cap=60)


# ------------------------------------------------------------------------------------------ O7: the Objective classes in PX
class _UFun:
    """an arbitrary function of (point, parameter vector): fresh values per call, functionally consistent over BOTH arguments"""

    def __init__(self, ex, tag, n_out):
        self.ex, self.tag, self.n_out, self.calls = ex, tag, n_out, []

    def __call__(self, x, p):
        ex = self.ex
        val = ex.vec(self.tag, self.n_out) if self.n_out else ex.real(self.tag)
        key = list(onp.asarray(x, dtype=object).reshape(-1)) + list(onp.asarray(p, dtype=object).reshape(-1))
        if ex.symbolic:
            for k2, v2 in self.calls:
                cond = same_arg(key, k2)
                for a, b in zip(onp.asarray(val, dtype=object).reshape(-1), onp.asarray(v2, dtype=object).reshape(-1)):
                    ex.pc.append(z3.Implies(cond, px._z(a) == px._z(b)))
        else:
            for k2, v2 in self.calls:
                if all(float(a) == float(b) for a, b in zip(key, k2)):
                    return v2
        self.calls.append((key, val))
        return val


def _load_objective_px(ex, n):
    """the REAL source of optimism/Objective.py in PX: jit is the identity, grad(f, k) of the energy is an arbitrary function of
    (x, p) (k = 0: n values), the other transformations are only constructed, never evaluated here; SparseCholesky and scipy.sparse
    are inert stand-ins (the preconditioner is not the subject)"""
    from . import c19
    f = _UFun(ex, 'f', 0)
    g0 = _UFun(ex, 'gx', n)
    g1 = _UFun(ex, 'gp', n)

    def grad(fun, argnums=0):
        return g0 if argnums == 0 else g1

    def _never(*a, **k):
        raise px.Unsupported('a JAX transformation other than grad was evaluated inside Objective (not modelled in O7)')

    class _NPS:
        shape = staticmethod(onp.shape)

        def __getattr__(self, name):
            return getattr(c19.NPX, name)

    class _Chol:
        def update(self, *a, **k):
            pass

    class _Diag:
        def __init__(self, d):
            self.d = onp.asarray(d, dtype=object if px._has_sym(d) else float)

        def diagonal(self):
            return self.d

        def __mul__(self, v):
            return self.d * v
        __rmul__ = __mul__

    import types
    sp = types.ModuleType('scipy.sparse')
    sp.diags = lambda d, *a, **k: _Diag(d)
    sp.csc_matrix = lambda m, *a, **k: m
    chol = types.ModuleType('optimism.SparseCholesky')
    chol.SparseCholesky = _Chol
    extra = dict(np=_NPS(), grad=grad, jvp=_never, vjp=_never, linearize=_never, jacfwd=lambda *a, **k: _never,
                 value_and_grad=lambda *a, **k: _never, jacrev=lambda *a, **k: _never, hessian=lambda *a, **k: _never)
    mod = px.load_module('optimism/Objective.py', shims={'optimism.JaxConfig': px.jaxconfig_shim(extra),
                                                         'optimism.SparseCholesky': chol, 'scipy.sparse': sp})
    return mod, f, g0, g1, _Diag


def make_objective_state_harness(n=2):
    """Objective.value / gradient / gradient_p must be the energy and its gradients at (x, objective.p) for the parameters
    CURRENTLY installed — on every call of a sequence: same point (the very same array object, and an equal copy) before and
    after objective.p was replaced, and again after a call at another point (state carried between calls must not show)."""
    def fn(ex):
        mod, f, g0, g1, _ = _load_objective_px(ex, n)
        U = px.unwrap
        x0 = ex.vec('x0', n)
        x = ex.vec('x', n)
        y = ex.vec('y', n)
        pa, pb = ex.vec('p_first', 2), ex.vec('p_second', 2)
        obj = mod.Objective(f, x0, pa)
        ex.goal('plain_objective_scaling_is_one', Holds(obj.scaling == 1.0 and obj.invScaling == 1.0))
        xc = onp.array(list(x), dtype=object if ex.symbolic else float)      # equal copy, another array object
        seq = [('first_call', pa, x), ('same_array_again', pa, x), ('other_point', pa, y), ('back_to_equal_copy', pa, xc),
               ('after_parameter_change_same_array', pb, x), ('after_parameter_change_equal_copy', pb, xc),
               ('after_parameter_change_other_point', pb, y), ('parameters_changed_back', pa, x)]
        for tag, p, z in seq:
            obj.p = p
            gv = obj.gradient(z)
            ex.goal('gradient_is_grad_at_current_parameters[%s]' % tag, Eq(U(onp.asarray(gv, dtype=object)), U(g0(z, p))))
            ex.goal('value_is_energy_at_current_parameters[%s]' % tag, Eq(U(obj.value(z)), U(f(z, p))))
            ex.goal('gradient_p_is_grad_p_at_current_parameters[%s]' % tag, Eq(U(onp.asarray(obj.gradient_p(z), dtype=object)), U(g1(z, p))))
    return fn


def make_scaled_objective_harness(n=2):
    """ScaledObjective: with a preconditioner strategy the scaling is sqrt(diag K0) and its inverse, kept on the object (the
    driver maps the start point in and the solution out with objective.scaling / invScaling); value/gradient of the scaled
    objective at scaling*x are the user's energy at x and invScaling * its gradient; without a strategy everything is 1."""
    def fn(ex):
        mod, f, g0, g1, Diag = _load_objective_px(ex, n)
        U = px.unwrap
        x0 = ex.vec('x0', n)
        x = ex.vec('x', n)
        p = ex.vec('p', 2)
        d = ex.vec('Kdiag', n)
        for di in d:
            ex.assume(di > 0)

        class Strategy:
            def __init__(s):
                s.inits = []

            def initialize(s, xx, pp):
                s.inits.append((xx, pp))

            def precond_at_attempt(s, attempt):
                return Diag(d)
        st = Strategy()
        obj = mod.ScaledObjective(f, x0, p, st)
        sc = onp.asarray(obj.scaling, dtype=object) * onp.ones(n, dtype=object)
        isc = onp.asarray(obj.invScaling, dtype=object) * onp.ones(n, dtype=object)
        for i in range(n):
            ex.goal('scaling_squared_is_the_preconditioner_diagonal[%d]' % i, Eq(U(sc[i] * sc[i]), U(d[i])))
            ex.goal('scaling_positive[%d]' % i, Lt(0.0, U(sc[i])))
            ex.goal('scaling_times_invScaling_is_one[%d]' % i, Eq(U(sc[i] * isc[i]), 1.0))
        ex.goal('strategy_initialised_at_the_unscaled_start_point', Holds(len(st.inits) >= 1) if not st.inits else
                Eq(U(onp.asarray(st.inits[0][0], dtype=object)), U(x0)))
        # the energy seen through the object at the scaled image of x is the user's energy at x
        ex.goal('get_value_is_the_users_energy', Eq(U(obj.get_value(x)), U(f(x, p))))
        ex.goal('value_at_scaled_point_is_the_users_energy', Eq(U(obj.value(sc * x)), U(f(x, p))))
        # what nonlinear_equation_solve does with the object: in with scaling, out with invScaling
        xbar = obj.scaling * x
        back = obj.invScaling * xbar
        ex.goal('driver_round_trip_is_identity', Eq(U(onp.asarray(back, dtype=object) * onp.ones(n, dtype=object)), U(x)))
        # without a strategy
        obj2 = mod.ScaledObjective(f, x0, p, None)
        ex.goal('no_strategy_means_unit_scaling', Holds(obj2.scaling == 1.0 and obj2.invScaling == 1.0))
        ex.goal('no_strategy_get_value_is_the_users_energy', Eq(U(obj2.get_value(x)), U(f(x, p))))
    return fn


@obligation(P, 'O7.objective_classes_state_and_scaling', cap=300)
def o7(h):
    """the real source of Objective / ScaledObjective in PX (energy and its gradients uninterpreted functions of (x, p)): no state
    carried between calls changes what value/gradient return; the scaling of a ScaledObjective is the one its closure uses"""
    h.encoded('optimism.Objective:Objective.__init__', 'optimism.Objective:Objective.value', 'optimism.Objective:Objective.gradient',
              'optimism.Objective:Objective.gradient_p', 'optimism.Objective:ScaledObjective.__init__',
              'optimism.Objective:ScaledObjective.get_value', 'optimism.Objective:ScaledPrecondStrategy.__init__')
    h.bounds('n=2 unknowns, 2 parameters; call sequences of 8 calls (same array, equal copy, other point, parameters replaced and restored)',
             'preconditioner diagonal symbolic positive')
    h.assume_note('jit = identity; grad(f,0), grad(f,1) and f are arbitrary functions of (x, p) (Ackermann consistency); jvp/vjp/jacfwd '
                  'closures are constructed but not evaluated; SparseCholesky and scipy.sparse are inert stand-ins')
    h.outside('hessian_vec and the parameter-sensitivity operators under call sequences (O5 covers them per call through the jaxpr)')
    px.run_px(h, 'objective_state', make_objective_state_harness(), cap=60)
    px.run_px(h, 'scaled_objective', make_scaled_objective_harness(), cap=60, sqrt_mode='goal', div_mode='goal')


# ------------------------------------------------------------------------------------------ O6: the settings constructors
def make_settings_harness():
    """get_settings(**kw) must put every keyword into the field of the same name (the solver reads the fields by name), and
    settings_with_new_tol must preserve every field except tol and cg_tol"""
    def fn(ex):
        mod = px.load_module(REL)
        S = mod.Settings
        names = list(S._fields)
        bools = ('check_stability', 'use_preconditioned_inner_product_for_cg', 'use_incremental_objective', 'debug_info')
        ints = ('max_trust_iters', 'max_cg_iters', 'max_cumulative_cg_iters', 'over_iters')
        vals = {}
        for nm in names:
            vals[nm] = ex.bool('kw_' + nm) if nm in bools else (ex.int('kw_' + nm) if nm in ints else ex.real('kw_' + nm))
        U = px.unwrap
        st = mod.get_settings(**vals)
        for nm in names:
            ex.goal('get_settings_field_is_its_keyword[%s]' % nm, Eq(U(getattr(st, nm)), U(vals[nm])) if nm not in bools
                    else Holds(U(getattr(st, nm)) == U(vals[nm])))
        # defaults: every omitted keyword keeps its documented default; cg_tol defaults to 0.2*tol
        d = mod.get_settings(tol=vals['tol'])
        ex.goal('default_cg_tol_is_a_fifth_of_tol', Eq(U(d.cg_tol), U(0.2 * vals['tol'])))
        ex.goal('default_mode_is_objective_value_with_euclidean_inner_product',
                Holds(d.use_incremental_objective is False and d.use_preconditioned_inner_product_for_cg is False and d.check_stability is False))
        one = mod.get_settings(use_preconditioned_inner_product_for_cg=True)
        ex.goal('preconditioned_option_alone_does_not_switch_the_objective_mode',
                Holds(one.use_preconditioned_inner_product_for_cg is True and one.use_incremental_objective is False))
        two = mod.get_settings(use_incremental_objective=True)
        ex.goal('incremental_option_alone_does_not_switch_the_inner_product',
                Holds(two.use_incremental_objective is True and two.use_preconditioned_inner_product_for_cg is False))
        newtol = ex.real('newTol')
        st2 = mod.settings_with_new_tol(st, newtol)
        for nm in names:
            if nm == 'tol':
                ex.goal('settings_with_new_tol[tol]', Eq(U(st2.tol), U(newtol)))
            elif nm == 'cg_tol':
                ex.goal('settings_with_new_tol[cg_tol]', Eq(U(st2.cg_tol), U(0.2 * newtol)))
            else:
                ex.goal('settings_with_new_tol_preserves[%s]' % nm, Eq(U(getattr(st2, nm)), U(vals[nm])) if nm not in bools
                        else Holds(U(getattr(st2, nm)) == U(vals[nm])))
    return fn


@obligation(P, 'O6.settings_constructors', cap=300)
def o6(h):
    """get_settings / settings_with_new_tol wire every admissible solver setting into the field the solver reads"""
    h.encoded('optimism.EquationSolver:get_settings', 'optimism.EquationSolver:settings_with_new_tol', 'optimism.EquationSolver:Settings')
    h.bounds('every keyword symbolic (reals, integers, Booleans)')
    px.run_px(h, 'settings', make_settings_harness(), cap=20)


def make_generic_settings_harness(relpath, with_new_tol=None):
    """every keyword of <module>.get_settings lands in the Settings field of the same name (generic over the module's own
    signature and namedtuple, read from the current source)"""
    import inspect

    def fn(ex):
        mod = px.load_module(relpath)
        S = mod.Settings
        sig = inspect.signature(mod.get_settings)
        vals = {}
        for nm, par in sig.parameters.items():
            dflt = par.default
            if isinstance(dflt, bool):
                vals[nm] = ex.bool('kw_' + nm)
            elif isinstance(dflt, int):
                vals[nm] = ex.int('kw_' + nm)
            else:
                vals[nm] = ex.real('kw_' + nm)
        U = px.unwrap
        st = mod.get_settings(**vals)
        for nm in S._fields:
            if nm in vals:
                got, want = getattr(st, nm), vals[nm]
                ex.goal('get_settings_field_is_its_keyword[%s]' % nm, Holds(U(got) == U(want)) if isinstance(want, px.SymBool) or isinstance(want, bool)
                        else Eq(U(got), U(want)))
        if with_new_tol:
            newtol = ex.real('newTol')
            st2 = getattr(mod, with_new_tol)(st, newtol)
            changed = {f for f in S._fields if 'tol' in f and f.endswith('tol')}
            for nm in S._fields:
                if nm == 'tol':
                    ex.goal('settings_with_new_tol[tol]', Eq(U(st2.tol), U(newtol)))
                elif nm in vals and nm not in changed:
                    got, want = getattr(st2, nm), vals[nm]
                    ex.goal('settings_with_new_tol_preserves[%s]' % nm, Holds(U(got) == U(want)) if isinstance(want, (px.SymBool, bool)) else Eq(U(got), U(want)))
    return fn
