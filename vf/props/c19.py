"""C19 — load stepping: the warm start is the exact linear predictor, scaling is transparent, the objective carries the
new parameters (PX on the real drivers + JX on the real Objective's jitted closures + CrossHair for the tuple leaf)."""
import os
import subprocess
import sys
import tempfile

import numpy as onp
import z3
import jax
import jax.numpy as jnp

from ..core import obligation, REPO, VERIF
from .. import px, jx, sym
from ..px import SymReal, SymBool, NP
from ..sym import Le, Lt, Eq, Holds, v_mul, v_add, v_sub, v_lt, v_le, v_sum
from ..jxh import Case
from . import c01

P = 'C19'


def _objmod():
    from optimism import Objective
    return Objective


# ------------------------------------------------------------------------------------------ hybrid PX/JX objective
JITTED = ('objective', 'grad_x', 'grad_p', 'hess_vec', 'vec_hess', 'jac_xp_vec', 'jac_xp2_vec', 'vec_jac_xp0', 'vec_jac_xp1',
          'vec_jac_xp2', 'vec_jac_xp4', 'hess')
_JAXPR_CACHE = {}


def _obj0(t):
    o = onp.empty((), dtype=object)
    o[()] = t
    return o


def _to_terms(leaf):
    """proxy leaf (SymReal / float / object array of them) -> object array of z3 terms / python floats"""
    if isinstance(leaf, onp.ndarray):
        out = onp.empty(leaf.shape, dtype=object)
        of = out.reshape(-1)
        for i, v in enumerate(leaf.reshape(-1)):
            of[i] = px.unwrap(v) if px.is_sym(v) else float(v)
        return out
    if px.is_sym(leaf):
        return _obj0(leaf.z)
    a = onp.asarray(leaf, dtype=float)
    return jx.lift(a)


def _from_terms(arr):
    """object array of z3 terms / numbers -> proxies (a 0-d result becomes a scalar)"""
    if arr.shape == ():
        return px.wrap(arr[()]) if sym.isz(arr[()]) else float(arr[()])
    out = onp.empty(arr.shape, dtype=object)
    of = out.reshape(-1)
    for i, v in enumerate(arr.reshape(-1)):
        of[i] = px.wrap(v) if sym.isz(v) else float(v)
    return out


class JXCallable:
    """one jitted closure of the REAL Objective (hess_vec, jac_xp_vec, vec_jac_xp2, ...): called on proxies it traces the
    closure to its jaxpr (jax.make_jaxpr of the real jitted function, same pytree structure as the call) and evaluates
    that jaxpr with JX on the z3 terms; called on numbers (replay of a model) it runs the real jitted function."""

    def __init__(self, owner, fn, name):
        self.owner, self.fn, self.name = owner, fn, name

    def __call__(self, *args):
        leaves, td = jax.tree_util.tree_flatten(args)
        symbolic = any(px.is_sym(l) or px._has_sym(l) for l in leaves)
        self.owner.calls.append((self.name, symbolic))
        if not symbolic:
            cargs = jax.tree_util.tree_unflatten(td, [jnp.asarray(onp.asarray(l, dtype=float)) for l in leaves])
            out = self.fn(*cargs)
            return jax.tree_util.tree_map(lambda a: onp.asarray(a, dtype=float) if onp.ndim(a) else float(a), out)
        shapes = tuple(onp.shape(l) for l in leaves)
        key = (id(self.fn), str(td), shapes)
        if key not in _JAXPR_CACHE:
            example = jax.tree_util.tree_unflatten(td, [jnp.asarray(onp.full(s, 0.5)) for s in shapes])
            _JAXPR_CACHE[key] = (jax.make_jaxpr(self.fn, return_shape=True)(*example), self.fn)   # keep fn alive: id() is the key
        (cj, out_shape), _ = _JAXPR_CACHE[key]
        ctx = self.owner.ctx
        n_side, n_den = len(ctx.side), len(ctx.denoms)
        outs = jx.eval_jaxpr(ctx, cj.jaxpr, cj.consts, *[_to_terms(l) for l in leaves])
        ex = px.cur()
        for s in ctx.side[n_side:]:
            ex.pc.append(s)
        for g, d in ctx.denoms[n_den:]:
            c = d != 0
            ex._defined_goal('division_defined', z3.Implies(g, c) if g is not None else c, 'zero denominator inside %s' % self.name)
            ex.pc.append(z3.Implies(g, c) if g is not None else c)
        if ctx.ufs:
            raise px.Unsupported('transcendental function inside %s: the hybrid adapter is for polynomial energies' % self.name)
        otd = jax.tree_util.tree_structure(out_shape)
        return jax.tree_util.tree_unflatten(otd, [_from_terms(o) for o in outs])


class IdentityPrecond:
    """stands in for SparseCholesky (sksparse is absent): the identity operator"""

    def __init__(self):
        self.applied = 0

    def apply(self, v):
        self.applied += 1
        return v

    def multiply_by_approximate(self, v):
        return v

    def update(self, f):
        pass

    def check_stability(self, x, p):
        pass


class ScalarPrecond(IdentityPrecond):
    """an arbitrary positive multiple of the identity (n = 1: an arbitrary SPD preconditioner)"""

    def __init__(self, ex, name='P'):
        IdentityPrecond.__init__(self)
        self.s = ex.real(name)
        ex.assume(self.s > 0)

    def apply(self, v):
        self.applied += 1
        return v / self.s

    def multiply_by_approximate(self, v):
        return v * self.s


def make_hybrid(f, x_example, p_example, p, precond=None):
    """the REAL optimism.Objective.Objective built on the energy f; its jitted closures are replaced, on a shallow copy
    whose class derives from the real class (so value/gradient/hessian_vec/jacobian_p_vec/vec_jacobian_p* are the real
    methods, reading self.p), by JXCallable wrappers.  The closures themselves keep referring to the untouched real object."""
    O = _objmod()
    real = O.Objective(f, x_example, p_example)

    class HybridObjective(O.Objective):
        def __init__(self):
            pass
    hy = HybridObjective()
    hy.__dict__.update(real.__dict__)
    hy.ctx = jx.Ctx()
    hy.calls = []
    hy.real = real
    for nm in JITTED:
        setattr(hy, nm, JXCallable(hy, getattr(real, nm), nm))
    hy.precond = precond if precond is not None else IdentityPrecond()
    hy.p = p
    return hy


def zeq(a, b):
    """componentwise equality of two proxy vectors as SymBool conditions"""
    out = []
    for x, y in zip(onp.asarray(a, dtype=object).reshape(-1), onp.asarray(b, dtype=object).reshape(-1)):
        out.append(SymBool(px._z(x) == px._z(y)))
    return out


def U(x):
    return px.unwrap(x)


# ------------------------------------------------------------------------------------------ O1: warm start
N, M0, M2 = 2, 2, 1


def energy_quadratic(x, p):
    """f = x.A x/2 - x.B0 p0 - x.B2 p2 - x.q ; A, B0, B2, q travel in the app_data slot so that they are traced (symbolic)"""
    a, B0, B2, q = p[3]
    A = jnp.array([[a[0], a[1]], [a[1], a[2]]])
    return 0.5 * x @ (A @ x) - x @ (B0 @ p[0]) - x @ (B2 @ p[2]) - x @ q


def energy_cubic(x, p):
    """non-quadratic family: cubic in x, coupling to p0 modulated by x, quadratic in the design parameter p2"""
    a, B0, B2, c = p[3]
    A = jnp.array([[a[0], a[1]], [a[1], a[2]]])
    return (0.5 * x @ (A @ x) + c[0] * (x[0] ** 3 + x[1] ** 3) + c[1] * x[0] ** 2 * x[1]
            - (1.0 + c[2] * x[1]) * (x @ (B0 @ p[0])) - (x @ B2[:, 0]) * p[2][0] ** 2)


def oracle(kind, x, p, a, B0, B2, c, q=0.0):
    """independent hand-derived gradient, Hessian and parameter Jacobians of the two families (NP ops on proxies/floats)"""
    A = onp.array([[a[0], a[1]], [a[1], a[2]]], dtype=object)
    b0 = NP.dot(B0, p[0])
    if kind == 'quadratic':
        g = NP.dot(A, x) - b0 - NP.dot(B2, p[2]) - q
        H = A
        dgdp0 = lambda w: -NP.dot(B0, w)
        dgdp2 = lambda w: -NP.dot(B2, w)
        return g, H, {0: dgdp0, 2: dgdp2}
    e1 = onp.array([0.0, 1.0])
    xb = NP.dot(x, b0)
    g = (NP.dot(A, x) + 3.0 * c[0] * onp.array([x[0] * x[0], x[1] * x[1]], dtype=object)
         + c[1] * onp.array([2.0 * x[0] * x[1], x[0] * x[0]], dtype=object)
         - (1.0 + c[2] * x[1]) * b0 - (c[2] * xb) * e1 - B2[:, 0] * (p[2][0] * p[2][0]))
    H = onp.empty((2, 2), dtype=object)
    H[0, 0] = A[0, 0] + 6.0 * c[0] * x[0] + 2.0 * c[1] * x[1]
    H[0, 1] = A[0, 1] + 2.0 * c[1] * x[0] - c[2] * b0[0]
    H[1, 0] = H[0, 1]
    H[1, 1] = A[1, 1] + 6.0 * c[0] * x[1] - 2.0 * c[2] * b0[1]
    dgdp0 = lambda w: -(1.0 + c[2] * x[1]) * NP.dot(B0, w) - (c[2] * NP.dot(x, NP.dot(B0, w))) * e1
    dgdp2 = lambda w: -B2[:, 0] * (2.0 * p[2][0] * w[0])
    return g, H, {0: dgdp0, 2: dgdp2}


class LinOpStub:
    """scipy.sparse.linalg.LinearOperator: only (shape, matvec) is used by the code under test"""

    def __init__(self, shape, matvec=None, **kw):
        self.shape, self.matvec = shape, matvec


def _draw_ws_inputs(ex, kind):
    a = ex.vec('a', 3)
    B0 = ex.mat('B0', N, M0)
    B2 = ex.mat('B2', N, M2)
    c = ex.vec('c', 3) if kind == 'cubic' else None
    x = ex.vec('x', N)
    pold = [ex.vec('p0_old', M0), ex.vec('p1_old', 1), ex.vec('p2_old', M2)]
    pnew = [ex.vec('p0_new', M0), ex.vec('p1_new', 1), ex.vec('p2_new', M2)]
    return a, B0, B2, c, x, pold, pnew


def _examples(kind):
    app = (jnp.array([2.0, 0.3, 1.0]), jnp.ones((N, M0)), jnp.ones((N, M2))) + ((jnp.ones(3),) if kind == 'cubic' else (jnp.ones(N),))
    O = _objmod()
    return jnp.array([0.3, 0.2]), O.Params(jnp.ones(M0), jnp.ones(1), jnp.ones(M2), app, 0.0, None)


def make_ws_harness(index, kind, use_default_index=False):
    """WarmStart.warm_start_increment(objective, x, pNew, index) with the REAL Objective (hybrid) on one energy family"""
    f = energy_quadratic if kind == 'quadratic' else energy_cubic

    def fn(ex):
        O = _objmod()
        mod = px.load_module('optimism/WarmStart.py')
        a, B0, B2, c, x, pold, pnew = _draw_ws_inputs(ex, kind)
        t_old, t_new = ex.real('t_old'), ex.real('t_new')
        if kind == 'cubic':
            app = (a, B0, B2, c)
        else:
            # the dead load q is CHOSEN such that x is an equilibrium at the old parameters: every quadratic energy with
            # equilibrium x_old is a member (q = A x - B0 p0_old - B2 p2_old), and the landing goal becomes an unconditional identity
            q = oracle(kind, x, (pold[0], pold[1], pold[2]), a, B0, B2, c)[0]
            app = (a, B0, B2, q)
        p_old = O.Params(pold[0], pold[1], pold[2], app, t_old, None)
        p_new = O.Params(pnew[0], pnew[1], pnew[2], app, t_new, None)     # every differentiable slot changes; only `index` may be used
        xe, pe = _examples(kind)
        obj = make_hybrid(f, xe, pe, p_old)
        g_old, H, dgdp = oracle(kind, x, p_old, a, B0, B2, c, q=(app[3] if kind == 'quadratic' else 0.0))
        # the Hessian at the current state is SPD (the linear system has exactly one solution)
        ex.assume(H[0, 0] > 0)
        ex.assume(H[0, 0] * H[1, 1] - H[0, 1] * H[0, 1] > 0)
        seen = {}

        if ex.symbolic:
            def cg_stub(Lop, b, x0=None, M=None, callback=None, **kw):
                # contract of scipy.sparse.linalg.cg: returns dx with L dx = b (exactly), exit code 0; one call per run
                dx = ex.vec('dx', N)
                for cnd in zeq(Lop.matvec(dx), b):
                    ex.assume(cnd)
                seen.update(Lop=Lop, b=b, M=M, dx=dx)
                return dx, 0
            mod.cg = cg_stub
            mod.LinearOperator = LinOpStub
        else:
            real_cg, real_lo = mod.cg, mod.LinearOperator

            def cg_spy(Lop, b, **kw):
                seen.update(Lop=Lop, b=onp.asarray(b, dtype=float), M=kw.get('M'))
                return real_cg(Lop, b, **kw)
            mod.cg = cg_spy
        x_in = x.copy()
        if use_default_index:
            dx = mod.warm_start_increment(obj, x, p_new)
        else:
            dx = mod.warm_start_increment(obj, x, p_new, index)
        dp = p_new[index] - p_old[index]
        rhs = -dgdp[index](dp)                       # -(dg/dp_index)(x_old, p_old) (p_new - p_old)
        ex.goal('rhs_is_minus_dgdp_times_parameter_change', Eq(U(onp.asarray(seen['b'], dtype=object)), U(rhs)),
                info='right-hand side handed to cg')
        w = ex.vec('probe', N)
        ex.goal('operator_is_hessian_at_old_state', Eq(U(onp.asarray(seen['Lop'].matvec(w), dtype=object)), U(NP.dot(H, w))),
                info='operator handed to cg, applied to an arbitrary vector')
        ex.goal('preconditioner_is_the_objectives', Eq(U(onp.asarray(seen['M'].matvec(w), dtype=object)), U(obj.apply_precond(w))))
        ex.goal('increment_is_the_linear_predictor', Eq(U(NP.dot(H, dx)), U(rhs)), info='H dx = -(dg/dp) dp for the returned increment')
        ex.goal('objective_parameters_untouched', Holds(obj.p is p_old))
        ex.goal('start_point_untouched', Eq(U(x), U(x_in)))
        if kind == 'quadratic':
            # x_old is an equilibrium at the old parameters (by the choice of q) => x_old + dx is one at the new value of slot
            # `index` (the other slots as before); both gradients through the REAL Objective.grad_x
            sc = onp.max(onp.abs(onp.asarray(seen['b'], dtype=float))) + 1.0 if not ex.symbolic else 1.0
            g_code_old = obj.grad_x(x, p_old)
            ex.goal('old_state_is_an_equilibrium', Eq(U(onp.asarray(g_code_old, dtype=object)), [0.0] * N, scale=sc))
            p_upd = O.param_index_update(p_old, index, p_new[index])
            g_new = obj.grad_x(x + dx, p_upd)
            ex.goal('lands_on_the_new_solution', Eq(U(onp.asarray(g_new, dtype=object)), [0.0] * N, scale=sc),
                    info='grad f(x_old + dx; p_new) for an equilibrium x_old of a quadratic energy')
    return fn


def make_ws_bad_index_harness(index):
    def fn(ex):
        O = _objmod()
        mod = px.load_module('optimism/WarmStart.py')
        a, B0, B2, c, x, pold, pnew = _draw_ws_inputs(ex, 'quadratic')
        app = (a, B0, B2, ex.vec('q', N))
        p_old = O.Params(pold[0], pold[1], pold[2], app, ex.real('t_old'), ex.vec('dyn_old', 1))
        p_new = O.Params(pnew[0], pnew[1], pnew[2], app, ex.real('t_new'), ex.vec('dyn_new', 1))
        xe, pe = _examples('quadratic')
        obj = make_hybrid(energy_quadratic, xe, pe, p_old)
        called = []
        mod.cg = lambda *a_, **k: called.append('cg') or (ex.vec('dx', N), 0)
        mod.LinearOperator = LinOpStub
        raised = None
        try:
            mod.warm_start_increment(obj, x, p_new, index)
        except px.PathAbort:
            raise
        except Exception as e:      # the source says `raise('...')`: a TypeError, still an exception
            raised = e
        ex.goal('raises', Holds(raised is not None), info='index %d returned an increment instead of raising' % index)
        ex.goal('no_linear_solve_attempted', Holds(not called))
        ex.goal('objective_parameters_untouched', Holds(obj.p is p_old))
    return fn


WS_GOALS = ['rhs_is_minus_dgdp_times_parameter_change', 'operator_is_hessian_at_old_state', 'preconditioner_is_the_objectives',
            'increment_is_the_linear_predictor', 'objective_parameters_untouched', 'start_point_untouched']


@obligation(P, 'O1.warm_start_increment', cap=300)
def o1(h):
    """WarmStart.warm_start_increment with scipy's cg replaced by its contract (L dx = b exactly) and the REAL
    optimism.Objective.Objective whose jitted closures (jac_xp_vec, jac_xp2_vec, hess_vec, grad_x) are evaluated by JX:
    for index 0 and 2 the right-hand side is -(dg/dp_index)(p_new - p_old), the operator is the Hessian at (x_old, p_old),
    hence H dx = -(dg/dp)(p_new-p_old); on the quadratic family grad f(x_old + dx; p_new) = 0 for every equilibrium x_old;
    indices 1, 3, 4, 5 raise"""
    O = _objmod()
    h.encoded('optimism.WarmStart:warm_start_increment (real source under PX)', O.Objective.__init__, O.Objective.jacobian_p_vec, O.Objective.jacobian_p2_vec,
              O.Objective.hessian_vec, O.Objective.apply_precond, O.param_index_update,
              'jaxprs of Objective.jac_xp_vec / jac_xp2_vec / hess_vec / grad_x (jit closures built by the real Objective.__init__, traced per run)')
    h.bounds('n=2 unknowns, p0 in R^2, p1 in R^1, p2 in R^1, time scalar: all symbolic, old and new values differ in EVERY slot; '
             'quadratic family x.A x/2 - x.B0 p0 - x.B2 p2 - x.q (A sym 2x2, B0 2x2, B2 2x1 symbolic; q such that x_old is an equilibrium at p_old) and a cubic family '
             '(+ c0 (x0^3+x1^3) + c1 x0^2 x1, coupling -(1+c2 x1) x.B0 p0 - x.B2 p2^2); Hessian at the old state SPD; index in 0..5')
    h.assume_note('stub: scipy.sparse.linalg.cg returns dx with L dx = b exactly and exit code 0 (accuracy of scipy cg is outside the claim); LinearOperator = (shape, matvec) record',
                  'stub: SparseCholesky (sksparse absent) replaced by the identity preconditioner on the objective',
                  'hybrid: the objective is the real Objective class; its jitted closures are evaluated through their jaxprs by JX on the proxy arrays (replay: the real jitted closures, real scipy cg)',
                  'oracle: gradient/Hessian/parameter Jacobians of the two families derived by hand in the harness')
    h.outside('accuracy and termination of scipy cg; energies with transcendental terms; warm_start_increment_jax_safe (C07 path)')
    for idx in (0, 2):
        kinds = ('quadratic', 'cubic')
        for kind in kinds:
            goals = WS_GOALS + (['lands_on_the_new_solution', 'old_state_is_an_equilibrium'] if kind == 'quadratic' else [])
            px.run_px(h, 'ws[index=%d,%s]' % (idx, kind), make_ws_harness(idx, kind), cap=40, div_mode='goal', sqrt_mode='goal', expect_goals=goals)
    px.run_px(h, 'ws[default index,quadratic]', make_ws_harness(0, 'quadratic', use_default_index=True), cap=40, div_mode='goal', sqrt_mode='goal',
              expect_goals=WS_GOALS)
    for idx in (1, 3, 4, 5):
        px.run_px(h, 'ws_invalid[index=%d]' % idx, make_ws_bad_index_harness(idx), cap=20, expect_goals=['raises', 'no_linear_solve_attempted'])
