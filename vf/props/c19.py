"""C19 — load stepping: the warm start is the exact linear predictor, scaling is transparent, the objective carries the
new parameters (PX on the real drivers + JX on the real Objective's jitted closures + CrossHair for the tuple leaf)."""
import contextlib
import io
import os
import subprocess
import sys
import tempfile
import types

import numpy as onp
import z3
import jax
import jax.numpy as jnp

from ..core import obligation, REPO, VERIF
from .. import px, jx, sym
from ..px import SymBool, NP
from ..sym import Le, Lt, Eq, Holds, v_mul, v_lt
from ..jxh import Case
from . import c01

P = 'C19'


def _objmod():
    from optimism import Objective
    return Objective


# ------------------------------------------------------------------------------------------ hybrid PX/JX objective
JITTED = ('objective', 'grad_x', 'grad_p', 'hess_vec', 'vec_hess', 'jac_xp_vec', 'jac_xp2_vec', 'vec_jac_xp0', 'vec_jac_xp1',
          'vec_jac_xp2', 'vec_jac_xp4', 'hess')
_JAXPR_CACHE = {}


def _obj0(t):
    o = onp.empty((), dtype=object)
    o[()] = t
    return o


def _to_terms(leaf):
    """proxy leaf (SymReal / float / object array of them) -> object array of z3 terms / python floats"""
    if isinstance(leaf, onp.ndarray):
        out = onp.empty(leaf.shape, dtype=object)
        of = out.reshape(-1)
        for i, v in enumerate(leaf.reshape(-1)):
            of[i] = px.unwrap(v) if px.is_sym(v) else float(v)
        return out
    if px.is_sym(leaf):
        return _obj0(leaf.z)
    a = onp.asarray(leaf, dtype=float)
    return jx.lift(a)


def _from_terms(arr):
    """object array of z3 terms / numbers -> proxies (a 0-d result becomes a scalar)"""
    if arr.shape == ():
        return px.wrap(arr[()]) if sym.isz(arr[()]) else float(arr[()])
    out = onp.empty(arr.shape, dtype=object)
    of = out.reshape(-1)
    for i, v in enumerate(arr.reshape(-1)):
        of[i] = px.wrap(v) if sym.isz(v) else float(v)
    return out


class JXCallable:
    """one jitted closure of the REAL Objective (hess_vec, jac_xp_vec, vec_jac_xp2, ...): called on proxies it traces the
    closure to its jaxpr (jax.make_jaxpr of the real jitted function, same pytree structure as the call) and evaluates
    that jaxpr with JX on the z3 terms; called on numbers (replay of a model) it runs the real jitted function."""

    def __init__(self, owner, fn, name):
        self.owner, self.fn, self.name = owner, fn, name

    def __call__(self, *args):
        leaves, td = jax.tree_util.tree_flatten(args)
        symbolic = any(px.is_sym(l) or px._has_sym(l) for l in leaves)
        self.owner.calls.append((self.name, symbolic))
        if not symbolic:
            cargs = jax.tree_util.tree_unflatten(td, [jnp.asarray(onp.asarray(l, dtype=float)) for l in leaves])
            out = self.fn(*cargs)
            return jax.tree_util.tree_map(lambda a: onp.asarray(a, dtype=float) if onp.ndim(a) else float(a), out)
        shapes = tuple(onp.shape(l) for l in leaves)
        key = (id(self.fn), str(td), shapes)
        if key not in _JAXPR_CACHE:
            example = jax.tree_util.tree_unflatten(td, [jnp.asarray(onp.full(s, 0.5)) for s in shapes])
            _JAXPR_CACHE[key] = (jax.make_jaxpr(self.fn, return_shape=True)(*example), self.fn)   # keep fn alive: id() is the key
        (cj, out_shape), _ = _JAXPR_CACHE[key]
        ctx = self.owner.ctx
        n_side, n_den = len(ctx.side), len(ctx.denoms)
        outs = jx.eval_jaxpr(ctx, cj.jaxpr, cj.consts, *[_to_terms(l) for l in leaves])
        ex = px.cur()
        for s in ctx.side[n_side:]:
            ex.pc.append(s)
        for g, d in ctx.denoms[n_den:]:
            c = d != 0
            ex._defined_goal('division_defined', z3.Implies(g, c) if g is not None else c, 'zero denominator inside %s' % self.name)
            ex.pc.append(z3.Implies(g, c) if g is not None else c)
        if ctx.ufs:
            raise px.Unsupported('transcendental function inside %s: the hybrid adapter is for polynomial energies' % self.name)
        otd = jax.tree_util.tree_structure(out_shape)
        return jax.tree_util.tree_unflatten(otd, [_from_terms(o) for o in outs])


class IdentityPrecond:
    """stands in for SparseCholesky (sksparse is absent): the identity operator"""

    def __init__(self):
        self.applied = 0

    def apply(self, v):
        self.applied += 1
        return v

    def multiply_by_approximate(self, v):
        return v

    def update(self, f):
        pass

    def check_stability(self, x, p):
        pass


class ScalarPrecond(IdentityPrecond):
    """an arbitrary positive multiple of the identity (n = 1: an arbitrary SPD preconditioner)"""

    def __init__(self, ex, name='P'):
        IdentityPrecond.__init__(self)
        self.s = ex.real(name)
        ex.assume(self.s > 0)

    def apply(self, v):
        self.applied += 1
        return v / self.s

    def multiply_by_approximate(self, v):
        return v * self.s


def make_hybrid(f, x_example, p_example, p, precond=None):
    """the REAL optimism.Objective.Objective built on the energy f; its jitted closures are replaced, on a shallow copy
    whose class derives from the real class (so value/gradient/hessian_vec/jacobian_p_vec/vec_jacobian_p* are the real
    methods, reading self.p), by JXCallable wrappers.  The closures themselves keep referring to the untouched real object."""
    O = _objmod()
    real = O.Objective(f, x_example, p_example)

    class HybridObjective(O.Objective):
        def __init__(self):
            pass
    hy = HybridObjective()
    hy.__dict__.update(real.__dict__)
    hy.ctx = jx.Ctx()
    hy.calls = []
    hy.real = real
    for nm in JITTED:
        setattr(hy, nm, JXCallable(hy, getattr(real, nm), nm))
    hy.precond = precond if precond is not None else IdentityPrecond()
    hy.p = p
    return hy


def zeq(a, b):
    """componentwise equality of two proxy vectors as SymBool conditions"""
    out = []
    for x, y in zip(onp.asarray(a, dtype=object).reshape(-1), onp.asarray(b, dtype=object).reshape(-1)):
        out.append(SymBool(px._z(x) == px._z(y)))
    return out


def U(x):
    return px.unwrap(x)


# ------------------------------------------------------------------------------------------ O1: warm start
N, M0, M2 = 2, 2, 2      # equal slot sizes: a slot mix-up gives a wrong VALUE (solver-visible), not a shape error


def energy_quadratic(x, p):
    """f = x.A x/2 - x.B0 p0 - x.B2 p2 - x.q ; A, B0, B2, q travel in the app_data slot so that they are traced (symbolic)"""
    a, B0, B2, q = p[3]
    A = jnp.array([[a[0], a[1]], [a[1], a[2]]])
    return 0.5 * x @ (A @ x) - x @ (B0 @ p[0]) - x @ (B2 @ p[2]) - x @ q


def energy_cubic(x, p):
    """non-quadratic family: cubic in x, coupling to p0 modulated by x, quadratic in the design parameter p2"""
    a, B0, B2, c = p[3]
    A = jnp.array([[a[0], a[1]], [a[1], a[2]]])
    return (0.5 * x @ (A @ x) + c[0] * (x[0] ** 3 + x[1] ** 3) + c[1] * x[0] ** 2 * x[1]
            - (1.0 + c[2] * x[1]) * (x @ (B0 @ p[0])) - (x @ B2[:, 0]) * p[2][0] ** 2 - (x @ B2[:, 1]) * p[2][1])


def oracle(kind, x, p, a, B0, B2, c, q=0.0):
    """independent hand-derived gradient, Hessian and parameter Jacobians of the two families (NP ops on proxies/floats)"""
    A = onp.array([[a[0], a[1]], [a[1], a[2]]], dtype=object)
    b0 = NP.dot(B0, p[0])
    if kind == 'quadratic':
        g = NP.dot(A, x) - b0 - NP.dot(B2, p[2]) - q
        H = A
        dgdp0 = lambda w: -NP.dot(B0, w)
        dgdp2 = lambda w: -NP.dot(B2, w)
        return g, H, {0: dgdp0, 2: dgdp2}
    e1 = onp.array([0.0, 1.0])
    xb = NP.dot(x, b0)
    g = (NP.dot(A, x) + 3.0 * c[0] * onp.array([x[0] * x[0], x[1] * x[1]], dtype=object)
         + c[1] * onp.array([2.0 * x[0] * x[1], x[0] * x[0]], dtype=object)
         - (1.0 + c[2] * x[1]) * b0 - (c[2] * xb) * e1 - B2[:, 0] * (p[2][0] * p[2][0]) - B2[:, 1] * p[2][1])
    H = onp.empty((2, 2), dtype=object)
    H[0, 0] = A[0, 0] + 6.0 * c[0] * x[0] + 2.0 * c[1] * x[1]
    H[0, 1] = A[0, 1] + 2.0 * c[1] * x[0] - c[2] * b0[0]
    H[1, 0] = H[0, 1]
    H[1, 1] = A[1, 1] + 6.0 * c[0] * x[1] - 2.0 * c[2] * b0[1]
    dgdp0 = lambda w: -(1.0 + c[2] * x[1]) * NP.dot(B0, w) - (c[2] * NP.dot(x, NP.dot(B0, w))) * e1
    dgdp2 = lambda w: -B2[:, 0] * (2.0 * p[2][0] * w[0]) - B2[:, 1] * w[1]
    return g, H, {0: dgdp0, 2: dgdp2}


class _NPX:
    """px.NP plus the value predicates a load-step routine may branch on, with NumPy's exact semantics on proxies:
    allclose(a, b, rtol, atol) = all(|a - b| <= atol + rtol |b|) as a symbolic boolean (a Python `if` on it forks the path)"""

    def __getattr__(self, name):
        return getattr(NP, name)

    @staticmethod
    def isclose(a, b, rtol=1e-05, atol=1e-08, equal_nan=False):
        if not (px._has_sym(a) or px._has_sym(b) or px.is_sym(a) or px.is_sym(b)):
            return onp.isclose(onp.asarray(a, dtype=float), onp.asarray(b, dtype=float), rtol=rtol, atol=atol, equal_nan=equal_nan)
        a2, b2 = onp.broadcast_arrays(onp.asarray(a, dtype=object), onp.asarray(b, dtype=object))
        out = onp.empty(a2.shape, dtype=object)
        for idx in onp.ndindex(*a2.shape):
            out[idx] = abs(a2[idx] - b2[idx]) <= atol + rtol * abs(b2[idx])
        return out

    @staticmethod
    def allclose(a, b, rtol=1e-05, atol=1e-08, equal_nan=False):
        r = NPX.isclose(a, b, rtol, atol, equal_nan)
        if isinstance(r, onp.ndarray) and r.dtype == object:
            return NP.all(r)
        return bool(onp.all(r))

    @staticmethod
    def _truth(v):
        if isinstance(v, SymBool):
            return v
        if px.is_sym(v):
            return SymBool(v.z != 0)          # truthiness of a number: non-zero
        return bool(v)

    @staticmethod
    def any(a, axis=None):
        """numpy.any on numbers: true iff some entry is NON-ZERO (a symbolic boolean on proxies: a Python `if` on it forks)"""
        if not (px.is_sym(a) or px._has_sym(a)):
            return onp.any(a) if axis is None else onp.any(a, axis=axis)
        r = False
        for v in onp.asarray(a, dtype=object).reshape(-1):
            t = NPX._truth(v)
            r = t if r is False else (r if t is False else (True if (t is True or r is True) else (r | t)))
        return r

    @staticmethod
    def all(a, axis=None):
        if not (px.is_sym(a) or px._has_sym(a)):
            return onp.all(a) if axis is None else onp.all(a, axis=axis)
        r = True
        for v in onp.asarray(a, dtype=object).reshape(-1):
            t = NPX._truth(v)
            r = t if r is True else (r if t is True else (False if (t is False or r is False) else (r & t)))
        return r

    @staticmethod
    def count_nonzero(a):
        if not (px.is_sym(a) or px._has_sym(a)):
            return onp.count_nonzero(a)
        raise px.Unsupported('count_nonzero of a symbolic array')

    @staticmethod
    def array_equal(a, b):
        if not (px._has_sym(a) or px._has_sym(b)):
            return bool(onp.array_equal(a, b))
        a2, b2 = onp.asarray(a, dtype=object), onp.asarray(b, dtype=object)
        if a2.shape != b2.shape:
            return False
        return NP.all(onp.array([x_ == y_ for x_, y_ in zip(a2.reshape(-1), b2.reshape(-1))], dtype=object))


NPX = _NPX()


class LinOpStub:
    """scipy.sparse.linalg.LinearOperator: only (shape, matvec) is used by the code under test"""

    def __init__(self, shape, matvec=None, **kw):
        self.shape, self.matvec = shape, matvec


def _draw_ws_inputs(ex, kind):
    a = ex.vec('a', 3)
    B0 = ex.mat('B0', N, M0)
    B2 = ex.mat('B2', N, M2)
    c = ex.vec('c', 3) if kind == 'cubic' else None
    x = ex.vec('x', N)
    pold = [ex.vec('p0_old', M0), ex.vec('p1_old', 1), ex.vec('p2_old', M2)]
    pnew = [ex.vec('p0_new', M0), ex.vec('p1_new', 1), ex.vec('p2_new', M2)]
    return a, B0, B2, c, x, pold, pnew


def _examples(kind):
    app = (jnp.array([2.0, 0.3, 1.0]), jnp.ones((N, M0)), jnp.ones((N, M2))) + ((jnp.ones(3),) if kind == 'cubic' else (jnp.ones(N),))
    O = _objmod()
    return jnp.array([0.3, 0.2]), O.Params(jnp.ones(M0), jnp.ones(1), jnp.ones(M2), app, 0.0, None)


DOC_RTOL = 1e-5     # scipy.sparse.linalg.cg's default relative tolerance: what the call `cg(Lop, b, M=..., callback=...)` of the source asks for


def cg_threshold_sq(kw, bb):
    """square of scipy's stopping threshold max(rtol |b|, atol) for the keyword arguments of a cg call (`tol` = legacy name of rtol)"""
    rtol = kw.get('rtol', kw.get('tol', DOC_RTOL))
    atol = kw.get('atol', 0.0)
    if isinstance(atol, str) or atol is None:
        atol = 0.0
    return NPX.maximum(rtol * rtol * bb, atol * atol), rtol, atol


def make_ws_harness(index, kind, use_default_index=False, contract='exact', unit_family=False):
    """WarmStart.warm_start_increment(objective, x, pNew, index) with the REAL Objective (hybrid) on one energy family"""
    f = energy_quadratic if kind == 'quadratic' else energy_cubic

    def fn(ex):
        O = _objmod()
        mod = px.load_module('optimism/WarmStart.py')
        mod.np = NPX
        a, B0, B2, c, x, pold, pnew = _draw_ws_inputs(ex, kind)
        if unit_family:
            # one member of the family (A = I, B0 = B2 = I): only the state and the parameters stay symbolic, so that a counterexample in
            # terms of the SIZE of the right-hand side is within the solver's reach
            dt_ = object if ex.symbolic else float
            a, B0, B2 = onp.array([1.0, 0.0, 1.0], dtype=dt_), onp.eye(N).astype(dt_), onp.eye(N).astype(dt_)
        t_old, t_new = ex.real('t_old'), ex.real('t_new')
        if kind == 'cubic':
            app = (a, B0, B2, c)
        else:
            # the dead load q is CHOSEN such that x is an equilibrium at the old parameters: every quadratic energy with
            # equilibrium x_old is a member (q = A x - B0 p0_old - B2 p2_old), and the landing goal becomes an unconditional identity
            q = oracle(kind, x, (pold[0], pold[1], pold[2]), a, B0, B2, c)[0]
            app = (a, B0, B2, q)
        p_old = O.Params(pold[0], pold[1], pold[2], app, t_old, None)
        p_new = O.Params(pnew[0], pnew[1], pnew[2], app, t_new, None)     # every differentiable slot changes; only `index` may be used
        xe, pe = _examples(kind)
        obj = make_hybrid(f, xe, pe, p_old)
        g_old, H, dgdp = oracle(kind, x, p_old, a, B0, B2, c, q=(app[3] if kind == 'quadratic' else 0.0))
        # the Hessian at the current state is SPD (the linear system has exactly one solution)
        ex.assume(H[0, 0] > 0)
        ex.assume(H[0, 0] * H[1, 1] - H[0, 1] * H[0, 1] > 0)
        seen = {}

        if ex.symbolic:
            def cg_stub(Lop, b, x0=None, M=None, callback=None, maxiter=None, **kw):
                # contract of scipy.sparse.linalg.cg, one call per run.  'exact': dx with L dx = b.  'tolerance' (scipy's documented
                # stopping rule, as a function of the keyword arguments the source passes): |b - L dx| <= max(rtol |b|, atol)
                dx = ex.vec('dx', N)
                Ldx = Lop.matvec(dx)
                bb = NP.dot(b, b)
                thr2, rtol, atol = cg_threshold_sq(kw, bb)
                if contract == 'exact':
                    for cnd in zeq(Ldx, b):
                        ex.assume(cnd)
                else:
                    res = b - Ldx
                    ex.assume(NP.dot(res, res) <= thr2)
                seen.update(Lop=Lop, b=b, M=M, dx=dx, kw=dict(kw), thr2=thr2, rtol=rtol, atol=atol, bb=bb, x0=x0)
                return dx, 0
            mod.cg = cg_stub
            mod.LinearOperator = LinOpStub
        else:
            real_cg, real_lo = mod.cg, mod.LinearOperator

            def cg_spy(Lop, b, **kw):
                bf = onp.asarray(b, dtype=float)
                thr2, rtol, atol = cg_threshold_sq({k_: (float(v_) if not isinstance(v_, str) and v_ is not None and k_ in ('rtol', 'tol', 'atol') else v_) for k_, v_ in kw.items()}, float(bf @ bf))
                seen.update(Lop=Lop, b=bf, M=kw.get('M'), kw=dict(kw), thr2=thr2, rtol=rtol, atol=atol, bb=float(bf @ bf), x0=kw.get('x0'))
                return real_cg(Lop, b, **kw)
            mod.cg = cg_spy
        x_in = x.copy()
        if use_default_index == 'jax_safe':
            dx = mod.warm_start_increment_jax_safe(obj, x, p_new[0])        # the variant used by inverse/NonlinearSolve: bc slot only
        elif use_default_index:
            dx = mod.warm_start_increment(obj, x, p_new)
        else:
            dx = mod.warm_start_increment(obj, x, p_new, index)
        dp = p_new[index] - p_old[index]
        rhs = -dgdp[index](dp)                       # -(dg/dp_index)(x_old, p_old) (p_new - p_old)
        w = ex.vec('probe', N)
        sc_rhs = 1.0 if ex.symbolic else float(onp.max(onp.abs(onp.asarray(rhs, dtype=float)))) + 1e-300
        if 'b' in seen:
            ex.goal('rhs_is_minus_dgdp_times_parameter_change', Eq(U(onp.asarray(seen['b'], dtype=object)), U(rhs)),
                    info='right-hand side handed to cg')
            ex.goal('operator_is_hessian_at_old_state', Eq(U(onp.asarray(seen['Lop'].matvec(w), dtype=object)), U(NP.dot(H, w))),
                    info='operator handed to cg, applied to an arbitrary vector')
            ex.goal('preconditioner_is_the_objectives', Eq(U(onp.asarray(seen['M'].matvec(w), dtype=object)), U(obj.apply_precond(w))))
            # the CALL: the tolerance handed to cg must make its stopping rule |r| <= tol_rel |b| with tol_rel <= 1e-5 whatever |b| is
            ex.goal('solve_tolerances_are_nonnegative', Holds([U(seen['rtol'] >= 0) if ex.symbolic else bool(seen['rtol'] >= 0), U(seen['atol'] >= 0) if ex.symbolic else bool(seen['atol'] >= 0)]))
            ex.goal('solve_stops_at_relative_residual_1e-5_or_tighter', Le(U(seen['thr2']), U(DOC_RTOL * DOC_RTOL * seen['bb']), scale=(1e-10 * seen['bb'] if not ex.symbolic else 1e-10)),
                    info='cg keywords %r: threshold max(rtol |b|, atol)^2 vs (1e-5 |b|)^2' % ({k_: (v_ if not px.is_sym(v_) else '<sym>') for k_, v_ in seen['kw'].items() if k_ in ('rtol', 'tol', 'atol')},))
            ex.goal('solve_starts_from_the_zero_guess', Holds(seen['x0'] is None))
        else:
            # the routine returned without a linear solve: only right when there is nothing to predict
            ex.goal('no_linear_solve_only_when_the_gradient_change_vanishes', Eq(U(rhs), [0.0] * N, scale=sc_rhs),
                    info='returned %r without solving although -(dg/dp)(p_new - p_old) != 0' % (dx if not ex.symbolic else 'an increment',))
        dxa = onp.asarray(dx, dtype=object if ex.symbolic else float)
        ex.goal('increment_has_the_shape_of_x', Holds(onp.shape(dxa) == onp.shape(x)))
        rr = NP.dot(rhs, rhs)
        if unit_family:
            ex.late_assume(rr >= 1e10)       # slice: LARGE gradient changes (|b| >= 1e5), where an absolute/quadratic stopping threshold would accept the zero guess
        if contract == 'exact':
            ex.goal('increment_is_the_linear_predictor', Eq(U(NP.dot(H, dxa)), U(rhs), scale=sc_rhs), info='H dx = -(dg/dp) dp for the returned increment')
        else:
            defect = NP.dot(H, dxa) - rhs
            ex.goal('increment_is_the_linear_predictor_to_the_solve_tolerance', Le(U(NP.dot(defect, defect)), U(DOC_RTOL * DOC_RTOL * rr), scale=(1e-10 if ex.symbolic else 1e-10 * float(rr))),
                    info='|H dx + (dg/dp) dp|^2 <= (1e-5 |(dg/dp) dp|)^2 for EVERY increment scipy\'s stopping rule admits with the tolerances of the call')
        ex.goal('objective_parameters_untouched', Holds(obj.p is p_old))
        ex.goal('start_point_untouched', Eq(U(x), U(x_in)))
        if kind == 'quadratic':
            # x_old is an equilibrium at the old parameters (by the choice of q) => x_old + dx is one at the new value of slot
            # `index` (the other slots as before); both gradients through the REAL Objective.grad_x
            sc = onp.max(onp.abs(onp.asarray(rhs, dtype=float))) + 1.0 if not ex.symbolic else 1.0
            g_code_old = obj.grad_x(x, p_old)
            ex.goal('old_state_is_an_equilibrium', Eq(U(onp.asarray(g_code_old, dtype=object)), [0.0] * N, scale=sc))
            p_upd = O.param_index_update(p_old, index, p_new[index])
            g_new = obj.grad_x(x + dxa, p_upd)
            if contract == 'exact':
                ex.goal('lands_on_the_new_solution', Eq(U(onp.asarray(g_new, dtype=object)), [0.0] * N, scale=sc),
                        info='grad f(x_old + dx; p_new) for an equilibrium x_old of a quadratic energy')
            else:
                gn = onp.asarray(g_new, dtype=object if ex.symbolic else float)
                ex.goal('lands_on_the_new_solution_to_the_solve_tolerance', Le(U(NP.dot(gn, gn)), U(DOC_RTOL * DOC_RTOL * rr), scale=(1e-10 if ex.symbolic else 1e-10 * float(rr))),
                        info='|grad f(x_old + dx; p_new)|^2 <= (1e-5 |gradient change|)^2')
    return fn


def make_ws_bad_index_harness(index):
    def fn(ex):
        O = _objmod()
        mod = px.load_module('optimism/WarmStart.py')
        a, B0, B2, c, x, pold, pnew = _draw_ws_inputs(ex, 'quadratic')
        app = (a, B0, B2, ex.vec('q', N))
        p_old = O.Params(pold[0], pold[1], pold[2], app, ex.real('t_old'), ex.vec('dyn_old', 1))
        p_new = O.Params(pnew[0], pnew[1], pnew[2], app, ex.real('t_new'), ex.vec('dyn_new', 1))
        xe, pe = _examples('quadratic')
        obj = make_hybrid(energy_quadratic, xe, pe, p_old)
        called = []
        mod.cg = lambda *a_, **k: called.append('cg') or (ex.vec('dx', N), 0)
        mod.LinearOperator = LinOpStub
        raised = None
        try:
            mod.warm_start_increment(obj, x, p_new, index)
        except px.PathAbort:
            raise
        except Exception as e:      # the source says `raise('...')`: a TypeError, still an exception
            raised = e
        ex.goal('raises', Holds(raised is not None), info='index %d returned an increment instead of raising' % index)
        ex.goal('no_linear_solve_attempted', Holds(not called))
        ex.goal('objective_parameters_untouched', Holds(obj.p is p_old))
    return fn


WS_GOALS = ['rhs_is_minus_dgdp_times_parameter_change', 'operator_is_hessian_at_old_state', 'preconditioner_is_the_objectives', 'solve_stops_at_relative_residual_1e-5_or_tighter',
            'increment_is_the_linear_predictor', 'objective_parameters_untouched', 'start_point_untouched']


@obligation(P, 'O1.warm_start_increment', cap=300)
def o1(h):
    """WarmStart.warm_start_increment with scipy's cg replaced by its contract (L dx = b exactly) and the REAL
    optimism.Objective.Objective whose jitted closures (jac_xp_vec, jac_xp2_vec, hess_vec, grad_x) are evaluated by JX:
    for index 0 and 2 the right-hand side is -(dg/dp_index)(p_new - p_old), the operator is the Hessian at (x_old, p_old),
    hence H dx = -(dg/dp)(p_new-p_old); on the quadratic family grad f(x_old + dx; p_new) = 0 for every equilibrium x_old;
    with scipy's documented stopping rule instead (any dx with |b - L dx| <= max(rtol |b|, atol) for the tolerances of the call)
    the increment is the linear predictor to relative accuracy 1e-5, whatever |b| is; indices 1, 3, 4, 5 raise"""
    O = _objmod()
    h.encoded('optimism.WarmStart:warm_start_increment (real source under PX)', 'optimism.WarmStart:warm_start_increment_jax_safe (real source under PX)', O.Objective.__init__, O.Objective.jacobian_p_vec, O.Objective.jacobian_p2_vec,
              O.Objective.hessian_vec, O.Objective.apply_precond, O.param_index_update,
              'jaxprs of Objective.jac_xp_vec / jac_xp2_vec / hess_vec / grad_x (jit closures built by the real Objective.__init__, traced per run)')
    h.bounds('n=2 unknowns, p0 in R^2, p1 in R^1, p2 in R^2, time scalar: all symbolic, old and new values differ in EVERY slot; '
             'quadratic family x.A x/2 - x.B0 p0 - x.B2 p2 - x.q (A sym 2x2, B0 2x2, B2 2x2 symbolic; q such that x_old is an equilibrium at p_old) and a cubic family '
             '(+ c0 (x0^3+x1^3) + c1 x0^2 x1, coupling -(1+c2 x1) x.B0 p0 - x.B2[:,0] p2_0^2 - x.B2[:,1] p2_1); Hessian at the old state SPD; index in 0..5')
    h.assume_note('stub: scipy.sparse.linalg.cg by contract, exit code 0; LinearOperator = (shape, matvec) record. ws[...] runs: dx with L dx = b exactly; ws_tol[...] runs: ANY dx with '
                  '|b - L dx| <= max(rtol |b|, atol), rtol/atol being the keyword arguments of the call (scipy defaults 1e-5 / 0 when absent; `tol` read as the legacy name of rtol); '
                  'every run also checks the call itself: max(rtol |b|, atol) <= 1e-5 |b| (the relative tolerance the source asks for by passing none) and no initial guess',
                  'stub: SparseCholesky (sksparse absent) replaced by the identity preconditioner on the objective',
                  'hybrid: the objective is the real Objective class; its jitted closures are evaluated through their jaxprs by JX on the proxy arrays (replay: the real jitted closures, real scipy cg)',
                  'oracle: gradient/Hessian/parameter Jacobians of the two families derived by hand in the harness')
    h.outside('accuracy and termination of scipy cg; energies with transcendental terms; the `.primal` unwrapping of warm_start_increment_jax_safe under a JAX trace')
    for idx in (0, 2):
        kinds = ('quadratic', 'cubic')
        for kind in kinds:
            goals = WS_GOALS + (['lands_on_the_new_solution', 'old_state_is_an_equilibrium'] if kind == 'quadratic' else [])
            px.run_px(h, 'ws[index=%d,%s]' % (idx, kind), make_ws_harness(idx, kind), cap=40, div_mode='goal', sqrt_mode='goal', expect_goals=goals)
    px.run_px(h, 'ws[default index,quadratic]', make_ws_harness(0, 'quadratic', use_default_index=True), cap=40, div_mode='goal', sqrt_mode='goal',
              expect_goals=WS_GOALS)
    # scipy's documented stopping rule instead of the exact solve: every increment it admits, with the tolerances the source passes
    tol_goals = [g for g in WS_GOALS if g != 'increment_is_the_linear_predictor'] + ['increment_is_the_linear_predictor_to_the_solve_tolerance']
    for idx, kind, dflt in ((0, 'quadratic', False), (2, 'cubic', False), (0, 'quadratic', True)):
        px.run_px(h, 'ws_tol[%s,%s]' % ('default index' if dflt else 'index=%d' % idx, kind), make_ws_harness(idx, kind, use_default_index=dflt, contract='tolerance'), cap=40, order=('nlsat', 'core'),
                  div_mode='goal', sqrt_mode='goal', expect_goals=tol_goals + (['lands_on_the_new_solution_to_the_solve_tolerance'] if kind == 'quadratic' else []))
    for idx in (0, 2):
        px.run_px(h, 'ws_tol[index=%d,quadratic,A=B=I,|b|>=1e5]' % idx, make_ws_harness(idx, 'quadratic', contract='tolerance', unit_family=True), cap=40, order=('nlsat', 'core'),
                  div_mode='goal', sqrt_mode='goal', expect_goals=tol_goals + ['lands_on_the_new_solution_to_the_solve_tolerance'])
    for kind in ('quadratic', 'cubic'):
        goals = WS_GOALS + (['lands_on_the_new_solution', 'old_state_is_an_equilibrium'] if kind == 'quadratic' else [])
        px.run_px(h, 'ws_jax_safe[%s]' % kind, make_ws_harness(0, kind, use_default_index='jax_safe'), cap=40, div_mode='goal', sqrt_mode='goal', expect_goals=goals)
    for idx in (1, 3, 4, 5):
        px.run_px(h, 'ws_invalid[index=%d]' % idx, make_ws_bad_index_harness(idx), cap=20, expect_goals=['raises', 'no_linear_solve_attempted'])


# ------------------------------------------------------------------------------------------ O2: the four drivers
class StepObjective(c01.DriverObjective):
    """objective seen by a load-step driver: opaque parameter objects, symbolic diagonal scaling, a trace of every
    collaborator call with the parameters installed at that moment"""

    def __init__(self, ex, n, scaled=True):
        if scaled:
            c01.DriverObjective.__init__(self, ex, n)
        else:
            self.ex, self.p, self.trace = ex, 'P_OLD', []
        self.n = n
        self.lam = onp.zeros(1)
        self.kappa = onp.ones(1)

    def update_precond(self, x):
        self.trace.append(('update_precond', self.p, onp.array(x, copy=True)))

    def reset_kappa(self):
        self.trace.append(('reset_kappa', self.p, None))

    # the pieces AlSolver.solve_sub_step / augmented_lagrange_solve read after the sub-solver returned: a converged state
    def constraint(self, x):
        return onp.zeros(1)

    def ncp(self, x):
        return onp.zeros(1)

    def gradient(self, x):
        return onp.zeros(self.n)

    def total_residual(self, x):
        return onp.zeros(self.n + 1)


DRIVERS = {
    'nonlinear_equation_solve': ('optimism/EquationSolver.py', 'nonlinear_equation_solve'),
    'spg_solve': ('optimism/TrustRegionSPG.py', 'solve'),
    'al_solve': ('optimism/AlSolver.py', 'augmented_lagrange_solve'),
    'bc_solve': ('optimism/BoundConstrainedSolver.py', 'bound_constrained_solve'),
}


def make_step_driver_harness(kind, useWarmStart, updatePrecond, precondBeforeWarm=True, n=2):
    rel, fname = DRIVERS[kind]

    def fn(ex):
        mod = px.load_module(rel)
        scaled = kind != 'al_solve'
        obj = StepObjective(ex, n, scaled=scaled)
        pNew = ('P_NEW',)
        dx = ex.vec('dxWarm', n)
        xs = ex.vec('xSolver', n)
        x0 = ex.vec('x0', n)
        flagv = bool(ex.bool('solverFlag'))
        x_arg = onp.array(x0, copy=True)
        seen = {}
        cb = lambda *a, **k: seen.setdefault('callback_calls', []).append((a, obj.p))
        scb = lambda *a, **k: seen.setdefault('sub_callback_calls', []).append((tuple(onp.array(v, copy=True) if isinstance(v, onp.ndarray) else v for v in a), obj.p))

        class WS:
            @staticmethod
            def warm_start_increment(objective, x, p, *a, **k):
                seen.setdefault('ws_calls', []).append(1)
                seen['ws_obj'] = objective
                seen['ws_p_at_call'] = objective.p
                seen['ws_x'] = onp.array(x, copy=True)
                seen['ws_pnew'] = p
                seen['ws_extra'] = (a, k)
                seen['ws_trace_len'] = len(objective.trace)
                return dx
        mod.WarmStart = WS

        def entered(objective, xstart):
            seen.setdefault('solver_calls', []).append(1)
            seen['solver_obj'] = objective
            seen['p_at_solver_entry'] = objective.p
            seen['xstart'] = onp.array(xstart, copy=True)
            seen['trace_len_at_solver'] = len(objective.trace)

        if kind == 'nonlinear_equation_solve':
            def solver(objective, xstart, settings, callback=None, **kw):
                entered(objective, xstart)
                seen['solver_settings'], seen['solver_callback'] = settings, callback
                return xs, flagv
            xr, fl = mod.nonlinear_equation_solve(obj, x_arg, pNew, 'SETTINGS', solver_algorithm=solver, callback=cb,
                                                  useWarmStart=useWarmStart, updatePrecond=updatePrecond)
        elif kind == 'spg_solve':
            lo, hi = ex.vec('lower', n), ex.vec('upper', n)

            def solver(objective, xstart, bounds, settings, callback=None, **kw):
                entered(objective, xstart)
                seen['solver_settings'], seen['solver_callback'], seen['bounds'] = settings, callback, bounds
                return xs, flagv
            mod.bound_constrained_trust_region_minimize = solver
            xr, fl = mod.solve(obj, x_arg, pNew, lo, hi, 'SETTINGS', callback=cb, useWarmStart=useWarmStart, updatePrecond=updatePrecond)
        elif kind == 'al_solve':
            from optimism import EquationSolver as ES
            sub = ES.get_settings()

            def solver(objective, xstart, settings, callback=None, **kw):
                entered(objective, xstart)
                seen['solver_settings'], seen['solver_callback'] = settings, callback
                return xs, flagv
            als = mod.get_settings(max_al_iters=1, use_second_order_update=False, use_newton_only=False)
            xr = mod.augmented_lagrange_solve(obj, x_arg, pNew, als, sub, callback=cb, sub_problem_callback=scb, sub_problem_solver=solver,
                                              useWarmStart=useWarmStart, updatePrecond=updatePrecond, updatePrecondBeforeWarmStart=precondBeforeWarm)
            fl = flagv
        else:
            class AL:
                @staticmethod
                def augmented_lagrange_solve(objective, xstart, p, alSettings, subSettings, **kw):
                    entered(objective, xstart)
                    seen['al_p'], seen['al_settings'], seen['al_kw'] = p, (alSettings, subSettings), dict(kw)
                    return xs
            mod.AlSolver = AL
            solver = object()
            xr = mod.bound_constrained_solve(obj, x_arg, pNew, 'AL_SETTINGS', 'SUB_SETTINGS', callback=cb, sub_problem_callback=scb,
                                             useWarmStart=useWarmStart, updatePrecond=updatePrecond, sub_problem_solver=solver)
            fl = flagv
        # ---------------- goals
        sc = obj.scaling if scaled else 1.0
        isc = obj.invScaling if scaled else 1.0
        start0 = sc * x0
        ex.goal('solver_called_exactly_once_on_this_objective', Holds(len(seen.get('solver_calls', [])) == 1 and seen.get('solver_obj') is obj))
        ex.goal('new_parameters_installed_before_solve', Holds(seen.get('p_at_solver_entry') is pNew))
        ex.goal('objective_carries_new_parameters_after', Holds(obj.p is pNew))
        if kind in ('nonlinear_equation_solve', 'spg_solve'):
            ex.goal('flag_is_the_solvers', Holds(fl is flagv))
            ex.goal('settings_and_callback_forwarded', Holds(seen.get('solver_settings') == 'SETTINGS' and seen.get('solver_callback') is cb))
        ex.goal('result_is_unscaled_solver_output', Eq(U(xr), U(isc * xs)))
        if useWarmStart:
            ex.goal('warm_start_called_once_with_this_objective', Holds(len(seen.get('ws_calls', [])) == 1 and seen.get('ws_obj') is obj))
            ex.goal('warm_start_sees_old_parameters', Holds(seen.get('ws_p_at_call') == 'P_OLD' and seen.get('ws_pnew') is pNew))
            ex.goal('warm_start_in_the_bc_slot', Holds(seen.get('ws_extra') in (((), {}), ((0,), {}), ((), {'index': 0}))))
            if 'ws_x' in seen:
                ex.goal('warm_start_from_scaled_start', Eq(U(seen['ws_x']), U(start0)))
            start = start0 + dx
        else:
            ex.goal('no_warm_start', Holds(not seen.get('ws_calls')))
            start = start0
        ex.goal('solver_starts_from_scaled_start_plus_increment', Eq(U(seen['xstart']), U(start)))
        # preconditioner refreshes: [before the warm start: old parameters, scaled start] then [new parameters, solver start]
        ups = [t for t in obj.trace if t[0] == 'update_precond']
        want = []
        first = precondBeforeWarm if kind == 'al_solve' else updatePrecond
        if useWarmStart and first:
            want.append(('P_OLD', start0))
        if updatePrecond:
            want.append((pNew, start))
        ex.goal('preconditioner_refresh_count', Holds(len(ups) == len(want)), info='update_precond calls: %d expected %d' % (len(ups), len(want)))
        if len(ups) == len(want):
            for k, ((_, pp, xx), (wp, wx)) in enumerate(zip(ups, want)):
                ex.goal('preconditioner_refresh_parameters', Holds(pp is wp or pp == wp), info='refresh %d sees %r' % (k, pp))
                ex.goal('preconditioner_refresh_point', Eq(U(xx), U(wx)), info='refresh %d' % k)
            if useWarmStart and first:
                ex.goal('first_refresh_precedes_warm_start', Holds(seen.get('ws_trace_len', 0) >= 1 and obj.trace[seen['ws_trace_len'] - 1][0] == 'update_precond'))
            ex.goal('all_refreshes_precede_the_solver', Holds(seen.get('trace_len_at_solver') == len(obj.trace)))
        if kind == 'spg_solve':
            b = seen['bounds']
            ex.goal('bounds_are_scaled_like_the_unknowns', Eq([U(b[:, 0]), U(b[:, 1])], [U(sc * lo), U(sc * hi)]))
            ex.goal('bounds_shape', Holds(onp.shape(b) == (n, 2)))
        if kind == 'al_solve':
            calls = seen.get('callback_calls', [])
            ex.goal('callback_reports_new_parameters', Holds(len(calls) >= 1 and all(a[1] is pNew and pp is pNew for a, pp in calls)))
            ex.goal('sub_solver_receives_sub_callback', Holds(seen.get('solver_callback') is scb))
        if kind == 'bc_solve':
            ex.goal('kappa_reset_first', Holds(len(obj.trace) >= 1 and obj.trace[0][0] == 'reset_kappa'))
            ex.goal('inner_solve_gets_new_parameters', Holds(seen.get('al_p') is pNew and seen.get('al_settings') == ('AL_SETTINGS', 'SUB_SETTINGS')))
            kw = seen.get('al_kw', {})
            ex.goal('inner_solve_does_not_warm_start_again', Holds(kw.get('useWarmStart') is False and kw.get('updatePrecond') is False))
            ex.goal('callbacks_and_sub_solver_forwarded', Holds(kw.get('callback') is cb and kw.get('sub_problem_callback') is scb and kw.get('sub_problem_solver') is solver))
            sc_calls = seen.get('sub_callback_calls', [])
            ex.goal('sub_callback_sees_unwarmed_start_and_new_parameters', Holds(len(sc_calls) == 1 and sc_calls[0][1] is pNew and sc_calls[0][0][1] is obj))
            if len(sc_calls) == 1:
                ex.goal('sub_callback_point', Eq(U(onp.asarray(sc_calls[0][0][0], dtype=object)), U(start0)))
        if kind != 'al_solve':
            ex.goal('caller_start_vector_untouched', Eq(U(x_arg), U(x0)))
    return fn


def _driver_ob(kind):
    rel, fname = DRIVERS[kind]

    def ob(h):
        h.encoded('optimism.%s:%s (real source under PX)' % (rel.split('/')[-1][:-3], fname))
        flags = 'useWarmStart x updatePrecond' + (' x updatePrecondBeforeWarmStart' if kind == 'al_solve' else '')
        h.bounds('n=2 unknowns; symbolic start, diagonal scaling / inverse scaling vectors (independent symbols), warm-start increment, solver output, solver flag'
                 + (', bounds' if kind == 'spg_solve' else '') + '; all combinations of ' + flags)
        h.assume_note('stubs: WarmStart.warm_start_increment returns an arbitrary vector and records objective.p; the inner solver (%s) returns an arbitrary point and flag and records objective.p; '
                      'parameters are opaque objects' % {'nonlinear_equation_solve': 'solver_algorithm', 'spg_solve': 'bound_constrained_trust_region_minimize',
                                                         'al_solve': 'sub_problem_solver; constraint/ncp/total_residual report a converged state, max_al_iters=1, first-order update',
                                                         'bc_solve': 'AlSolver.augmented_lagrange_solve'}[kind])
        h.outside('what the inner solvers do (C01, C04, C05); aliasing of the start vector inside augmented_lagrange_solve (`x +=` mutates a NumPy argument, not a JAX array)')
        combos = [(w, u, True) for w in (True, False) for u in (True, False)]
        if kind == 'al_solve':
            combos += [(w, u, False) for w in (True, False) for u in (True, False)]
        for w, u, b in combos:
            nm = 'driver[warm=%s,precond=%s%s]' % (w, u, '' if kind != 'al_solve' else ',precondBeforeWarm=%s' % b)
            px.run_px(h, nm, make_step_driver_harness(kind, w, u, b), cap=20,
                      expect_goals=['new_parameters_installed_before_solve', 'objective_carries_new_parameters_after', 'result_is_unscaled_solver_output',
                                    'solver_starts_from_scaled_start_plus_increment', 'preconditioner_refresh_count'])
    ob.__doc__ = ('%s: the warm start is evaluated with the OLD objective.p, objective.p = pNew before the inner solver runs, the solver starts from '
                  'scaling*x0 (+dx), the result is invScaling * (solver output), the flag is the solver\'s; preconditioner refreshes see (old p, scaled start) '
                  'then (new p, solver start); all flag combinations' % fname)
    return ob


for _k in DRIVERS:
    obligation(P, 'O2.driver_order[%s]' % _k, cap=300)(_driver_ob(_k))

# the C01 formulation of the same ordering claim for nonlinear_equation_solve (shared obligation, re-registered here)
obligation(P, 'O2.driver_parameter_order[c01.O3]', cap=300)(c01.o3)


# ------------------------------------------------------------------------------------------ O3: param_index_update
CH_HEAD = '''
import sys
sys.path.insert(0, %(verif)r)
from vf import core
core.setup_repo_path()
import optimism.Objective as _OM
from optimism.Objective import param_index_update, Params
_OM.print = lambda *a, **k: None      # printing a symbolic int would realise it (module attribute; the source is untouched)
'''

CH_FUNCS = {
    'piu_in_range': '''
def piu_in_range(p0: int, p1: int, p2: int, p3: int, p4: int, p5: int, index: int, new: int) -> bool:
    """
    pre: 0 <= index <= 5
    post: __return__
    """
    p = Params(p0, p1, p2, p3, p4, p5)
    r = param_index_update(p, index, new)
    ok = type(r) is Params and len(r) == 6 and r[index] == new
    for k in range(6):
        if k != index:
            ok = ok and r[k] == p[k]
    return ok and p == Params(p0, p1, p2, p3, p4, p5)
''',
    'piu_out_of_range': '''
def piu_out_of_range(p0: int, p1: int, index: int, new: int) -> bool:
    """
    pre: index < 0 or index > 5
    post: __return__
    """
    return param_index_update(Params(p0, p1), index, new) is None
''',
}


def crosshair_check(h, name, head, funcs, timeout=30):
    """run `crosshair check` on private wrapper modules (one per function); 'Confirmed over all paths' is the only passing verdict"""
    import shutil
    import time
    if h.replay is not None:
        return
    d = tempfile.mkdtemp(prefix='c19_ch_')
    env = dict(os.environ, JAX_PLATFORMS='cpu', VERIF_REPO=REPO, PYTHONDONTWRITEBYTECODE='1')
    exe = os.path.join(os.path.dirname(sys.executable), 'crosshair')
    try:
        for fn, body in funcs.items():
            path = os.path.join(d, 'wrap_%s.py' % fn)
            with open(path, 'w') as f:
                f.write(head + body)
            t0 = time.time()
            r = subprocess.run([exe, 'check', '--report_all', '--per_condition_timeout', str(timeout), path],
                               capture_output=True, text=True, env=env, timeout=timeout * 4)
            out = (r.stdout + r.stderr).strip()
            dt = round(time.time() - t0, 3)
            qn = '%s/%s.%s' % (h.ob, name, fn)
            lines = [l for l in out.splitlines() if l.startswith(path)]
            if len(lines) == 1 and lines[0].endswith('info: Confirmed over all paths.'):
                h.records.append(dict(query=qn, status='discharged', solver='crosshair(z3)', time_s=dt, attempts=[('crosshair', 'confirmed', dt)], nonvacuous=True,
                                      detail=lines[0][len(path):]))
            elif any(' error: ' in l for l in lines):
                # CrossHair prints a counterexample call: the PX twin of the obligation finds and replays it on the real function
                h.records.append(dict(query=qn, status='unreproduced', solver='crosshair(z3)', time_s=dt, attempts=[('crosshair', 'refuted', dt)], nonvacuous=True,
                                      detail='CrossHair counterexample (the PX twin of this obligation carries the replay): ' + ' | '.join(l[len(path):] for l in lines)[-400:]))
            else:
                h.records.append(dict(query=qn, status='inconclusive', solver='crosshair(z3)', time_s=dt, attempts=[('crosshair', 'unknown', dt)], nonvacuous=None,
                                      detail='CrossHair verdict is not "Confirmed over all paths": ' + out[-400:]))
    finally:
        shutil.rmtree(d, ignore_errors=True)


def make_piu_harness():
    """PX twin: symbolic slot values and a symbolic index; the real function forks on `index == k`"""
    def fn(ex):
        O = _objmod()
        vals = [ex.int('p%d' % k) for k in range(6)]
        idx = ex.int('index')
        new = ex.int('new')
        p = O.Params(*vals)
        with contextlib.redirect_stdout(io.StringIO()):
            r = O.param_index_update(p, idx, new)
        inr = SymBool(z3.And(px._z(idx) >= 0, px._z(idx) <= 5)) if ex.symbolic else (0 <= idx <= 5)
        if bool(inr):
            ex.goal('returns_a_params_tuple', Holds(type(r) is O.Params and len(r) == 6))
            if type(r) is O.Params:
                for k in range(6):
                    hit = U(idx == k) if ex.symbolic else (idx == k)
                    ex.goal('slot_index_replaced', Eq(U(r[k]), U(new), when=hit), info='slot %d' % k)
                    ex.goal('other_slots_identical', Eq(U(r[k]), U(vals[k]), when=(z3.Not(hit) if ex.symbolic else not hit)), info='slot %d' % k)
            ex.goal('input_tuple_untouched', Holds(all(a is b for a, b in zip(p, vals))))
        else:
            ex.goal('out_of_range_returns_none', Holds(r is None))
    return fn


@obligation(P, 'O3.param_index_update', cap=300)
def o3(h):
    """Objective.param_index_update: slot `index` is replaced by the new value, every other slot is unchanged,
    the result is a Params 6-tuple, for index 0..5 (out of range: None) — CrossHair on a private wrapper with PEP-316
    postconditions and a PX twin (symbolic index, z3 decides every path) that carries the replay"""
    O = _objmod()
    h.encoded(O.param_index_update)
    h.bounds('slot values: all integers (independent symbols standing in for arbitrary objects: the function only moves references), index: all integers')
    h.outside('non-integer index objects')
    crosshair_check(h, 'crosshair', CH_HEAD % dict(verif=VERIF), CH_FUNCS)
    px.run_px(h, 'px', make_piu_harness(), cap=20, expect_goals=['slot_index_replaced', 'other_slots_identical', 'out_of_range_returns_none'])


# ------------------------------------------------------------------------------------------ O4: ScaledObjective algebra
MONOS = [(1, 0), (0, 1), (2, 0), (1, 1), (0, 2), (3, 0), (2, 1), (1, 2), (0, 3)]


def energy_poly(x, p):
    """generic cubic polynomial in two unknowns, coefficients in the app_data slot, linear load in the bc slot"""
    co = p[3]
    r = -(x @ p[0])
    for k, (i, j) in enumerate(MONOS):
        r = r + co[k] * x[0] ** i * x[1] ** j
    return r


class _KD:
    def __init__(self, d):
        self.d = d

    def diagonal(self):
        return self.d


def build_scaled(kdiag, x0, load, co, with_precond=True):
    """the REAL ScaledObjective.__init__ run on tracers: the preconditioner strategy hands out a matrix whose diagonal is
    the traced `kdiag`; ScaledPrecondStrategy (scipy.sparse) is replaced by a recorder while the constructor runs"""
    O = _objmod()
    rec = {}

    class PS:
        def initialize(self, x, p):
            rec['init'] = (x, p)

        def precond_at_attempt(self, k):
            rec['attempt'] = k
            return _KD(kdiag)

    class SPS:
        def __init__(self, ps, dofScaling):
            rec['sps'] = (ps, dofScaling)
    p = O.Params(load, None, None, co, None, None)
    ps = PS()
    saved = O.ScaledPrecondStrategy
    O.ScaledPrecondStrategy = SPS
    try:
        so = O.ScaledObjective(energy_poly, x0, p, ps if with_precond else None)
    finally:
        O.ScaledPrecondStrategy = saved
    so.precond = None          # SparseCholesky needs sksparse; not part of the algebra
    return so, p, rec, ps


def s0(a):
    return a[()] if hasattr(a, 'shape') and a.shape == () else a


@obligation(P, 'O4.scaled_objective_algebra', cap=300)
def o4(h):
    """ScaledObjective built by its REAL constructor on a symbolic positive stiffness diagonal K: scaling^2 = K,
    scaling*invScaling = 1, get_value(x) = f(x), get_residual(x) = invScaling * grad f(x), the scaled Hessian-vector product is
    invScaling * H(x)(invScaling * v), a stationary point xBar of the scaled objective maps to a stationary point
    invScaling*xBar of f and back; the wrapped strategy receives invScaling and the unscaled start"""
    O = _objmod()
    h.encoded(O.ScaledObjective.__init__, O.ScaledObjective.get_value, O.ScaledObjective.get_residual, O.Objective.__init__, O.Objective.value, O.Objective.gradient,
              O.Objective.hessian_vec)
    h.bounds('n=2; f = generic cubic polynomial (9 symbolic coefficients) minus a symbolic linear load; stiffness diagonal K_i > 0, points x, xBar, direction v: all reals')
    h.assume_note('stub: precondStrategy.precond_at_attempt(0) returns a matrix whose diagonal is the symbolic K; ScaledPrecondStrategy (scipy.sparse) replaced by a recorder during construction',
                  'oracle for f, grad f, H: jax autodiff of the unscaled energy (the subject here is the change of variables, not autodiff)')
    h.outside('building ScaledPrecondStrategy / the preconditioner through scipy.sparse; K0 with a non-positive diagonal entry (sqrt undefined / division by zero)')
    ex = dict(kdiag=onp.array([2.0, 0.5]), x0=onp.array([0.1, -0.3]), load=onp.array([0.3, 0.2]), co=onp.linspace(0.2, 1.0, 9), x=onp.array([0.4, 0.7]),
              v=onp.array([-0.2, 0.9]))
    smp = lambda rng: [rng.uniform(0.2, 3.0, size=2), rng.normal(size=2), rng.normal(size=2), rng.normal(size=9), rng.normal(size=2), rng.normal(size=2)]

    def fn(kdiag, x0, load, co, x, v):
        so, p, rec, ps = build_scaled(kdiag, x0, load, co)
        g = jax.grad(energy_poly)
        Hv = lambda y, w: jax.jvp(lambda z: g(z, p), (y,), (w,))[1]
        xin = so.invScaling * x                     # x plays the role of xBar here
        return dict(scaling=so.scaling, inv=so.invScaling * jnp.ones(2), val=so.get_value(x), f=energy_poly(x, p), res=so.get_residual(x), g=g(x, p),
                    hv=so.hessian_vec(so.scaling * x, v), Hv=Hv(x, so.invScaling * v), gbar=so.gradient(x), g_at_unscaled=g(xin, p),
                    sps_scaling=rec['sps'][1] * jnp.ones(2), init_x=rec['init'][0], init_load=rec['init'][1][0],
                    p_load=so.p[0], p_co=so.p[3])
    c = Case(h, fn, ex, sampler=smp, label='ScaledObjective')
    h.fact('constructor_wiring', True, 'ScaledPrecondStrategy constructed from the given strategy; precond_at_attempt(0) used (checked at trace time below)')

    def spec(i, o):
        k = i['kdiag']
        pos = [v_lt(0.0, k[0]), v_lt(0.0, k[1])]
        sc, inv = o['scaling'], o['inv']
        at = [Eq([v_mul(sc[a], sc[a]) for a in range(2)], [k[a] for a in range(2)], name='scaling_squared_is_stiffness_diagonal'),
              Lt([0.0, 0.0], [sc[0], sc[1]], name='scaling_positive'),
              Eq([v_mul(sc[a], inv[a]) for a in range(2)], [1.0, 1.0], name='scaling_times_invScaling_is_one'),
              Eq(s0(o['val']), s0(o['f']), name='get_value_is_f'),
              Eq([o['res'][a] for a in range(2)], [v_mul(inv[a], o['g'][a]) for a in range(2)], name='get_residual_is_invScaling_times_grad_f'),
              Eq([o['hv'][a] for a in range(2)], [v_mul(inv[a], o['Hv'][a]) for a in range(2)], name='scaled_hessian_vec_is_invS_H_invS'),
              Eq([o['g_at_unscaled'][a] for a in range(2)], [0.0, 0.0], when=sym.v_and(sym.v_eq(o['gbar'][0], 0.0), sym.v_eq(o['gbar'][1], 0.0)),
                 name='stationary_xBar_maps_to_stationary_invScaling_xBar'),
              Eq([o['res'][a] for a in range(2)], [0.0, 0.0], when=sym.v_and(sym.v_eq(o['g'][0], 0.0), sym.v_eq(o['g'][1], 0.0)),
                 name='stationary_x_gives_zero_scaled_residual'),
              Eq([o['sps_scaling'][a] for a in range(2)], [inv[a] for a in range(2)], name='wrapped_strategy_receives_invScaling'),
              Eq([o['init_x'][a] for a in range(2)] + [o['init_load'][a] for a in range(2)], [i['x0'][a] for a in range(2)] + [i['load'][a] for a in range(2)],
                 name='strategy_initialised_at_unscaled_start_and_given_parameters'),
              Eq(list(o['p_load']) + list(o['p_co']), list(i['load']) + list(i['co']), name='objective_carries_given_parameters')]
        return pos, at
    c.prove('scaled', spec, cap=40)

    # without a preconditioner strategy: the identity scaling
    def fn1(x0, load, co, x):
        so, p, rec, ps = build_scaled(None, x0, load, co, with_precond=False)
        return dict(scaling=so.scaling * jnp.ones(2), inv=so.invScaling * jnp.ones(2), val=so.get_value(x), f=energy_poly(x, p), res=so.get_residual(x),
                    g=jax.grad(energy_poly)(x, p))
    c1 = Case(h, fn1, {k: ex[k] for k in ('x0', 'load', 'co', 'x')}, sampler=lambda rng: [rng.normal(size=2), rng.normal(size=2), rng.normal(size=9), rng.normal(size=2)],
              label='ScaledObjective(no strategy)')
    c1.prove('unscaled', lambda i, o: ([], [Eq(list(o['scaling']) + list(o['inv']), [1.0] * 4, name='identity_scaling'),
                                            Eq(s0(o['val']), s0(o['f']), name='get_value_is_f'),
                                            Eq(list(o['res']), list(o['g']), name='get_residual_is_grad_f')]), cap=20)


DESIGNED_NOT_REGISTERED = []


# ------------------------------------------------------------------------------------------ O4 (continued): BoundConstrainedObjective scaling
def bco_energy(x, p):
    """general quadratic plus a cubic cross term, n = 3, coefficients traced"""
    A = jnp.array([[p[0], p[3], p[4]], [p[3], p[1], p[5]], [p[4], p[5], p[2]]])
    return 0.5 * x @ (A @ x) + p[6:9] @ x + p[9] * x[0] * x[1] * x[2]


BCO_IDX = [2, 0]        # constrained dofs, unsorted on purpose


@obligation(P, 'O4.bound_constrained_scaling', cap=400)
def o4_bco(h):
    """BoundConstrainedObjective built by its REAL constructor with a preconditioner strategy (symbolic positive stiffness
    diagonal K) and a SYMBOLIC constraintStiffnessScaling s > 0: scaling*invScaling = 1 on every dof (constrained ones included),
    invScaling*(scaling*x) = x, scaling^2 = K (free dofs) resp. K/s^2 (constrained dofs); get_value(x) is the augmented Lagrangian
    in ORIGINAL coordinates (f(x) + penalty of the scaled constrained dofs; = f(x) for zero multipliers and feasible x),
    get_residual(x) = invScaling * grad of that, the multipliers reported are lam*scaling; stationary points map both ways"""
    from . import c04
    import optimism.BoundConstrainedObjective as BCO
    from optimism import ConstrainedObjective as CO
    h.encoded(BCO.BoundConstrainedObjective.__init__, BCO.BoundConstrainedObjective.get_value, BCO.BoundConstrainedObjective.get_residual,
              BCO.BoundConstrainedObjective.get_multipliers, CO.ConstrainedObjective.__init__, CO.ConstrainedObjective.create_augmented_lagrangian)
    h.bounds('n=3 unknowns, constrainedIndices = %s (concrete, unsorted); f = general quadratic + cubic cross term (10 symbolic coefficients); stiffness diagonal K_i > 0, '
             'constraintStiffnessScaling s > 0 (symbolic, in particular s != 1), start x0, evaluation point x, multipliers lam >= 0: all reals; kappa = 1/4 (the constructor\'s value)' % BCO_IDX)
    h.assume_note('stub: precondStrategy.precond_at_attempt(0) returns a matrix whose diagonal is the symbolic K; sparse_diags / onp.array inside ScaledPrecondStrategy.__init__ replaced by no-ops '
                  '(as in C04-O5); the object is constructed with concrete constrainedIndices under jax.ensure_compile_time_eval (c04._build_bco)',
                  'oracle: augmented Lagrangian penalty written out in the harness (lam >= kappa c: -c lam + kappa c^2/2, else -lam^2/(2 kappa)), grad f by jax autodiff of the unscaled energy')
    h.outside('the assembled scaled preconditioner matrices (scipy.sparse); upper bounds')
    jx.OTHER['scatter-mul'] = c04._scatter_mul
    jx.OTHER['scatter_mul'] = c04._scatter_mul
    BCO.sparse_diags = lambda *a, **k: None
    BCO.onp = types.SimpleNamespace(array=lambda a: a)
    idx = onp.array(BCO_IDX)

    def F(x0, p, Kd, css, x, lam):
        o = c04._build_bco(BCO, bco_energy, x0, p, idx, constraintStiffnessScaling=css, precondStrategy=c04._StubPrecondStrategy(Kd))
        out = dict(scaling=o.scaling, inv=o.invScaling, lam0=o.lam, roundtrip=o.invScaling * (o.scaling * x))
        o.lam = lam
        out.update(val=o.get_value(x), res=o.get_residual(x), mult=o.get_multipliers(), f=bco_energy(x, p), g=jax.grad(bco_energy)(x, p),
                   c=o.constraint(o.scaling * x), f0=bco_energy(x0, p), val_at_start=o.value(o.scaling * x0))
        o.lam = jnp.zeros(2)
        out.update(val_nolam=o.get_value(x), res_nolam=o.get_residual(x), g_at_unscaled=jax.grad(bco_energy)(o.invScaling * x, p), gbar_nolam=o.gradient(x))
        return out
    ex = dict(x0=onp.array([0.1, -0.3, 0.2]), p=onp.array([2.0, 1.5, 3.0, 0.2, -0.1, 0.3, 0.5, -1.0, 0.7, 0.4]), Kd=onp.array([2.0, 1.5, 3.0]), css=0.05, x=onp.array([0.05, 0.2, 0.1]),
              lam=onp.array([0.3, 0.0]))
    smp = lambda rng: [rng.normal(size=3), rng.normal(size=10), onp.abs(rng.normal(size=3)) + 0.3, abs(rng.normal()) + 0.3, rng.normal(size=3), onp.abs(rng.normal(size=2))]
    c = Case(h, F, ex, sampler=smp, label='BoundConstrainedObjective(precondStrategy, constraintStiffnessScaling)')

    def pen(l, cc):
        k = 0.25
        return sym.v_if(sym.v_le(v_mul(k, cc), l), sym.v_add(v_mul(-1.0, v_mul(cc, l)), v_mul(0.5 * k, v_mul(cc, cc))), v_mul(-0.5 / k, v_mul(l, l)))

    def dpen(l, cc):
        k = 0.25
        return sym.v_if(sym.v_le(v_mul(k, cc), l), sym.v_add(v_mul(-1.0, l), v_mul(k, cc)), 0.0)

    def spec(i, o):
        Kd, css, x, lam = i['Kd'], s0(i['css']), i['x'], i['lam']
        asm = [v_lt(0.0, css)] + [v_lt(0.0, Kd[k]) for k in range(3)] + [sym.v_le(0.0, lam[j]) for j in range(2)]
        sc, inv = o['scaling'], o['inv']
        cs = [v_mul(sc[k], x[k]) for k in BCO_IDX]                       # the constraint values the class works with: scaled constrained dofs
        feas = sym.v_and(*[sym.v_le(0.0, x[k]) for k in BCO_IDX])
        ats = [Eq([v_mul(sc[k], inv[k]) for k in range(3)], [1.0] * 3, name='scaling_times_invScaling_is_one'),
               Lt([0.0] * 3, list(sc), name='scaling_positive'),
               Eq(list(o['roundtrip']), list(x), name='unscaling_the_scaled_point_gives_the_point_back'),
               Eq([v_mul(sc[1], sc[1])], [Kd[1]], name='free_dof_scaling_squared_is_stiffness'),
               Eq([v_mul(v_mul(sc[k], css), v_mul(sc[k], css)) for k in BCO_IDX], [Kd[k] for k in BCO_IDX], name='constrained_dof_scaling_is_sqrt_stiffness_over_constraintStiffnessScaling'),
               Eq(list(o['c']), cs, name='constraint_is_the_scaled_constrained_dofs'),
               Eq(s0(o['val']), sym.v_sum([s0(o['f'])] + [pen(lam[j], cs[j]) for j in range(2)]), name='get_value_is_augmented_lagrangian_at_the_ORIGINAL_point'),
               Eq(s0(o['val_nolam']), s0(o['f']), when=feas, name='get_value_is_f_for_zero_multipliers_and_feasible_point'),
               Eq(s0(o['val_at_start']), sym.v_sum([s0(o['f0'])] + [pen(lam[j], v_mul(sc[k], i['x0'][k])) for j, k in enumerate(BCO_IDX)]),
                  name='scaled_start_point_is_the_original_start'),
               Eq(list(o['mult']), [v_mul(lam[j], sc[k]) for j, k in enumerate(BCO_IDX)], name='get_multipliers_is_lam_times_scaling')]
        want = [o['g'][k] for k in range(3)]
        for j, k in enumerate(BCO_IDX):
            want[k] = sym.v_add(want[k], v_mul(sc[k], dpen(lam[j], cs[j])))
        ats.append(Eq(list(o['res']), [v_mul(inv[k], want[k]) for k in range(3)], name='get_residual_is_invScaling_times_gradient_in_original_coordinates'))
        ats.append(Eq(list(o['res_nolam']), [v_mul(inv[k], o['g'][k]) for k in range(3)], when=feas, name='get_residual_is_invScaling_grad_f_for_zero_multipliers_and_feasible_point'))
        ats.append(Eq(list(o['g']), [0.0] * 3, when=sym.v_and(feas, *[sym.v_eq(o['res_nolam'][k], 0.0) for k in range(3)]),
                      name='zero_residual_means_stationary_f_for_zero_multipliers_and_feasible_point'))
        ats.append(Eq(list(o['g_at_unscaled']), [0.0] * 3, when=sym.v_and(*([sym.v_le(0.0, x[k]) for k in BCO_IDX] + [sym.v_eq(o['gbar_nolam'][k], 0.0) for k in range(3)])),
                      name='stationary_xBar_maps_to_stationary_invScaling_xBar'))
        return asm, ats
    c.prove('bco_scaled', spec, cap=60)
