"""C15 — Newmark stepping: predictor/corrector formulas, stationarity of the algorithmic energy <=> discrete balance
of momentum, rigid translation exact, consistent mass, trapezoidal energy conservation (JX, all reals).

Everything is traced from `Mechanics.create_dynamics_functions` on a one-triangle mesh built inside the traced
function (so coordinates, moduli, density, beta, gamma, dt are traced arguments, not closed-over floats)."""
import numpy as onp
import jax
import jax.numpy as jnp

from ..core import obligation
from ..jxh import Case
from .. import sym
from ..sym import Le, Eq, Holds, flat, v_abs, v_lt, v_and, v_not, v_sub, v_add, v_mul, v_sum, v_eq

P = 'C15'

DESIGNED_NOT_REGISTERED = [
    ('O5 in its direct form (concrete moduli/triangle, hypotheses r_old = r_new = 0 on the free dofs, goal E_new == E_old as one query)',
     'not an exact identity of the encoding: with all-concrete geometry and moduli JX folds products of constants (vols*shape values) in '
     'binary64, differently in the energy and in its gradient; z3 core found an exact-arithmetic model with E_new - E_old = 3/2^56 '
     '(not reproducible in floats), eqnlsat/nlsat return unknown at 60 s, and with E, rho symbolic-but-pinned all three back ends return '
     'unknown at 40 s. Replaced by a STRONGER chain: the energy-balance identity with vertices, moduli, density, dt and state all symbolic '
     '(0-12 free dofs, discharged in 0.1-7 s) + a definition-dropped corollary; concrete triangles/materials are kept as reachability '
     'witnesses of the hypotheses (solver model replayed on the real code).'),
    ('O5 energy identity in axisymmetric mode with fully symbolic vertices',
     'unknown at 90 s (z3 core and nlsat), with the built-in division and with the inverse-variable encoding of u_r/r; registered instead: '
     'concrete triangle shapes at a symbolic radial position R > 0 with symbolic moduli, density, dt and state (0.5-2 s); O2/O4 in '
     'axisymmetric mode do hold with fully symbolic vertices'),
    ('uniqueness of the stationary point of the algorithmic energy (strict convexity) for symbolic geometry or moduli',
     'not in the design; probed: g(d,0)=0 => d=0 is unsat in 15 s only with concrete triangle AND moduli (z3 core), unknown at 40 s otherwise; '
     'O4 proves KE positive definite, SE >= 0 is the material property C08'),
]

REF = [[0.0, 0.0], [1.0, 0.0], [0.0, 1.0]]
# concrete triangles for O5 (dyadic coordinates keep the rationals short): reference + two distorted
TRIANGLES = {
    'ref': REF,
    'skew': [[0.0, 0.0], [1.5, 0.25], [0.5, 1.25]],
    'obtuse': [[-0.25, 0.5], [2.0, -0.5], [0.75, 1.0]],
}
# (E, nu, rho)
MATERIALS = {
    'E10_nu0_rho1': (10.0, 0.0, 1.0),            # the repository's dynamics test
    'E1_nu0.25_rho2': (1.0, 0.25, 2.0),
    'E3.5_nu0.375_rho0.5': (3.5, 0.375, 0.5),
}


def s0(a):
    return a[()] if hasattr(a, 'shape') and a.shape == () else a


def _mods():
    from optimism import Mechanics, FunctionSpace, Interpolants, QuadratureRule, Mesh
    from optimism.material import LinearElastic
    return Mechanics, FunctionSpace, Interpolants, QuadratureRule, Mesh, LinearElastic


# element blocks given to the single-element meshes: None (block-less mesh, accepted by the unchanged tree). When the tree under test
# rejects block-less meshes, _blocks_or_report records that as a violation and switches to one block so that the rest is still decided.
DEFAULT_BLOCKS = None
TWO_BLOCKS = lambda: {'a': jnp.array([0]), 'b': jnp.array([1])}
_UNSET = object()
QUAD = [[0.0, 0.0], [1.0, 0.0], [0.0, 1.0], [1.0, 1.0]]      # two-element mesh: triangles (0,1,2) and (1,3,2)


class Setup:
    """parent element, quadrature rule and shape tables (ground data of the real code); one element, or (nel=2) two P1 elements
    sharing an edge; `blocks` = element blocks of the mesh (dict name -> element ids) or None"""

    def __init__(self, qdeg=2, degree=1, mode='plane strain', nel=1, blocks=_UNSET):
        Mechanics, FunctionSpace, Interpolants, QuadratureRule, Mesh, LinearElastic = _mods()
        assert nel == 1 or degree == 1
        self.nel = nel
        self.blocks = DEFAULT_BLOCKS if blocks is _UNSET else blocks
        self.degree = degree
        self.mode = mode
        self.axi = mode == 'axisymmetric'
        # example vertices (axisymmetric: all radii > 0)
        self.Xex = onp.asarray(REF if nel == 1 else QUAD) + (onp.array([1.0, 0.0]) if self.axi else 0.0)
        self.pe, self.pe1 = Interpolants.make_parent_elements(degree)
        self.qr = QuadratureRule.create_quadrature_rule_on_triangle(qdeg)
        self.shp = Interpolants.compute_shapes(self.pe, self.qr.xigauss)
        self.nn = int(self.pe.coordinates.shape[0])
        self.conns = jnp.arange(self.nn)[None, :]
        if nel == 2:
            self.nn, self.conns = 4, jnp.array([[0, 1, 2], [1, 3, 2]])
        self.state = jnp.zeros((nel, len(self.qr), 0))
        # straight-sided element: node a sits at xi_a*v0 + eta_a*v1 + (1-xi_a-eta_a)*v2 (v = vertices in parent order)
        xi = onp.asarray(self.pe.coordinates)
        self.B = onp.column_stack([xi[:, 0], xi[:, 1], 1.0 - xi[:, 0] - xi[:, 1]])
        self.Z = onp.zeros((self.nn, 2))

    def fs(self, X, nodeSets=None):
        """X: (3,2) vertex coordinates (nodal coordinates for degree 1)"""
        _, FunctionSpace, _, _, Mesh, _ = _mods()
        with jax.ensure_compile_time_eval():
            coords = X if self.degree == 1 else jnp.asarray(self.B) @ X
            mesh = Mesh.Mesh(coords, self.conns, None, self.pe, self.pe1, self.blocks, nodeSets, None)
            return FunctionSpace.construct_function_space_from_parent_element(mesh, self.shp, self.qr,
                                                                              mode2D='axisymmetric' if self.axi else 'cartesian')

    def rand_tri(self, rng):
        return self.Xex + rng.uniform(-0.2, 0.2, size=self.Xex.shape)

    def dyn(self, coords, E, nu, rho, beta, gamma, nodeSets=None, fs=None):
        Mechanics, _, _, _, _, LinearElastic = _mods()
        fs = self.fs(coords, nodeSets) if fs is None else fs
        mat = LinearElastic.create_material_model_functions({'elastic modulus': E, 'poisson ratio': nu, 'density': rho})
        # the factory may itself build tables with NumPy (parent-element shapes, quadrature rules) while a trace is active:
        # constant sub-computations are kept eager, only what depends on the traced arguments is staged (DESIGN 3.1)
        with jax.ensure_compile_time_eval():
            return Mechanics.create_dynamics_functions(fs, self.mode, mat, Mechanics.NewmarkParameters(gamma=gamma, beta=beta))


def _encoded(h):
    Mechanics, FunctionSpace, _, _, _, LinearElastic = _mods()
    h.encoded(Mechanics.axisymmetric_element_gradient_transformation, Mechanics.axisymmetric_gradient,
              FunctionSpace.compute_element_volumes_axisymmetric, Mechanics.parse_2D_to_3D_gradient_transformation)
    h.encoded(Mechanics.create_dynamics_functions, Mechanics.compute_newmark_lagrangian, Mechanics.kinetic_energy_density,
              Mechanics._compute_kinetic_energy, Mechanics._compute_element_masses, Mechanics._compute_strain_energy,
              Mechanics._compute_newmark_element_hessians,
              Mechanics.compute_element_stiffness_from_global_fields, Mechanics.plane_strain_gradient_transformation,
              Mechanics.strain_energy_density_to_lagrangian_density,
              FunctionSpace.construct_function_space_from_parent_element, FunctionSpace.map_element_shape_grads,
              FunctionSpace.compute_element_volumes, FunctionSpace.integrate_over_block, FunctionSpace.evaluate_on_element,
              FunctionSpace.integrate_element_from_local_field,
              LinearElastic.create_material_model_functions, LinearElastic._make_properties,
              LinearElastic._linear_elastic_energy_density, LinearElastic.linear_strain)


# ---- small list algebra over "numbers" (z3 terms or floats)
def ax(c, a):
    return [v_mul(c, x) for x in flat(a)]


def add(*ls):
    ls = [flat(l) for l in ls]
    return [v_sum([l[k] for l in ls]) for k in range(len(ls[0]))]


def sub(a, b):
    return [v_sub(x, y) for x, y in zip(flat(a), flat(b))]


def area2(X):
    """twice the signed area of the triangle with vertex array X (3,2)"""
    return v_sub(v_mul(v_sub(X[1, 0], X[0, 0]), v_sub(X[2, 1], X[0, 1])), v_mul(v_sub(X[1, 1], X[0, 1]), v_sub(X[2, 0], X[0, 0])))


BOX = 'E > 0, -1 < nu < 1/2, rho > 0, beta > 0, gamma > 0, dt > 0, twice the signed area of the triangle > 0'


def _box(i, S=None):
    """the physical parameter box of the property (a superset of the unconditionally stable range 2 beta >= gamma >= 1/2);
    only the inputs present in the case are constrained; axisymmetric setups: every vertex radius > 0"""
    out = []
    for k, lo, hi in (('E', 0.0, None), ('nu', -1.0, 0.5), ('rho', 0.0, None), ('beta', 0.0, None), ('gamma', 0.0, None), ('dt', 0.0, None)):
        if k in i:
            out.append(v_lt(lo, s0(i[k])))
            if hi is not None:
                out.append(v_lt(s0(i[k]), hi))
    if 'X' in i:
        X = i['X']
        out.append(v_lt(0.0, area2(X)))
        if X.shape[0] == 4:      # two-element mesh: second triangle (1,3,2)
            out.append(v_lt(0.0, area2(X[[1, 3, 2]])))
        if S is not None and S.axi:
            out += [v_lt(0.0, X[n, 0]) for n in range(X.shape[0])]
    return out


def _blocks_or_report(h):
    """the public factory on a block-less mesh (Mesh.blocks = None, what Mesh.construct_mesh_from_basic_data gives without blocks and what
    the unchanged tree accepts): evaluate the algorithmic energy once on concrete inputs. If the real function raises, that is a
    behavioural regression of the public function: reported as a violation (with the inputs); the obligations then continue on
    single-block meshes so that everything else is still decided."""
    global DEFAULT_BLOCKS
    name = 'algorithmic_energy_accepts_blockless_mesh'
    vals = dict(X=REF, E=1.0, nu=0.25, rho=1.0, beta=0.25, gamma=0.5, U=[[0.1, 0.0], [0.0, 0.2], [0.0, 0.0]], Upred=[[0.0, 0.0]] * 3, dt=0.5,
                blocks=None)

    def probe():
        S = Setup(blocks=None)
        d = S.dyn(jnp.asarray(vals['X']), vals['E'], vals['nu'], vals['rho'], vals['beta'], vals['gamma'])
        return float(d.compute_algorithmic_energy(jnp.asarray(vals['U']), jnp.asarray(vals['Upred']), S.state, vals['dt']))
    try:
        e = probe()
        err = None
    except Exception as ex:      # the real function raised on a block-less mesh
        err = '%s: %s' % (type(ex).__name__, ex)
    if h.replay is not None:
        if h.replay.get('query') == '%s/%s' % (h.ob, name):
            h.replay_result = dict(status='violated' if err else 'unreproduced', detail=err or 'algorithmic energy = %r' % e)
        if err:
            DEFAULT_BLOCKS = {'block': jnp.array([0])}
        return
    if err:
        h.violation(name, vals, 'create_dynamics_functions(...).compute_algorithmic_energy raises on a mesh without element blocks '
                                '(Mesh.blocks = None), which the property quantifies over and the reference tree accepts: ' + err)
        DEFAULT_BLOCKS = {'block': jnp.array([0])}
    else:
        h.fact(name, True, 'block-less one-element mesh: algorithmic energy = %.6g' % e, nontrivial=False)


def _rand_tri(rng):
    return onp.asarray(REF) + rng.uniform(-0.2, 0.2, size=(3, 2))


def _params(rng):
    # E, nu, rho, beta, gamma
    return [rng.uniform(0.5, 3.0), rng.uniform(-0.3, 0.45), rng.uniform(0.5, 2.0), rng.uniform(0.1, 0.5), rng.uniform(0.3, 0.9)]


AXI_SPLIT = False
TWO_PI = 2 * float(onp.pi)
EX_PAR = dict(E=1.0, nu=0.3, rho=1.5, beta=0.25, gamma=0.5)
Z32 = onp.zeros((3, 2))


# =========================================================================================== O1
@obligation(P, 'O1.predict_correct_are_newmark', cap=240)
def o1(h):
    """predict/correct closures of create_dynamics_functions equal the Newmark formulas; composed around ANY new
    displacement they give the Newmark displacement and velocity updates — all fields, beta, gamma, dt symbolic"""
    S = Setup()
    _encoded(h)
    h.bounds('U, V, A, Unew: all real (3,2) fields (the closures are elementwise in the field, so the shape is immaterial); '
             'beta > 0, gamma > 0, dt > 0: all reals (superset of the unconditionally stable range)')
    h.assume_note('O1: beta*dt*dt != 0 (the only symbolic denominator, in correct; implied by the box)')
    h.outside('fields of other shapes (elementwise code, not proved separately)')

    def f(beta, gamma, U, V, A, Un, dt):
        d = S.dyn(jnp.asarray(REF), 1.0, 0.25, 1.0, beta, gamma)
        Up, Vp = d.predict(U, V, A, dt)
        Vn, An = d.correct(Un - Up, Vp, A, dt)
        return Up, Vp, Vn, An

    ex = dict(beta=0.25, gamma=0.5, U=Z32 + 0.1, V=Z32 - 0.2, A=Z32 + 0.3, Un=Z32 + 0.05, dt=0.1)
    smp = lambda rng: [rng.uniform(0.1, 0.5), rng.uniform(0.3, 0.9), rng.normal(size=(3, 2)), rng.normal(size=(3, 2)),
                       rng.normal(size=(3, 2)), rng.normal(size=(3, 2)), rng.uniform(0.05, 1.0)]
    c = Case(h, f, ex, sampler=smp, label='predict_correct')

    def spec(i, o):
        b, g, dt = s0(i['beta']), s0(i['gamma']), s0(i['dt'])
        U, V, A, Un = i['U'], i['V'], i['A'], i['Un']
        Up, Vp, Vn, An = o
        dt2 = v_mul(dt, dt)
        one_m2b = v_sub(1.0, v_mul(2.0, b))
        return _box(i), [
            Eq(Up, add(U, ax(dt, V), ax(v_mul(v_mul(0.5, dt2), one_m2b), A)), name='predictor_displacement'),
            Eq(Vp, add(V, ax(v_mul(dt, v_sub(1.0, g)), A)), name='predictor_velocity'),
            Eq(ax(v_mul(b, dt2), An), sub(Un, Up), name='corrector_acceleration_times_beta_dt2'),
            Eq(Vn, add(Vp, ax(v_mul(g, dt), An)), name='corrector_velocity'),
            Eq(Un, add(U, ax(dt, V), ax(v_mul(v_mul(0.5, dt2), one_m2b), A), ax(v_mul(dt2, b), An)), name='newmark_displacement_update'),
            Eq(Vn, add(V, ax(v_mul(dt, v_sub(1.0, g)), A), ax(v_mul(dt, g), An)), name='newmark_velocity_update'),
        ]
    c.prove('newmark', spec, cap=40, order=('nlsat', 'core'))


# =========================================================================================== O2
@obligation(P, 'O2.stationarity_is_momentum_balance', cap=600)
def o2(h):
    """grad_U algorithmic_energy(U, Upred) = grad SE(U) + grad KE(A') with (V', A') = correct(U - Upred, ...) — the real
    closures on a triangle with SYMBOLIC vertices, moduli, density, beta, gamma, dt and fields"""
    _blocks_or_report(h)
    _encoded(h)
    h.bounds('block-less one-element mesh accepted by the factory (ground fact; a raise is a violation); a two-element P1 mesh (4 symbolic '
             'vertices, both areas > 0) in two element blocks {a:[0], b:[1]}; '
             'one triangle with symbolic vertices: P1 with the 3-point and 1-point rules in plane strain and P1 with the 3-point rule in '
             'AXISYMMETRIC mode (axisymmetric function space, all vertex radii > 0) (quick), additionally straight-sided P2 with the '
             '3-point rule and axisymmetric P1 with the 1-point rule (thorough); box: ' + BOX + '; U, Upred, V, A: all reals')
    h.assume_note('O2: symbolic denominators nonzero: 1+nu, 1-2nu, beta*dt^2 (implied by the box); Jacobian of the element map non-singular '
                  '(jnp solve encoded relationally, hash-consed)',
                  'O2 axisymmetric: radius at every quadrature point nonzero (denominator of the hoop strain u_r/r; implied by vertex radii > 0)')
    h.outside('meshes of more than two elements (energies are sums over elements and blocks; assembly is C14), element order > 2, '
              'non-linear-elastic materials (note: compute_element_hessians evaluates the strain-energy Hessian at U - Upred, which '
              'coincides with the Hessian at U only for a quadratic strain energy), pressure projection')

    def run(S, tag, cap, split):
        def f(X, E, nu, rho, beta, gamma, U, Up, Vp, A, dt):
            d = S.dyn(X, E, nu, rho, beta, gamma)
            gL = jax.grad(d.compute_algorithmic_energy)(U, Up, S.state, dt)
            gS = jax.grad(lambda u: d.compute_output_strain_energy(u, S.state, dt))(U)
            Vn, An = d.correct(U - Up, Vp, A, dt)
            MA = jax.grad(d.compute_output_kinetic_energy)(An)
            return gL, gS, MA

        Z = S.Z
        ex = dict(X=S.Xex, **EX_PAR, U=Z + 0.1, Up=Z - 0.2, Vp=Z + 0.3, A=Z, dt=0.1)
        smp = lambda rng: [S.rand_tri(rng)] + _params(rng) + [rng.normal(size=Z.shape) for _ in range(4)] + [rng.uniform(0.05, 1.0)]
        c = Case(h, f, ex, sampler=smp, label='momentum_balance' + tag, validate=3 if not tag else 1)

        def spec(i, o):
            gL, gS, MA = o
            rhs = add(gS, MA)
            if split:   # one query per dof (P2: 1-4 s each; the monolithic disjunction needs 30-150 s)
                return _box(i, S), [Eq(a, b, name='gradL_eq_gradSE_plus_M_Anew_dof%d' % k) for k, (a, b) in enumerate(zip(flat(gL), rhs))]
            return _box(i, S), Eq(gL, rhs, name='gradL_eq_gradSE_plus_M_Anew')
        c.prove('balance' + tag, spec, cap=cap, order=('core', 'nlsat'))

    def run_hessian(S, tag):
        # the separately coded element Hessian (stiffness/preconditioner path) is the Hessian of the same algorithmic energy
        def fh(X, E, nu, rho, beta, gamma, U, Up, dt):
            d = S.dyn(X, E, nu, rho, beta, gamma)
            H = jax.hessian(lambda u: d.compute_algorithmic_energy(u, Up, S.state, dt))(U)
            return H, d.compute_element_hessians(U, Up, S.state, dt)
        Z = S.Z
        exh = dict(X=S.Xex, **EX_PAR, U=Z + 0.1, Up=Z - 0.2, dt=0.1)
        smph = lambda rng: [S.rand_tri(rng)] + _params(rng) + [rng.normal(size=Z.shape) for _ in range(2)] + [rng.uniform(0.05, 1.0)]
        ch = Case(h, fh, exh, sampler=smph, label='element_hessian' + tag, validate=3 if not tag else 1)
        conns = onp.asarray(S.conns)

        def spec_h(i, o):
            H, He = o
            n = S.nn
            G = [[0.0] * (2 * n) for _ in range(2 * n)]      # assembled element Hessians
            for e in range(conns.shape[0]):
                for a in range(conns.shape[1]):
                    for k in range(2):
                        for b in range(conns.shape[1]):
                            for l in range(2):
                                r, c = 2 * int(conns[e, a]) + k, 2 * int(conns[e, b]) + l
                                G[r][c] = v_add(G[r][c], He[e, a, k, b, l])
            return _box(i, S), Eq([G[r][c] for r in range(2 * n) for c in range(2 * n)], H, name='element_hessian_is_hessian_of_algorithmic_energy')
        ch.prove('hessian' + tag, spec_h, cap=60, order=('core', 'nlsat'))

    run(Setup(), '', 60, False)
    run(Setup(qdeg=1), '_1pt', 60, False)      # a rule below degree 2p: shows inconsistent quadrature between the energies
    run_hessian(Setup(), '')
    # two elements in two element blocks {'a': [0], 'b': [1]}: energies are sums over blocks, each weighted once
    run(Setup(nel=2, blocks=TWO_BLOCKS()), '_2blocks', 120, False)   # 10 s monolithic; per-dof splitting makes a failing tree 8x slower
    run_hessian(Setup(nel=2, blocks=TWO_BLOCKS()), '_2blocks')
    # axisymmetric mode: every closure must use the same (axisymmetric) kinematics and the 2*pi*r weighted volumes
    AX = AXI_SPLIT
    run(Setup(mode='axisymmetric'), '_axi', 60, AX)
    run_hessian(Setup(mode='axisymmetric'), '_axi')
    if h.thorough():
        run(Setup(degree=2), '_P2', 60, True)
        run(Setup(qdeg=1, mode='axisymmetric'), '_axi_1pt', 60, AX)


# =========================================================================================== O3
def _trans(a):
    """nodal field (3,2) of the rigid translation a (2,)"""
    return jnp.ones((3, 1)) * a[None, :]


def _pou_lemma(G):
    """shape gradients of the function space sum to zero over the nodes at every quadrature point (z3 side only)"""
    G = G[0]
    return [sym.toz(v_sum([G[q, a, k] for a in range(G.shape[1])])) == 0 for q in range(G.shape[0]) for k in range(G.shape[2])]


@obligation(P, 'O3.rigid_translation_exact', cap=300)
def o3(h):
    """rigid translation at constant velocity is a fixed point of predict - minimise - correct: the predictor is a
    stationary point of the algorithmic energy, the corrector returns the same velocity and zero acceleration;
    grad SE and grad L are translation invariant and nodal internal forces sum to zero (linear momentum).
    Cut-lemma chain: (L) the real function space's shape gradients sum to zero over the nodes, proved from the
    relational encoding of the element-map solve on the same terms, then used as an assumption in the other goals."""
    _blocks_or_report(h)
    S = Setup()
    _encoded(h)
    h.bounds('one P1 triangle with symbolic vertices; box: ' + BOX + '; translation a, velocity c, fields U, Upred: all reals')
    h.assume_note('O3: symbolic denominators nonzero (1+nu, 1-2nu, beta*dt^2: implied by the box), element Jacobian non-singular',
                  'O3: goals other than the lemma assume the lemma "sum_a shapeGrads[q,a,:] = 0", itself discharged in the same obligation '
                  'on the same solver terms (cut-lemma chain, DESIGN section 4)')
    h.outside('uniqueness of the minimiser (strict convexity of the algorithmic energy; O4 gives KE positive definite, SE >= 0 is C08); '
              'rigid rotation (the linear strain measure is not rotation invariant); P2 and higher: the tabulated reference gradients '
              'sum to zero only to ~1e-16, so exact invariance is not an identity of the encoding there')

    def f(X, E, nu, rho, beta, gamma, a, c, dt):
        fs = S.fs(X)
        d = S.dyn(X, E, nu, rho, beta, gamma, fs=fs)
        U, V, A = _trans(a), _trans(c), jnp.zeros((3, 2))
        Up, Vp = d.predict(U, V, A, dt)
        g = jax.grad(d.compute_algorithmic_energy)(Up, Up, S.state, dt)
        Vn, An = d.correct(Up - Up, Vp, A, dt)
        return Up, g, Vn, An, fs.shapeGrads

    ex = dict(X=onp.asarray(REF), **EX_PAR, a=onp.array([0.3, -0.1]), c=onp.array([1.0, 0.5]), dt=0.1)
    smp = lambda rng: [_rand_tri(rng)] + _params(rng) + [rng.normal(size=2), rng.normal(size=2), rng.uniform(0.05, 1.0)]
    c1 = Case(h, f, ex, sampler=smp, label='translation_step')

    def lemma_spec(i, o):
        G = o[-1][0]
        return _box(i), Eq([v_sum([G[q, a, k] for a in range(3)]) for q in range(G.shape[0]) for k in range(2)], 0.0,
                                         name='shape_gradients_sum_to_zero')
    c1.prove('lemma', lemma_spec, cap=40, order=('nlsat', 'core'))

    def spec(i, o):
        a, c, dt = i['a'], i['c'], s0(i['dt'])
        Up, g, Vn, An, _ = o
        exact = [v_add(a[k], v_mul(dt, c[k])) for _ in range(3) for k in range(2)]
        return _box(i), [
            Eq(Up, exact, name='predictor_is_exact_translation'),
            Eq(g, 0.0, name='predictor_is_stationary'),
            Eq(Vn, [c[k] for _ in range(3) for k in range(2)], name='velocity_unchanged'),
            Eq(An, 0.0, name='acceleration_zero'),
        ]
    c1.prove('fixed_point', spec, cap=60, extra_assumes=_pou_lemma(c1.out[-1]), order=('nlsat', 'core'))

    def f2(X, E, nu, rho, beta, gamma, U, Up, a, dt):
        fs = S.fs(X)
        d = S.dyn(X, E, nu, rho, beta, gamma, fs=fs)
        gse = jax.grad(lambda u: d.compute_output_strain_energy(u, S.state, dt))
        gl = jax.grad(d.compute_algorithmic_energy)
        T = _trans(a)
        return gse(U), gse(U + T), gl(U, Up, S.state, dt), gl(U + T, Up + T, S.state, dt), fs.shapeGrads

    ex2 = dict(X=onp.asarray(REF), **EX_PAR, U=Z32 + 0.1, Up=Z32 - 0.2, a=onp.array([0.3, -0.1]), dt=0.1)
    smp2 = lambda rng: [_rand_tri(rng)] + _params(rng) + [rng.normal(size=(3, 2)), rng.normal(size=(3, 2)), rng.normal(size=2), rng.uniform(0.05, 1.0)]
    c2 = Case(h, f2, ex2, sampler=smp2, label='translation_invariance')
    c2.prove('lemma2', lemma_spec, cap=40, order=('nlsat', 'core'))

    def spec2(i, o):
        g0, g1, l0, l1, _ = o
        return _box(i), [
            Eq(g1, g0, name='gradSE_translation_invariant'),
            Eq(l1, l0, name='gradL_translation_invariant'),
            Eq([v_sum([g0[n, k] for n in range(3)]) for k in range(2)], 0.0, name='internal_forces_sum_to_zero'),
        ]
    c2.prove('invariance', spec2, cap=60, extra_assumes=_pou_lemma(c2.out[-1]), order=('nlsat', 'core'))


# =========================================================================================== O4
@obligation(P, 'O4.consistent_mass', cap=300)
def o4(h):
    """compute_element_masses(): every component block sums to rho*area (within the ground partition-of-unity defect of
    the shape table, rel 1e-12), cross-component blocks vanish, M is symmetric, and it IS the mass implied by the kinetic
    energy: grad KE(V) = M V and KE(V) = V.M.V/2 for all V; KE(V) > 0 for V != 0 when the rule has enough points
    — symbolic vertices and density"""
    _encoded(h)
    h.bounds('two P1 triangles sharing an edge with symbolic vertices (both signed areas > 0, areas independent), 3-point rule: per-element block sums and the sum of element quadratic forms = 2 KE; '
             'one triangle with symbolic vertices (signed area > 0), rho > 0, V: all reals; '
             'P1 with the 3-point and 1-point rules, straight-sided P2 with the 3-point rule, and P1 with both rules on the AXISYMMETRIC function '
             'space (vertex radii > 0; blocks sum to rho * volume of revolution = rho*2*pi*area*centroid radius) (quick); P2 with the 6-point rule (thorough)')
    h.outside('element order > 2; spatially varying density (the code assumes homogeneous density); positive definiteness is not claimed for '
              'the axisymmetric mass (solver unknown at 60 s) nor for under-integrated masses (P1/1-point, P2/3-point: singular by construction)')

    def run(S, tag, definite):
        n = S.nn

        def f(X, rho, V):
            d = S.dyn(X, 1.0, 0.25, rho, 0.25, 0.5)
            M = d.compute_element_masses()[0]
            return M, jax.grad(d.compute_output_kinetic_energy)(V), d.compute_output_kinetic_energy(V)
        ex = dict(X=S.Xex, rho=1.5, V=S.Z + 0.3)
        smp = lambda rng: [S.rand_tri(rng), rng.uniform(0.5, 2.0), rng.normal(size=(n, 2))]
        c = Case(h, f, ex, sampler=smp, label='masses' + tag, validate=3 if not tag else 1)

        def spec(i, o):
            M, gK, KE = o
            X, rho, V = i['X'], s0(i['rho']), i['V']
            ra = v_mul(rho, v_mul(0.5, area2(X)))
            if S.axi:   # volume of revolution: 2*pi * area * centroid radius (2*pi = the code's binary64 constant)
                ra = v_mul(ra, v_mul(TWO_PI / 3.0, v_sum([X[0, 0], X[1, 0], X[2, 0]])))
            blocks = {(k, l): v_sum([M[a, k, b, l] for a in range(n) for b in range(n)]) for k in range(2) for l in range(2)}
            MV = [v_sum([v_mul(M[a, k, b, l], V[b, l]) for b in range(n) for l in range(2)]) for a in range(n) for k in range(2)]
            idx = [(a, k, b, l) for a in range(n) for k in range(2) for b in range(n) for l in range(2)]
            return _box(i, S), [
                Le([v_abs(v_sub(blocks[0, 0], ra)), v_abs(v_sub(blocks[1, 1], ra))], v_mul(1e-12, v_abs(ra)), name='component_blocks_sum_to_rho_area', scale=ra),
                Eq([blocks[0, 1], blocks[1, 0]], 0.0, name='cross_component_blocks_vanish'),
                Eq([M[a, k, b, l] for a, k, b, l in idx], [M[b, l, a, k] for a, k, b, l in idx], name='symmetric'),
                Eq(gK, MV, name='gradKE_is_M_V'),
                Eq(v_mul(2.0, s0(KE)), v_sum([v_mul(x, y) for x, y in zip(flat(V), MV)]), name='KE_is_half_V_M_V'),
            ]
        c.prove('mass' + tag, spec, cap=60, order=('nlsat', 'core'))
        if definite:
            def spec_pd(i, o):
                nz = v_not(v_and(*[v_eq(x, 0.0) for x in flat(i['V'])]))
                return _box(i, S) + [nz], [Holds(v_lt(0.0, s0(o[2])), name='kinetic_energy_positive_definite')]
            c.prove('mass' + tag, spec_pd, cap=60, order=('nlsat', 'core'))
    run(Setup(), '', True)
    # rules of degree < 2p (the repository's own choice is degree 2(p-1)): reported KE must still be the form of the SAME mass
    run(Setup(qdeg=1), '_1pt', False)
    run(Setup(degree=2), '_P2_3pt', False)
    run(Setup(mode='axisymmetric'), '_axi', False)   # positive definiteness with the symbolic 2*pi*r weights: unknown at 60 s, not claimed
    run(Setup(qdeg=1, mode='axisymmetric'), '_axi_1pt', False)
    if h.thorough():
        run(Setup(degree=2, qdeg=4), '_P2_6pt', True)

    # two P1 elements of DIFFERENT (symbolic) areas sharing an edge: each element's mass uses ITS OWN quadrature weights
    # (element 0's data must not be reused for element 1), and the element masses add up to the mass of the kinetic energy
    S2 = Setup(nel=2, blocks=TWO_BLOCKS())
    conns2 = [[0, 1, 2], [1, 3, 2]]

    def f2(X, rho, V):
        d = S2.dyn(X, 1.0, 0.25, rho, 0.25, 0.5)
        M = d.compute_element_masses()
        return M[0], M[1], d.compute_output_kinetic_energy(V)
    ex2 = dict(X=S2.Xex, rho=1.5, V=S2.Z + 0.3)
    smp2 = lambda rng: [S2.rand_tri(rng), rng.uniform(0.5, 2.0), rng.normal(size=(4, 2))]
    c2 = Case(h, f2, ex2, sampler=smp2, label='masses_2el', validate=1)

    def spec2(i, o):
        X, rho, V = i['X'], s0(i['rho']), i['V']
        goals, quad = [], []
        for e in range(2):
            M = o[e]
            ra = v_mul(rho, v_mul(0.5, area2(X[conns2[e]])))
            for k in range(2):
                blk = v_sum([M[a, k, b, k] for a in range(3) for b in range(3)])
                goals.append(Le([v_abs(v_sub(blk, ra))], v_mul(1e-12, v_abs(ra)), name='element%d_component%d_block_sums_to_rho_times_its_own_area' % (e, k), scale=ra))
            quad += [v_mul(V[conns2[e][a], k], v_mul(M[a, k, b, l], V[conns2[e][b], l])) for a in range(3) for k in range(2) for b in range(3) for l in range(2)]
        goals.append(Eq(v_mul(2.0, s0(o[2])), v_sum(quad), name='KE_is_half_sum_of_element_quadratic_forms'))
        return _box(i, S2), goals
    c2.prove('mass_2el', spec2, cap=60, order=('nlsat', 'core'))


# =========================================================================================== O5
# essential-bc sets (node, component) on the single triangle; 'free' = no constrained dof (6 free dofs)
BCSETS = {
    'pin0_roller1y': [(0, 0), (0, 1), (1, 1)],
    'free': [],
    'all_y_fixed': [(0, 1), (1, 1), (2, 1)],
    'pin0_roller2x': [(0, 0), (0, 1), (2, 0)],
    'pin0_pin1': [(0, 0), (0, 1), (1, 0), (1, 1)],
    'roller1x_pin2': [(1, 0), (2, 0), (2, 1)],
}
# P2 only (6 nodes): 3 free dofs (two mid-side nodes and one vertex component), used for the reachability witness
P2_THREE_FREE = [(n, k) for n in range(6) for k in range(2) if (n, k) not in ((1, 0), (3, 1), (5, 0))]
NODESETS = {'n%d' % n: onp.array([n]) for n in range(6)}


def _dofs(S, bcs):
    _, FunctionSpace, _, _, _, _ = _mods()
    fs0 = S.fs(jnp.asarray(S.Xex), nodeSets=NODESETS)
    bc = P2_THREE_FREE if bcs == 'p2_three_free' else BCSETS[bcs]
    return FunctionSpace.DofManager(fs0, 2, [FunctionSpace.EssentialBC(nodeSet='n%d' % n, component=k) for n, k in bc])


def _step_fn(S, dm, fixed=None):
    """one trapezoidal step written on the free dofs exactly as the repository's time stepper does (test_Newmark.time_step /
    objective_function): returns start residual, gradient of the stepper's objective at the new displacement, the balance
    residual at the new time, total energies before/after, new velocity. fixed=(X, E, nu, rho) closes over concrete values."""
    def f(X, E, nu, rho, Uu, Vu, Au, Un, Ub, dt):
        if fixed is not None:
            X, E, nu, rho = fixed
        fs = S.fs(X, nodeSets=NODESETS)
        d = S.dyn(X, E, nu, rho, 0.25, 0.5, fs=fs)
        field = lambda w: dm.create_field(w, Ub)      # displacement: time-independent essential values Ub
        rate = lambda w: dm.create_field(w, 0.0)      # velocity / acceleration vanish on constrained dofs
        SE = lambda w: d.compute_output_strain_energy(field(w), S.state, dt)
        KE = lambda w: d.compute_output_kinetic_energy(rate(w))
        Up, Vp = d.predict(Uu, Vu, Au, dt)
        obj = lambda w: d.compute_algorithmic_energy(field(w), field(Up), S.state, dt)
        r1 = jax.grad(obj)(Un)
        Vn, An = d.correct(Un - Up, Vp, Au, dt)
        r0 = jax.grad(SE)(Uu) + jax.grad(KE)(Au)
        r1b = jax.grad(SE)(Un) + jax.grad(KE)(An)
        return r0, r1, r1b, KE(Vu) + SE(Uu), KE(Vn) + SE(Un), Vn
    return f


def _step_args(dm, rng=None, S=None):
    nu_, nb = dm.get_unknown_size(), dm.get_bc_size()
    if rng is None:
        return dict(X=onp.asarray(REF) if S is None else S.Xex, E=1.0, nu=0.3, rho=1.5, Uu=onp.full(nu_, 0.1), Vu=onp.full(nu_, -0.2), Au=onp.full(nu_, 0.3),
                    Un=onp.full(nu_, 0.05), Ub=onp.full(nb, 0.2), dt=0.1)
    return [_rand_tri(rng) if S is None else S.rand_tri(rng)] + _params(rng)[:3] + [rng.normal(size=nu_) for _ in range(4)] + [rng.normal(size=nb), rng.uniform(0.05, 1.0)]


def _inv_div_hook(ctx, eqn, iv):
    """x / d with a symbolic denominator d  ->  x * inv_d, inv_d a fresh real per distinct denominator term with the side condition
    inv_d * d = 1 (d is recorded as a denominator, i.e. assumed nonzero as for the built-in division). Equivalent to the built-in
    encoding under d != 0; it keeps the hoop strain u_r/r polynomial, so that energy identities quadratic in u_r/r normalise
    (built-in division: unknown at 90 s for the axisymmetric energy identity)."""
    import z3
    from .. import jx

    def d(a, b):
        if not sym.isz(b):
            return jx._div(ctx, eqn.params, [jx.lift(a), jx.lift(b)])[()]
        key = ('inv', b.get_id())
        if key not in ctx.cache:
            v = ctx.fresh('inv')
            ctx.cache[key] = v
            ctx.add_side(v * b == 1)
        ctx.denoms.append((ctx.guard(), b))
        return jx.s_mul(a, ctx.cache[key])
    return jx.ew(d, *iv)


def _ctx_for(S):
    from .. import jx
    ctx = jx.Ctx()
    if S.axi:
        ctx.hooks['div'] = _inv_div_hook
    return ctx


def _work(i, o):
    """dt/4 * (V + V') . (r0 + r1): the work of the two free-dof residuals over the step"""
    r0, r1, r1b, E0, E1, Vn = o
    return v_mul(v_mul(0.25, s0(i['dt'])), v_sum([v_mul(v_add(a, b), v_add(x, y)) for a, b, x, y in zip(flat(i['Vu']), flat(Vn), flat(r0), flat(r1))]))


def _o5_identity(h, S, bcs, cap=90, tag=''):
    dm = _dofs(S, bcs)
    c = Case(h, _step_fn(S, dm), _step_args(dm, S=S), sampler=lambda rng: _step_args(dm, rng, S=S), ctx=_ctx_for(S), label='step%s[%s]' % (tag, bcs), validate=2 if not tag else 1)

    def spec(i, o):
        r0, r1, r1b, E0, E1, Vn = o
        # constant scale: a symbolic scale makes the margin search for a robust counter-model much harder
        return _box(i, S), [Eq(v_sub(s0(E1), s0(E0)), _work(i, o), name='energy_change_is_work_of_free_dof_residuals')]
    c.prove('identity%s[%s]' % (tag, bcs), spec, cap=cap, order=('core', 'nlsat'))
    if BCSETS[bcs] and not tag:
        # with no constrained dof this is O2 itself (re-parametrised through the predictor: 17 s instead of 0.5 s), not repeated here
        c.prove('balance[%s]' % bcs, lambda i, o: (_box(i), [Eq(o[1], o[2], name='objective_gradient_is_free_dof_balance_at_new_time')]),
                cap=cap, order=('nlsat', 'core'))
    return dm


def _o5_identity_axi(h, S, tri, bcs, cap=60):
    """axisymmetric mode: concrete triangle SHAPE at a SYMBOLIC radial position R > 0 (vertex radii = R + offsets >= R), moduli,
    density, dt and state symbolic (fully symbolic vertices: unknown at 90 s, see DESIGNED_NOT_REGISTERED)"""
    dm = _dofs(S, bcs)
    f0 = _step_fn(S, dm)
    Xc = onp.asarray(TRIANGLES[tri])
    Xc = Xc - onp.array([Xc[:, 0].min(), 0.0])

    def f(R, E, nu, rho, Uu, Vu, Au, Un, Ub, dt):
        return f0(jnp.asarray(Xc) + R * jnp.array([1.0, 0.0]), E, nu, rho, Uu, Vu, Au, Un, Ub, dt)

    def args(rng=None):
        a = _step_args(dm, rng, S=S)
        if rng is None:
            a.pop('X')
            return dict(R=1.0, **a)
        return [rng.uniform(0.2, 3.0)] + a[1:]
    label = '%s/%s' % (tri, bcs)
    c = Case(h, f, args(), sampler=args, ctx=_ctx_for(S), label='step_axi[%s]' % label, validate=2)

    def spec(i, o):
        r0, r1, r1b, E0, E1, Vn = o
        # constant scale: a symbolic scale makes the margin search for a robust counter-model much harder (the replay tolerance is
        # relative to the two sides anyway)
        return _box(i, S) + [v_lt(0.0, s0(i['R']))], [
            Eq(v_sub(s0(E1), s0(E0)), _work(i, o), name='energy_change_is_work_of_free_dof_residuals'),
            Eq(r1, r1b, name='objective_gradient_is_free_dof_balance_at_new_time')]
    c.prove('identity_axi[%s]' % label, spec, cap=cap, order=('core', 'nlsat'))
    return dm


def _o5_corollary(h, bcs, n):
    """definition-dropped last link of the chain: from the identity (as proved on the real code's terms) and zero free-dof
    residuals at both ends, the energies are equal. Pure scalar logic over fresh reals standing for the code's terms."""
    import z3
    e0, e1, dt = z3.Real('E_old'), z3.Real('E_new'), z3.Real('dt')
    s = [z3.Real('VplusVnew_%d' % k) for k in range(n)]
    a = [z3.Real('r_old_%d' % k) for k in range(n)]
    b = [z3.Real('r_new_%d' % k) for k in range(n)]
    lemma = (e1 - e0) == sym.rat(0.25) * dt * z3.Sum([s[k] * (a[k] + b[k]) for k in range(n)]) if n else (e1 - e0) == 0
    assumes = [lemma, dt > 0] + [x == 0 for x in a] + [x == 0 for x in b]
    h.prove('conservation_from_identity[%s]' % bcs, assumes, Eq(e1, e0, name='energy_conserved'), inputs=dict(E_old=e0, E_new=e1, dt=dt),
            concrete=None, cap=20, order=('core', 'nlsat'),
            note='cut-lemma chain: identity[%s] proved on the real terms; here the definitions are dropped' % bcs)


def _o5_witness(h, S, tri, mat, bcs, tag=''):
    """reachability of the hypotheses on the real code: a solver model of 'balance on the free dofs at both ends, dt > 0,
    non-trivial energy and motion' for a concrete triangle/material, replayed on the real jitted functions"""
    E, nu, rho = MATERIALS[mat]
    dm = _dofs(S, bcs)
    f = _step_fn(S, dm, fixed=(jnp.asarray(TRIANGLES[tri]), E, nu, rho))
    ex = _step_args(dm)
    ex['Ub'] = onp.zeros(dm.get_bc_size())
    c = Case(h, f, ex, validate=0, label='witness')
    i, (r0, r1, r1b, E0, E1, Vn) = c.inp, c.out
    hyp = [sym.toz(x) == 0 for x in flat(r0)] + [sym.toz(x) == 0 for x in flat(r1)] + [sym.toz(x) == 0 for x in flat(i['Ub'])]
    hyp += [s0(i['dt']) > 0, sym.toz(s0(E0)) >= 1, sym.toz(i['Un'][0]) - sym.toz(i['Uu'][0]) >= sym.rat(0.125), sym.toz(i['Vu'][0]) >= sym.rat(0.5)]
    hyp += [sym.toz(x) == sym.toz(y) for x, y in zip(flat(i['X']), flat(onp.asarray(REF)))]
    hyp += [s0(i['E']) == 1, s0(i['nu']) == 0, s0(i['rho']) == 1]      # unused inputs (closed over): pinned to keep the model small
    name = 'hypotheses_reachable%s[%s/%s/%s]' % (tag, tri, mat, bcs)

    def on_real(vals):
        R0, R1, R1b, e0, e1, _ = c.real(vals)
        res = float(max(onp.abs(R0).max(), onp.abs(R1).max()))
        hyp_ok = res <= 1e-9 * (1.0 + abs(float(e0))) and float(e0) >= 1 - 1e-9 and vals['dt'][0] > 0
        conserved = abs(float(e1) - float(e0)) <= 1e-9 * abs(float(e0))
        return hyp_ok, conserved, 'solver model (dt=%.4g, E_old=%.6g) on the real code: max free-dof residual %.2e, E_new-E_old=%.2e' % (
            vals['dt'][0], float(e0), res, float(e1) - float(e0))

    if h.replay is not None:
        if h.replay.get('query') == '%s/%s' % (h.ob, name):
            hyp_ok, conserved, detail = on_real(h.replay['inputs'])
            h.replay_result = dict(status='violated' if (hyp_ok and not conserved) else 'unreproduced', detail=detail)
        return
    st, m, sv, dt_, att = sym.solve(hyp + c.side(True), 30, order=('nlsat', 'core'))
    if st != 'sat':
        h.fact(name, False, 'solver returned %s for the hypotheses of the conservation claim' % st)
        return
    vals = {k: [float(sym.model_value(m, x)) for x in v.reshape(-1)] for k, v in i.items()}
    hyp_ok, conserved, detail = on_real(vals)
    if hyp_ok and not conserved:
        # the real code satisfies the hypotheses at this state and does not conserve energy: the property itself is violated
        h.violation(name, vals, 'balance holds on the free dofs at both ends but energy is not conserved: ' + detail)
    else:
        h.fact(name, hyp_ok and conserved, detail)


@obligation(P, 'O5.trapezoidal_energy_conservation', cap=900)
def o5(h):
    """beta=1/4, gamma=1/2, linear elastic, no loads. Chain: (identity, on the real code, everything symbolic)
    [KE(V')+SE(U')] - [KE(V)+SE(U)] = dt/4 (V+V').(r_old + r_new) with r_old = [grad SE(U) + M A] and r_new = gradient of the
    stepper's objective at U', both ON THE FREE DOFS ONLY; (corollary) both residuals zero => energy conserved, for every dt>0.
    Constrained dofs carry time-independent displacement and zero velocity/acceleration."""
    _blocks_or_report(h)
    S = Setup()
    _encoded(h)
    _, FunctionSpace, _, _, _, _ = _mods()
    h.encoded(FunctionSpace.DofManager.create_field)
    sets = ['pin0_roller1y', 'free', 'all_y_fixed'] if not h.thorough() else list(BCSETS)
    h.bounds('one P1 triangle with SYMBOLIC vertices, symbolic E, nu, rho, dt (box: ' + BOX + '), free-dof state '
             'Uu, Vu, Au, new displacement Un, time-independent essential values Ub: all reals; essential-bc sets: %s (0 to 6 free dofs), 3-point rule; also a two-element P1 mesh in two element blocks (5 free dofs; thorough: 8), P1 in AXISYMMETRIC mode (3-point rule; concrete triangle shapes at a symbolic radial position R > 0, moduli/density/dt/state symbolic), P1 with the 1-point rule and one straight-sided P2 triangle with the 3-point rule (9 free dofs; thorough: 12); '
             'reachability witnesses of the hypotheses on concrete triangles %s x materials (E,nu,rho) %s'
             % (sets, sorted(TRIANGLES), sorted(MATERIALS.values())))
    h.outside('conservation over long histories follows by induction over this one-step identity (variable dt covered: dt is a free '
              'variable); external loads; time-dependent essential boundary values; more than one element; nonlinear materials; pressure projection; '
              'beta, gamma other than 1/4, 1/2')
    h.assume_note('O5: stationarity / balance imposed on the free dofs only',
                  'O5: the corollary query reasons over fresh scalars standing for the code terms of the identity (definitions dropped: sound, '
                  'DESIGN section 4 cut-lemma chain)')
    for b in sets:
        dm = _o5_identity(h, S, b)
        _o5_corollary(h, b, dm.get_unknown_size())
    # rules of degree < 2p (P1 / 1 point, P2 / 3 points = the repository's 2(p-1) choice): every energy must use the caller's rule
    S1, S2 = Setup(qdeg=1), Setup(degree=2)
    for St, tag, bs in ((S1, '_1pt', ['pin0_roller1y'] + (['free'] if h.thorough() else [])),
                        (S2, '_P2', ['pin0_roller1y'] + (['free'] if h.thorough() else []))):
        for b in bs:
            dm = _o5_identity(h, St, b, tag=tag)
            _o5_corollary(h, tag[1:] + '/' + b, dm.get_unknown_size())
    # two elements in two element blocks
    SB = Setup(nel=2, blocks=TWO_BLOCKS())
    for b in ['pin0_roller1y'] + (['free'] if h.thorough() else []):
        dm = _o5_identity(h, SB, b, tag='_2blocks')
        _o5_corollary(h, '2blocks/' + b, dm.get_unknown_size())
    # axisymmetric mode (axisymmetric function space and kinematics): the same identity
    SA = Setup(mode='axisymmetric')
    axi = [('skew', 'pin0_roller1y')] if not h.thorough() else [(t, b) for t in TRIANGLES for b in ('pin0_roller1y', 'free', 'all_y_fixed')]
    for t, b in axi:
        dm = _o5_identity_axi(h, SA, t, b)
        _o5_corollary(h, 'axi/%s/%s' % (t, b), dm.get_unknown_size())
    wit = [('ref', 'E10_nu0_rho1', 'pin0_roller1y'), ('skew', 'E1_nu0.25_rho2', 'pin0_roller1y'), ('obtuse', 'E3.5_nu0.375_rho0.5', 'all_y_fixed')]
    if h.thorough():
        wit = [(t, m, 'pin0_roller1y') for t in TRIANGLES for m in MATERIALS] + [('obtuse', 'E3.5_nu0.375_rho0.5', 'all_y_fixed'), ('skew', 'E1_nu0.25_rho2', 'pin0_pin1')]
    for t, m, b in wit:
        _o5_witness(h, S, t, m, b)
    _o5_witness(h, S1, 'skew', 'E1_nu0.25_rho2', 'all_y_fixed', tag='_1pt')
    _o5_witness(h, S2, 'skew', 'E1_nu0.25_rho2', 'p2_three_free', tag='_P2')


# =========================================================================================== O6
@obligation(P, 'O6.predict_correct_on_numpy_state_functional', cap=300)
def o6(h):
    """predict and correct EXACTLY AS RETURNED by the real create_dynamics_functions, called on NumPy-typed state arrays (the
    caller's stored U_n, V_n, A_n): (a) the caller's arrays are unchanged afterwards, (b) the Newmark formulas hold against
    those original arrays, (c) a step re-taken from the same stored state gives the same predictor (step rejection /
    variable dt). PX: the real Mechanics.py source runs on numpy object arrays of z3 proxies; `jit` is modelled as JAX
    defines it: jit(f)(*args) converts array arguments to fresh immutable arrays before running f (the shim COPIES ndarray
    arguments), a bare closure receives the caller's array itself. The JAX path of O1 cannot see in-place updates (`+=`
    rebinds on traced values)."""
    import types
    from .. import px
    h.encoded('optimism.Mechanics:create_dynamics_functions (real source on proxies; the returned DynamicsFunctions.predict / .correct are '
              'called, the closures are not reached into)')
    h.bounds('U, V, A, Unew: all real (2,2) NumPy arrays (the code is elementwise in the field); beta > 0, gamma > 0, dt > 0: all reals; '
             'two successive predict calls and one correct call on the same stored arrays')
    h.assume_note('O6: model of jax.jit in the shim: ndarray arguments are copied before the body runs (functional semantics of jit: '
                  'arguments become immutable device arrays), everything else passes through; validated per run on the real jitted '
                  'functions with concrete NumPy arrays (ground fact) and by the concrete replay, which runs the REAL module under real JAX')
    h.outside('callers that pass jax arrays (immutable: `+=` rebinds, covered by O1)')
    N = (2, 2)

    def jit_model(f=None, *a, **k):
        if not callable(f):
            return lambda g: jit_model(g)

        def wrapped(*args, **kw):
            args = [x.copy() if isinstance(x, onp.ndarray) else x for x in args]
            kw = {n: (x.copy() if isinstance(x, onp.ndarray) else x) for n, x in kw.items()}
            return f(*args, **kw)
        wrapped.__wrapped__ = f
        return wrapped

    def make(symbolic, beta, gamma):
        """the dynamics functions as returned by the real factory (symbolic: real source on proxies; concrete: the real module under JAX)"""
        Mechanics, FunctionSpace, _, _, _, LinearElastic = _mods()
        S = Setup()
        fs = S.fs(jnp.asarray(REF))
        mat = LinearElastic.create_material_model_functions({'elastic modulus': 1.0, 'poisson ratio': 0.25, 'density': 1.0})
        if not symbolic:
            return Mechanics.create_dynamics_functions(fs, 'plane strain', mat, Mechanics.NewmarkParameters(gamma=gamma, beta=beta))
        import jax as _jax
        extra = {n: getattr(_jax, n) for n in ('grad', 'jacrev', 'jacfwd', 'jvp', 'vjp', 'vmap', 'value_and_grad', 'hessian', 'lax',
                                               'make_jaxpr', 'linearize', 'custom_jvp', 'custom_vjp')}
        extra['jit'] = jit_model
        mod = px.load_module('optimism/Mechanics.py', shims={'optimism.JaxConfig': px.jaxconfig_shim(extra)})
        try:
            par = mod.NewmarkParameters(gamma=gamma, beta=beta)      # the module's own parameter class holding the proxies
        except Exception:
            par = types.SimpleNamespace(gamma=gamma, beta=beta)
        return mod.create_dynamics_functions(fs, 'plane strain', mat, par)

    def fn(ex):
        beta, gamma, dt = ex.real('beta'), ex.real('gamma'), ex.real('dt')
        ex.assume(beta > 0)
        ex.assume(gamma > 0)
        ex.assume(dt > 0)
        U, V, A, Un = ex.mat('U', *N), ex.mat('V', *N), ex.mat('A', *N), ex.mat('Un', *N)
        U0, V0, A0 = U.copy(), V.copy(), A.copy()
        d = make(ex.symbolic, beta, gamma)
        W = px.unwrap
        L = lambda *xs: [t for x in xs for t in flat(W(x))]      # element lists (concatenated), never element-wise sums
        # snapshot of a returned array (a bare closure may return the caller's own array object)
        arr = (lambda x: onp.array(x, dtype=object)) if ex.symbolic else (lambda x: onp.array(x, dtype=float))
        Up, Vp = d.predict(U, V, A, dt)
        Up, Vp = arr(Up), arr(Vp)
        # the formulas below are evaluated with the arrays the CALLER holds (its stored U_n, V_n, A_n) as they are after the calls
        ex.goal('predict_leaves_callers_U_unchanged', Eq(W(U), W(U0)))
        ex.goal('predict_leaves_callers_V_unchanged', Eq(W(V), W(V0)))
        ex.goal('predict_leaves_callers_A_unchanged', Eq(W(A), W(A0)))
        ex.goal('predictor_displacement_vs_stored_state', Eq(W(Up), W(U + dt * V + (0.5 * dt * dt * (1.0 - 2.0 * beta)) * A)))
        ex.goal('predictor_velocity_vs_stored_state', Eq(W(Vp), W(V + (dt * (1.0 - gamma)) * A)))
        # a step re-taken from the same stored state (step rejection / variable dt)
        Up2, Vp2 = d.predict(U, V, A, dt)
        ex.goal('retaken_step_same_predictor', Eq(L(arr(Up2), arr(Vp2)), L(Up, Vp)))
        # corrector on caller-held NumPy arrays
        Upn, Vpn = onp.array(Up), onp.array(Vp)
        dU = Un - Upn
        dU0, Vp0 = dU.copy(), Vpn.copy()
        Vn, An = d.correct(dU, Vpn, A, dt)
        Vn, An = arr(Vn), arr(An)
        ex.goal('correct_leaves_callers_arrays_unchanged', Eq(L(dU, Vpn, A), L(dU0, Vp0, A0)))
        ex.goal('corrector_acceleration_times_beta_dt2', Eq(W((beta * dt * dt) * An), W(dU0)))
        ex.goal('corrector_velocity', Eq(W(Vn), W(Vp0 + (gamma * dt) * An)))
        ex.goal('newmark_displacement_update_vs_stored_state',
                Eq(W(Un), W(U + dt * V + (0.5 * dt * dt * (1.0 - 2.0 * beta)) * A + (dt * dt * beta) * An)))
        ex.goal('newmark_velocity_update_vs_stored_state', Eq(W(Vn), W(V + (dt * (1.0 - gamma)) * A + (dt * gamma) * An)))
    px.run_px(h, 'numpy_state', fn, cap=30, div_mode='goal', sqrt_mode='goal')

    # ground validation of the jit MODEL: the real source under the shim and the REAL returned functions under real JAX, both on the
    # same concrete NumPy arrays, agree on the outputs and on what happens to the caller's arrays
    if h.replay is None:
        rng = onp.random.default_rng(h.seed)
        U0, V0, A0 = rng.normal(size=N), rng.normal(size=N), rng.normal(size=N)
        res = []
        for symbolic in (False, True):
            d = make(symbolic, 0.3, 0.6)
            U, V, A = U0.copy(), V0.copy(), A0.copy()
            Up, Vp = d.predict(U, V, A, 0.37)
            Up, Vp = onp.array(Up, dtype=float), onp.array(Vp, dtype=float)
            dU = U0 - Up
            Vc = Vp.copy()
            Vn, An = d.correct(dU, Vc, A, 0.37)
            res.append([onp.array(x, dtype=float) for x in (Up, Vp, Vn, An, U, V, A, Vc)])
        agree = all(onp.allclose(a, b, rtol=1e-12, atol=1e-14) for a, b in zip(*res))
        h.fact('jit_model_agrees_with_real_jax_on_numpy_arrays', agree,
               'outputs and post-call caller arrays of predict/correct: real module under JAX vs real source under the jit shim (max diff %.2e)'
               % max(float(onp.abs(a - b).max()) for a, b in zip(*res)), nontrivial=False)
