"""C15 — Newmark stepping: predictor/corrector formulas, stationarity of the algorithmic energy <=> discrete balance
of momentum, rigid translation exact, consistent mass, trapezoidal energy conservation (JX, all reals).

Everything is traced from `Mechanics.create_dynamics_functions` on a one-triangle mesh built inside the traced
function (so coordinates, moduli, density, beta, gamma, dt are traced arguments, not closed-over floats)."""
import numpy as onp
import jax
import jax.numpy as jnp

from ..core import obligation
from ..jxh import Case
from .. import sym
from ..sym import Le, Eq, Holds, flat, v_abs, v_lt, v_le, v_and, v_not, v_sub, v_add, v_mul, v_sum, v_eq

P = 'C15'

REF = [[0.0, 0.0], [1.0, 0.0], [0.0, 1.0]]
# concrete triangles for O5 (dyadic coordinates keep the rationals short): reference + two distorted
TRIANGLES = {
    'ref': REF,
    'skew': [[0.0, 0.0], [1.5, 0.25], [0.5, 1.25]],
    'obtuse': [[-0.25, 0.5], [2.0, -0.5], [0.75, 1.0]],
}
# (E, nu, rho)
MATERIALS = {
    'E10_nu0_rho1': (10.0, 0.0, 1.0),            # the repository's dynamics test
    'E1_nu0.25_rho2': (1.0, 0.25, 2.0),
    'E3.5_nu0.375_rho0.5': (3.5, 0.375, 0.5),
}


def s0(a):
    return a[()] if hasattr(a, 'shape') and a.shape == () else a


def _mods():
    from optimism import Mechanics, FunctionSpace, Interpolants, QuadratureRule, Mesh
    from optimism.material import LinearElastic
    return Mechanics, FunctionSpace, Interpolants, QuadratureRule, Mesh, LinearElastic


class Setup:
    """parent element, quadrature rule and shape tables (ground data of the real code), one element"""

    def __init__(self, qdeg=2):
        Mechanics, FunctionSpace, Interpolants, QuadratureRule, Mesh, LinearElastic = _mods()
        self.pe, self.pe1 = Interpolants.make_parent_elements(1)
        self.qr = QuadratureRule.create_quadrature_rule_on_triangle(qdeg)
        self.shp = Interpolants.compute_shapes(self.pe, self.qr.xigauss)
        self.conns = jnp.array([[0, 1, 2]])
        self.state = jnp.zeros((1, len(self.qr), 0))

    def fs(self, coords, nodeSets=None):
        _, FunctionSpace, _, _, Mesh, _ = _mods()
        mesh = Mesh.Mesh(coords, self.conns, None, self.pe, self.pe1, None, nodeSets, None)
        return FunctionSpace.construct_function_space_from_parent_element(mesh, self.shp, self.qr)

    def dyn(self, coords, E, nu, rho, beta, gamma, nodeSets=None, fs=None):
        Mechanics, _, _, _, _, LinearElastic = _mods()
        fs = self.fs(coords, nodeSets) if fs is None else fs
        mat = LinearElastic.create_material_model_functions({'elastic modulus': E, 'poisson ratio': nu, 'density': rho})
        return Mechanics.create_dynamics_functions(fs, 'plane strain', mat, Mechanics.NewmarkParameters(gamma=gamma, beta=beta))


def _encoded(h):
    Mechanics, FunctionSpace, _, _, _, LinearElastic = _mods()
    h.encoded(Mechanics.create_dynamics_functions, Mechanics.compute_newmark_lagrangian, Mechanics.kinetic_energy_density,
              Mechanics._compute_kinetic_energy, Mechanics._compute_element_masses, Mechanics._compute_strain_energy,
              Mechanics.compute_element_stiffness_from_global_fields, Mechanics.plane_strain_gradient_transformation,
              Mechanics.strain_energy_density_to_lagrangian_density,
              FunctionSpace.construct_function_space_from_parent_element, FunctionSpace.map_element_shape_grads,
              FunctionSpace.compute_element_volumes, FunctionSpace.integrate_over_block, FunctionSpace.evaluate_on_element,
              FunctionSpace.integrate_element_from_local_field,
              LinearElastic.create_material_model_functions, LinearElastic._make_properties,
              LinearElastic._linear_elastic_energy_density, LinearElastic.linear_strain)


# ---- small list algebra over "numbers" (z3 terms or floats)
def ax(c, a):
    return [v_mul(c, x) for x in flat(a)]


def add(*ls):
    ls = [flat(l) for l in ls]
    return [v_sum([l[k] for l in ls]) for k in range(len(ls[0]))]


def sub(a, b):
    return [v_sub(x, y) for x, y in zip(flat(a), flat(b))]


def area2(X):
    """twice the signed area of the triangle with vertex array X (3,2)"""
    return v_sub(v_mul(v_sub(X[1, 0], X[0, 0]), v_sub(X[2, 1], X[0, 1])), v_mul(v_sub(X[1, 1], X[0, 1]), v_sub(X[2, 0], X[0, 0])))


def _ne0(x):
    return v_not(v_eq(x, 0.0))


def _rand_tri(rng):
    return onp.asarray(REF) + rng.uniform(-0.2, 0.2, size=(3, 2))


def _params(rng):
    # E, nu, rho, beta, gamma
    return [rng.uniform(0.5, 3.0), rng.uniform(-0.3, 0.45), rng.uniform(0.5, 2.0), rng.uniform(0.1, 0.5), rng.uniform(0.3, 0.9)]


EX_PAR = dict(E=1.0, nu=0.3, rho=1.5, beta=0.25, gamma=0.5)
Z32 = onp.zeros((3, 2))


# =========================================================================================== O1
@obligation(P, 'O1.predict_correct_are_newmark', cap=240)
def o1(h):
    """predict/correct closures of create_dynamics_functions equal the Newmark formulas; composed around ANY new
    displacement they give the Newmark displacement and velocity updates — all fields, beta, gamma, dt symbolic"""
    S = Setup()
    _encoded(h)
    h.bounds('U, V, A, Unew: all real (3,2) fields (the closures are elementwise in the field, so the shape is immaterial); '
             'beta, gamma, dt: all reals with beta*dt^2 != 0')
    h.assume_note('O1: beta*dt*dt != 0 (the only symbolic denominator, in correct)')
    h.outside('fields of other shapes (elementwise code, not proved separately)')

    def f(beta, gamma, U, V, A, Un, dt):
        d = S.dyn(jnp.asarray(REF), 1.0, 0.25, 1.0, beta, gamma)
        Up, Vp = d.predict(U, V, A, dt)
        Vn, An = d.correct(Un - Up, Vp, A, dt)
        return Up, Vp, Vn, An

    ex = dict(beta=0.25, gamma=0.5, U=Z32 + 0.1, V=Z32 - 0.2, A=Z32 + 0.3, Un=Z32 + 0.05, dt=0.1)
    smp = lambda rng: [rng.uniform(0.1, 0.5), rng.uniform(0.3, 0.9), rng.normal(size=(3, 2)), rng.normal(size=(3, 2)),
                       rng.normal(size=(3, 2)), rng.normal(size=(3, 2)), rng.uniform(0.05, 1.0)]
    c = Case(h, f, ex, sampler=smp, label='predict_correct')

    def spec(i, o):
        b, g, dt = s0(i['beta']), s0(i['gamma']), s0(i['dt'])
        U, V, A, Un = i['U'], i['V'], i['A'], i['Un']
        Up, Vp, Vn, An = o
        dt2 = v_mul(dt, dt)
        one_m2b = v_sub(1.0, v_mul(2.0, b))
        return [], [
            Eq(Up, add(U, ax(dt, V), ax(v_mul(v_mul(0.5, dt2), one_m2b), A)), name='predictor_displacement'),
            Eq(Vp, add(V, ax(v_mul(dt, v_sub(1.0, g)), A)), name='predictor_velocity'),
            Eq(ax(v_mul(b, dt2), An), sub(Un, Up), name='corrector_acceleration_times_beta_dt2'),
            Eq(Vn, add(Vp, ax(v_mul(g, dt), An)), name='corrector_velocity'),
            Eq(Un, add(U, ax(dt, V), ax(v_mul(v_mul(0.5, dt2), one_m2b), A), ax(v_mul(dt2, b), An)), name='newmark_displacement_update'),
            Eq(Vn, add(V, ax(v_mul(dt, v_sub(1.0, g)), A), ax(v_mul(dt, g), An)), name='newmark_velocity_update'),
        ]
    c.prove('newmark', spec, cap=40, order=('nlsat', 'core'))


# =========================================================================================== O2
@obligation(P, 'O2.stationarity_is_momentum_balance', cap=300)
def o2(h):
    """grad_U algorithmic_energy(U, Upred) = grad SE(U) + grad KE(A') with (V', A') = correct(U - Upred, ...) — the real
    closures on a triangle with SYMBOLIC vertices, moduli, density, beta, gamma, dt and fields"""
    S = Setup()
    _encoded(h)
    h.bounds('one P1 triangle with symbolic vertices (twice the signed area != 0, both orientations), 3-point rule; '
             'E, nu, rho, beta, gamma, dt, U, Upred, V, A: all reals subject to nonzero denominators')
    h.assume_note('O2: symbolic denominators nonzero: 1+nu, 1-2nu, beta*dt^2; Jacobian of the element map non-singular '
                  '(jnp solve encoded relationally, hash-consed)')
    h.outside('meshes of more than one element (energies are sums over elements; assembly is C14), element order > 1, '
              'non-linear-elastic materials, axisymmetric mode, pressure projection')

    def f(X, E, nu, rho, beta, gamma, U, Up, Vp, A, dt):
        d = S.dyn(X, E, nu, rho, beta, gamma)
        gL = jax.grad(d.compute_algorithmic_energy)(U, Up, S.state, dt)
        gS = jax.grad(lambda u: d.compute_output_strain_energy(u, S.state, dt))(U)
        Vn, An = d.correct(U - Up, Vp, A, dt)
        MA = jax.grad(d.compute_output_kinetic_energy)(An)
        return gL, gS, MA

    ex = dict(X=onp.asarray(REF), **EX_PAR, U=Z32 + 0.1, Up=Z32 - 0.2, Vp=Z32 + 0.3, A=Z32, dt=0.1)
    smp = lambda rng: [_rand_tri(rng)] + _params(rng) + [rng.normal(size=(3, 2)) for _ in range(4)] + [rng.uniform(0.05, 1.0)]
    c = Case(h, f, ex, sampler=smp, label='momentum_balance')

    def spec(i, o):
        gL, gS, MA = o
        return [_ne0(area2(i['X']))], Eq(gL, add(gS, MA), name='gradL_eq_gradSE_plus_M_Anew')
    c.prove('balance', spec, cap=60, order=('core', 'nlsat'))


# =========================================================================================== O3
def _trans(a):
    """nodal field (3,2) of the rigid translation a (2,)"""
    return jnp.ones((3, 1)) * a[None, :]


def _pou_lemma(G):
    """shape gradients of the function space sum to zero over the nodes at every quadrature point (z3 side only)"""
    G = G[0]
    return [sym.toz(v_sum([G[q, a, k] for a in range(G.shape[1])])) == 0 for q in range(G.shape[0]) for k in range(G.shape[2])]


@obligation(P, 'O3.rigid_translation_exact', cap=300)
def o3(h):
    """rigid translation at constant velocity is a fixed point of predict - minimise - correct: the predictor is a
    stationary point of the algorithmic energy, the corrector returns the same velocity and zero acceleration;
    grad SE and grad L are translation invariant and nodal internal forces sum to zero (linear momentum).
    Cut-lemma chain: (L) the real function space's shape gradients sum to zero over the nodes, proved from the
    relational encoding of the element-map solve on the same terms, then used as an assumption in the other goals."""
    S = Setup()
    _encoded(h)
    h.bounds('one P1 triangle with symbolic vertices (signed area != 0); E, nu, rho, beta, gamma, dt, translation a, velocity c, '
             'fields U, Upred: all reals subject to nonzero denominators')
    h.assume_note('O3: symbolic denominators nonzero (1+nu, 1-2nu, beta*dt^2), element Jacobian non-singular',
                  'O3: goals other than the lemma assume the lemma "sum_a shapeGrads[q,a,:] = 0", itself discharged in the same obligation '
                  'on the same solver terms (cut-lemma chain, DESIGN section 4)')
    h.outside('uniqueness of the minimiser (strict convexity of the algorithmic energy) for symbolic geometry; rigid rotation '
              '(the linear strain measure is not rotation invariant)')

    def f(X, E, nu, rho, beta, gamma, a, c, dt):
        fs = S.fs(X)
        d = S.dyn(X, E, nu, rho, beta, gamma, fs=fs)
        U, V, A = _trans(a), _trans(c), jnp.zeros((3, 2))
        Up, Vp = d.predict(U, V, A, dt)
        g = jax.grad(d.compute_algorithmic_energy)(Up, Up, S.state, dt)
        Vn, An = d.correct(Up - Up, Vp, A, dt)
        return Up, g, Vn, An, fs.shapeGrads

    ex = dict(X=onp.asarray(REF), **EX_PAR, a=onp.array([0.3, -0.1]), c=onp.array([1.0, 0.5]), dt=0.1)
    smp = lambda rng: [_rand_tri(rng)] + _params(rng) + [rng.normal(size=2), rng.normal(size=2), rng.uniform(0.05, 1.0)]
    c1 = Case(h, f, ex, sampler=smp, label='translation_step')

    def lemma_spec(i, o):
        G = o[-1][0]
        return [_ne0(area2(i['X']))], Eq([v_sum([G[q, a, k] for a in range(3)]) for q in range(G.shape[0]) for k in range(2)], 0.0,
                                         name='shape_gradients_sum_to_zero')
    c1.prove('lemma', lemma_spec, cap=40, order=('nlsat', 'core'))

    def spec(i, o):
        a, c, dt = i['a'], i['c'], s0(i['dt'])
        Up, g, Vn, An, _ = o
        exact = [v_add(a[k], v_mul(dt, c[k])) for _ in range(3) for k in range(2)]
        return [_ne0(area2(i['X']))], [
            Eq(Up, exact, name='predictor_is_exact_translation'),
            Eq(g, 0.0, name='predictor_is_stationary'),
            Eq(Vn, [c[k] for _ in range(3) for k in range(2)], name='velocity_unchanged'),
            Eq(An, 0.0, name='acceleration_zero'),
        ]
    c1.prove('fixed_point', spec, cap=60, extra_assumes=_pou_lemma(c1.out[-1]), order=('nlsat', 'core'))

    def f2(X, E, nu, rho, beta, gamma, U, Up, a, dt):
        fs = S.fs(X)
        d = S.dyn(X, E, nu, rho, beta, gamma, fs=fs)
        gse = jax.grad(lambda u: d.compute_output_strain_energy(u, S.state, dt))
        gl = jax.grad(d.compute_algorithmic_energy)
        T = _trans(a)
        return gse(U), gse(U + T), gl(U, Up, S.state, dt), gl(U + T, Up + T, S.state, dt), fs.shapeGrads

    ex2 = dict(X=onp.asarray(REF), **EX_PAR, U=Z32 + 0.1, Up=Z32 - 0.2, a=onp.array([0.3, -0.1]), dt=0.1)
    smp2 = lambda rng: [_rand_tri(rng)] + _params(rng) + [rng.normal(size=(3, 2)), rng.normal(size=(3, 2)), rng.normal(size=2), rng.uniform(0.05, 1.0)]
    c2 = Case(h, f2, ex2, sampler=smp2, label='translation_invariance')
    c2.prove('lemma2', lemma_spec, cap=40, order=('nlsat', 'core'))

    def spec2(i, o):
        g0, g1, l0, l1, _ = o
        return [_ne0(area2(i['X']))], [
            Eq(g1, g0, name='gradSE_translation_invariant'),
            Eq(l1, l0, name='gradL_translation_invariant'),
            Eq([v_sum([g0[n, k] for n in range(3)]) for k in range(2)], 0.0, name='internal_forces_sum_to_zero'),
        ]
    c2.prove('invariance', spec2, cap=60, extra_assumes=_pou_lemma(c2.out[-1]), order=('nlsat', 'core'))


# =========================================================================================== O4
@obligation(P, 'O4.consistent_mass', cap=300)
def o4(h):
    """compute_element_masses(): every component block sums to rho*area (within the ground partition-of-unity defect of
    the shape table, rel 1e-12), cross-component blocks vanish, M is symmetric, and it IS the mass implied by the kinetic
    energy: grad KE(V) = M V and KE(V) = V.M.V/2 for all V — symbolic vertices and density"""
    S = Setup()
    _encoded(h)
    h.bounds('one P1 triangle with symbolic vertices (any orientation, any area), rho, V: all reals; 3-point rule (quick) and 1-point rule (thorough)')
    h.outside('element order > 1; spatially varying density (the code assumes homogeneous density)')

    def run(S, tag):
        def f(X, rho, V):
            d = S.dyn(X, 1.0, 0.25, rho, 0.25, 0.5)
            M = d.compute_element_masses()[0]
            return M, jax.grad(d.compute_output_kinetic_energy)(V), d.compute_output_kinetic_energy(V)
        ex = dict(X=onp.asarray(REF), rho=1.5, V=Z32 + 0.3)
        smp = lambda rng: [_rand_tri(rng), rng.uniform(0.5, 2.0), rng.normal(size=(3, 2))]
        c = Case(h, f, ex, sampler=smp, label='masses' + tag)

        def spec(i, o):
            M, gK, KE = o
            X, rho, V = i['X'], s0(i['rho']), i['V']
            ra = v_mul(rho, v_mul(0.5, area2(X)))
            blocks = {(k, l): v_sum([M[a, k, b, l] for a in range(3) for b in range(3)]) for k in range(2) for l in range(2)}
            MV = [v_sum([v_mul(M[a, k, b, l], V[b, l]) for b in range(3) for l in range(2)]) for a in range(3) for k in range(2)]
            return [], [
                Le([v_abs(v_sub(blocks[0, 0], ra)), v_abs(v_sub(blocks[1, 1], ra))], v_mul(1e-12, v_abs(ra)), name='component_blocks_sum_to_rho_area', scale=ra),
                Eq([blocks[0, 1], blocks[1, 0]], 0.0, name='cross_component_blocks_vanish'),
                Eq([M[a, k, b, l] for a in range(3) for k in range(2) for b in range(3) for l in range(2)],
                   [M[b, l, a, k] for a in range(3) for k in range(2) for b in range(3) for l in range(2)], name='symmetric'),
                Eq(gK, MV, name='gradKE_is_M_V'),
                Eq(v_mul(2.0, s0(KE)), v_sum([v_mul(x, y) for x, y in zip(flat(V), MV)]), name='KE_is_half_V_M_V'),
            ]
        c.prove('mass' + tag, spec, cap=60, order=('nlsat', 'core'))
    run(S, '')
    if h.thorough():
        run(Setup(qdeg=1), '_1pt')


# =========================================================================================== O5
# essential-bc sets (node, component) leaving <= 3 free dofs on the single triangle
BCSETS = {
    'pin0_roller1y': [(0, 0), (0, 1), (1, 1)],
    'pin0_roller2x': [(0, 0), (0, 1), (2, 0)],
    'pin0_pin1': [(0, 0), (0, 1), (1, 0), (1, 1)],
    'all_y_fixed': [(0, 1), (1, 1), (2, 1)],
    'roller1x_pin2': [(1, 0), (2, 0), (2, 1)],
}


def _o5_case(h, S, tri, mat, bcs, label, sym_bc=False):
    _, FunctionSpace, _, _, _, _ = _mods()
    E, nu, rho = MATERIALS[mat]
    X = jnp.asarray(TRIANGLES[tri])
    fs = S.fs(X, nodeSets={'n0': onp.array([0]), 'n1': onp.array([1]), 'n2': onp.array([2])})
    d = S.dyn(X, E, nu, rho, 0.25, 0.5, fs=fs)
    dm = FunctionSpace.DofManager(fs, 2, [FunctionSpace.EssentialBC(nodeSet='n%d' % n, component=k) for n, k in BCSETS[bcs]])
    nu_, nb = dm.get_unknown_size(), dm.get_bc_size()

    def f(Uu, Vu, Au, Un, Ub, dt):
        field = lambda w: dm.create_field(w, Ub)      # displacement: time-independent essential values Ub
        rate = lambda w: dm.create_field(w, 0.0)      # velocity / acceleration vanish on constrained dofs
        SE = lambda w: d.compute_output_strain_energy(field(w), S.state, dt)
        KE = lambda w: d.compute_output_kinetic_energy(rate(w))
        Up, Vp = d.predict(Uu, Vu, Au, dt)
        # the objective of the time stepper (test_Newmark.objective_function): algorithmic energy as a function of the free dofs
        obj = lambda w: d.compute_algorithmic_energy(field(w), field(Up), S.state, dt)
        r1 = jax.grad(obj)(Un)
        Vn, An = d.correct(Un - Up, Vp, Au, dt)
        r0 = jax.grad(SE)(Uu) + jax.grad(KE)(Au)
        r1b = jax.grad(SE)(Un) + jax.grad(KE)(An)
        return r0, r1, r1b, KE(Vu) + SE(Uu), KE(Vn) + SE(Un), KE(Vu), KE(Vn)

    ex = dict(Uu=onp.full(nu_, 0.1), Vu=onp.full(nu_, -0.2), Au=onp.full(nu_, 0.3), Un=onp.full(nu_, 0.05), Ub=onp.zeros(nb), dt=0.1)
    smp = lambda rng: [rng.normal(size=nu_), rng.normal(size=nu_), rng.normal(size=nu_), rng.normal(size=nu_),
                       rng.normal(size=nb) if sym_bc else onp.zeros(nb), rng.uniform(0.05, 1.0)]
    c = Case(h, f, ex, sampler=smp, label=label, validate=2)
    return c, nu_, nb


def _o5_spec(sym_bc):
    def spec(i, o):
        r0, r1, r1b, E0, E1, K0, K1 = o
        dt = s0(i['dt'])
        asm = [v_lt(0.0, dt)] + [v_eq(x, 0.0) for x in flat(r0)] + [v_eq(x, 0.0) for x in flat(r1)]
        if not sym_bc:
            asm += [v_eq(x, 0.0) for x in flat(i['Ub'])]
        return asm, [Eq(s0(E1), s0(E0), name='energy_conserved', scale=v_add(1.0, v_abs(s0(E0))))]
    return spec


def _o5_run(h, S, tri, mat, bcs, sym_bc=False, cap=60):
    label = '%s/%s/%s%s' % (tri, mat, bcs, '/symUbc' if sym_bc else '')
    c, nu_, nb = _o5_case(h, S, tri, mat, bcs, label, sym_bc)
    order = ('eqnlsat', 'nlsat', 'core')
    c.prove('conserve[%s]' % label, _o5_spec(sym_bc), cap=cap, order=order)
    return c


@obligation(P, 'O5.trapezoidal_energy_conservation', cap=300)
def o5(h):
    """beta=1/4, gamma=1/2, linear elastic, no loads: KE(V')+SE(U') = KE(V)+SE(U) for every dt>0 and every state, whenever the
    balance of momentum holds ON THE FREE DOFS at both ends (start: grad SE + M A = 0; end: stationarity of the stepper's
    objective); constrained dofs carry time-independent displacement and zero velocity/acceleration"""
    S = Setup()
    _encoded(h)
    _, FunctionSpace, _, _, _, _ = _mods()
    h.encoded(FunctionSpace.DofManager.create_field)
    h.bounds('one P1 triangle, concrete vertices: %s; concrete (E, nu, rho): %s; essential-bc sets leaving <= 3 free dofs: %s; '
             'free-dof state Uu, Vu, Au, new displacement Un: all reals; dt: all reals > 0'
             % (sorted(TRIANGLES), sorted(MATERIALS.values()), sorted(BCSETS)))
    h.outside('symbolic moduli or geometry and > 3 free dofs for the conservation identity (probe: unknown at 300 s); conservation over long '
              'histories follows by induction over this one-step identity (variable dt covered: dt is a free variable); external loads; '
              'time-dependent essential boundary values')
    h.assume_note('O5: stationarity / balance imposed on the free dofs only; essential values zero (quick) or arbitrary time-independent (thorough)')
    combos = [(t, m, 'pin0_roller1y') for t in TRIANGLES for m in MATERIALS]
    combos += [('skew', 'E1_nu0.25_rho2', 'pin0_pin1'), ('obtuse', 'E3.5_nu0.375_rho0.5', 'all_y_fixed')]
    if h.thorough():
        combos = [(t, m, b) for t in TRIANGLES for m in MATERIALS for b in BCSETS]
    for t, m, b in combos:
        _o5_run(h, S, t, m, b)
    if h.thorough():
        for t, m, b in [('skew', 'E1_nu0.25_rho2', 'pin0_roller1y'), ('obtuse', 'E3.5_nu0.375_rho0.5', 'roller1x_pin2'), ('ref', 'E10_nu0_rho1', 'pin0_pin1')]:
            _o5_run(h, S, t, m, b, sym_bc=True)
