"""C08 — elastic energies are objective, isotropic and stress-free at rest (JX).

Every obligation re-traces the energy closures returned by the material constructors of /repo with the *moduli as
traced arguments* and decides the claim with z3 over all real inputs in the stated box.

Abstractions (all recorded with h.assume_note in the obligations that use them)
* scalar log / log1p / pow are Ackermannised uninterpreted functions (vf.jx);
* TensorMath.log_symm / pow_symm / exp_symm / sqrt_symm and jax.scipy.linalg.expm are replaced *at trace time* (module
  attribute patched while the jaxpr is made, restored afterwards; replay and translator validation run the unpatched
  code) by the primitive `vf_tensor_uf`: an uninterpreted symmetric-tensor-valued function of all nine entries of its
  argument (congruence only).  O1 therefore decides "the energy depends on F only through F^T F, det F and the state";
* O2 for spectral models additionally assumes the equivariance instance f(Q A Q^T) = Q f(A) Q^T of those functions;
* the plastic update (the lax.cond branch that contains the root-finding loop) is, for O1 and O4, an uninterpreted
  function of its operands (so O1 covers the yielding regime as well); for O2 the elastic regime is assumed;
* O4 is evaluated on the unpatched code: all tensor functions see concrete arguments and are executed by the real
  primitives (constant folding), the result is affine in the moduli.
"""
import contextlib
import io
import math
import numpy as onp
import z3
import jax
import jax.numpy as jnp
from jax import core as jcore

from ..core import obligation
from ..jxh import Case
from .. import jx, sym
from ..sym import Le, Eq, v_abs, v_lt, v_le, v_sub, v_add, v_mul, v_sq, v_sum

P = 'C08'
I3 = onp.eye(3)
DESIGNED_NOT_REGISTERED = [
    ('O2.isotropy_inplane_rotated_state/hyperviscoelastic (and multibranch)',
     'isotropy with a non-virgin viscous distortion Fv -> Q Fv Q^T: the code inverts Fv with jnp.linalg.inv (relational encoding: fresh A with Fv A = I); '
     'the cut lemma Ce(Q Fv Q^T) = Q Ce(Fv) Q^T needs uniqueness of the solution of a symbolic 3x3 system and stays unknown (20 s lemma, 300 s monolithic); '
     'registered with the virgin state (quick) and, for J2Plastic whose inverse is the closed-form TensorMath.inv, with a rotated state (thorough)'),
    ('O5 for compute_material_qoi (J2Plastic plastic dissipation, Hyper/MultiBranchHyperViscoelastic viscous dissipation of the step)',
     'a dissipation qoi is not an energy density, so objectivity / rest-state obligations on it would demand more than C08 states; built and run once, then '
     'withdrawn.  Observation from that run (hand-checked on the real code, E=3, nu=0.3, Y0=9, H=0.5, dt=1 and dt=0.1): J2Plastic compute_material_qoi(H=0, virgin '
     'state) and its H-derivative are NaN for kinematics \'small deformations\' and \'seth hill\' (also at H = 0.01 e1 x e2), 0 for \'large deformations\': '
     '_compute_dissipation is hard-wired to compute_elastic_logarithmic_strain and inverts the (zero) plastic strain as if it were Fp.  With the '
     'kinematics-selected strain passed in, rest value/derivative are 0 for all three options; objectivity of the dissipation (large deformations, viscous models) '
     'and viscous rest state discharged'),
    ('O3 for the spectral models',
     'P F^T symmetric through the custom JVP of the eigen-decomposition: by design left to C10/C12 (DESIGN.md section 5, C08-O3 is for closed-form models)'),
    ('O1.objectivity_vmap2 for J2Plastic',
     'under vmap lax.cond becomes a select and the root-finding while loop of the plastic branch is executed unconditionally; not encoded'),
]


def s0(a):
    return a[()] if hasattr(a, 'shape') and a.shape == () else a


# =========================================================================================== tensor UF primitive
tuf_p = jcore.Primitive('vf_tensor_uf')
_ORIG = {}          # name -> the real function of /repo (filled by stubs())
_SYMMETRIC = {}     # name -> outputs symmetric
_JITTED = {}


def _tuf_impl(x, *, name, extra):
    return _ORIG[name](x, *extra)


tuf_p.def_impl(_tuf_impl)
tuf_p.def_abstract_eval(lambda x, name, extra: jcore.ShapedArray(x.shape, x.dtype))


def _tuf_batch(args, dims, name, extra):
    x = jnp.moveaxis(args[0], dims[0], 0)
    return jnp.stack([tuf_p.bind(x[k], name=name, extra=extra) for k in range(x.shape[0])]), 0


jax.interpreters.batching.primitive_batchers[tuf_p] = _tuf_batch


def _try_merge(ctx, name, new_args, candidates):
    """cut lemma on the fly.  candidates: [(args, payload)] of earlier applications of the same uninterpreted function.
    If the new arguments are *proved* equal to a candidate's (unsat of base assumptions + side conditions + 'some
    argument differs'), return its payload (sound by congruence), else None.  A numeric evaluation at one rational
    point of the input space is used only to skip hopeless candidates."""
    merge = getattr(ctx, 'c08_merge', None)
    if merge is None:
        return None
    import time as _t
    for args1, payload in candidates:
        pairs = [(sym.toz(p), sym.toz(q)) for p, q in zip(new_args, args1)]
        if all(p.get_id() == q.get_id() for p, q in pairs):
            return payload
        differs = False
        for p, q in pairs:
            d = z3.simplify(z3.substitute(p - q, *merge['point']))
            if z3.is_rational_value(d) and d.numerator_as_long() != 0:
                differs = True
                break
        if differs:
            continue
        neq = z3.Or(*[p != q for p, q in pairs])
        t0 = _t.time()
        st = sym.solve(list(merge['base']) + list(ctx.side) + ctx.nonzero_denoms() + [neq], merge.get('cap', 20), order=('core', 'nlsat'))
        merge['log'].append((name, st[0], round(_t.time() - t0, 3)))
        if st[0] == 'unsat':
            merge['lemmas'].append((name, [p for p, _ in pairs], [q for _, q in pairs]))
            return payload
    return None


def _tuf_eval(ctx, eqn, iv):
    name, extra = eqn.params['name'], eqn.params['extra']
    x = iv[0]
    if x.shape != (3, 3):
        raise jx.JXError('vf_tensor_uf expects a 3x3 argument')
    if ctx.ground:
        vals = [jx.ground_num(ctx, sym.toz(v)) for v in x.ravel()]
        if any(v is None for v in vals):
            raise jx.JXError('vf_tensor_uf: ground argument did not reduce')
        jk = (name, extra, _Switch.surrogate)
        if jk not in _JITTED:
            f0 = _surrogate(name) if _Switch.surrogate else _ORIG[name]
            _JITTED[jk] = jax.jit(lambda A, f0=f0: f0(A, *extra))
        r = onp.asarray(_JITTED[jk](jnp.asarray(onp.array([float(v) for v in vals]).reshape(3, 3))))
        return jx.ew(lambda v: sym.rat(v), r)
    keys = tuple(jx.term_key(v) for v in x.ravel())
    key = ('tuf', name, extra) + keys
    if key in ctx.cache:
        return ctx.cache[key]
    if not hasattr(ctx, 'c08_apps'):
        ctx.c08_apps = []
    hit = _try_merge(ctx, name, list(x.ravel()), [(list(x1.ravel()), o1) for (n1, e1, x1, o1) in ctx.c08_apps if n1 == name and e1 == extra])
    if hit is not None:
        ctx.cache[key] = hit
        return hit
    Q = (getattr(ctx, 'c08_merge', None) or {}).get('Q')
    if Q is not None and _SYMMETRIC.get(name, True):
        # isotropy: if the argument is *proved* equal to Q A Q^T for an earlier application f(A), the assumed
        # equivariance f(Q A Q^T) = Q f(A) Q^T defines the result
        cands = [(list(omatmul(omatmul(Q, x1), Q.T).ravel()), omatmul(omatmul(Q, o1), Q.T)) for (n1, e1, x1, o1) in ctx.c08_apps if n1 == name and e1 == extra]
        hit = _try_merge(ctx, name + ' (= Q A Q^T)', list(x.ravel()), cands)
        if hit is not None:
            ctx.cache[key] = hit
            return hit
    args = [sym.toz(v) for v in x.ravel()]
    out = onp.empty((3, 3), dtype=object)
    for i in range(3):
        for j in range(3):
            if _SYMMETRIC.get(name, True) and j < i:
                out[i, j] = out[j, i]
                continue
            v = ctx.fresh('%s_%d%d' % (name, i, j))
            # one scalar UF per output entry, keyed on ALL nine argument entries: jx.ackermann adds the congruence
            ctx.ufs[('tuf', name, extra, i, j) + keys] = (v, 'tuf:%s:%s:%d%d' % (name, extra, i, j), args)
            out[i, j] = v
    ctx.cache[key] = out
    ctx.c08_apps.append((name, extra, x, out))
    return out


def _scalar_uf_hook(name):
    """log / log1p / pow as in vf.jx (Ackermannised UFs), plus merging of applications with proved-equal arguments"""
    default = jx.ELEMENTWISE[name]

    def hook(ctx, eqn, iv):
        if getattr(ctx, 'c08_merge', None) is None or ctx.ground:
            return NotImplemented

        def f(*a):
            if all(sym.num(x) for x in a):
                return jx.sym_uf(ctx, name, list(a))
            if name == 'pow' and sym.num(a[1]) and ((float(a[1]).is_integer() and abs(a[1]) <= 8) or a[1] == 0.5):
                return default(ctx, eqn.params, [jx.lift(a[0]), jx.lift(a[1])])[()]
            k = (name,) + tuple(jx.term_key(x) for x in a)
            if k in ctx.ufs:
                return ctx.ufs[k][0]
            cands = [(a1, v1) for (v1, n1, a1) in ctx.ufs.values() if n1 == name and len(a1) == len(a)]
            hit = _try_merge(ctx, name, list(a), cands)
            if hit is not None:
                return hit
            return jx.sym_uf(ctx, name, list(a))
        return jx.ew(f, *iv)
    return hook


jx.OTHER['vf_tensor_uf'] = _tuf_eval


def _stub(name):
    def f(A, *extra):
        return tuf_p.bind(jnp.asarray(A), name=name, extra=tuple(float(e) for e in extra))
    f.__name__ = 'stub_' + name
    return f


@contextlib.contextmanager
def stubs():
    """patch the spectral tensor functions by uninterpreted tensor functions while a jaxpr is being made"""
    from optimism import TensorMath
    import jax.scipy.linalg as jsl
    targets = [(TensorMath, n, True) for n in ('log_symm', 'pow_symm', 'exp_symm', 'sqrt_symm')] + [(jsl, 'expm', False)]
    saved = []
    for mod, n, symm in targets:
        f = getattr(mod, n)
        saved.append((mod, n, f))
        _ORIG.setdefault(n, f)
        _SYMMETRIC[n] = symm
        setattr(mod, n, _stub(n))
    try:
        yield
    finally:
        for mod, n, f in saved:
            setattr(mod, n, f)


def _surrogate(name):
    """a well-conditioned polynomial stand-in with the signature of the tensor function (translator validation only)"""
    k = 1.0 + 0.1 * (sum(map(ord, name)) % 7)

    def f(A, *extra):
        A = jnp.asarray(A)
        S = 0.5 * (A + A.T) if _SYMMETRIC.get(name, True) else A
        return k * S + 0.25 * S @ S + (0.5 * sum(extra) if extra else 0.0) * jnp.eye(3)
    return f


@contextlib.contextmanager
def surrogates():
    from optimism import TensorMath
    import jax.scipy.linalg as jsl
    targets = [(TensorMath, n, True) for n in ('log_symm', 'pow_symm', 'exp_symm', 'sqrt_symm')] + [(jsl, 'expm', False)]
    saved = [(mod, n, getattr(mod, n)) for mod, n, _ in targets]
    for mod, n, symm in targets:
        _SYMMETRIC[n] = symm
        setattr(mod, n, _surrogate(n))
    try:
        yield
    finally:
        for mod, n, f in saved:
            setattr(mod, n, f)


@contextlib.contextmanager
def det_by_closed_form():
    """jnp.linalg.det carries a custom JVP that runs a pivoted LU (`_cofactor_solve`); for symbolic F this is replaced
    by the derivative of JAX's own closed-form 3x3 primal (Jacobi's formula) -- contract of a library call"""
    import jax.numpy.linalg as jl
    from jax._src.numpy import linalg as _l
    saved = jl.det

    def det3(a):
        a = jnp.asarray(a)
        if a.shape != (3, 3):
            return saved(a)
        return _l._det_3x3(a)
    jl.det = det3
    try:
        yield
    finally:
        jl.det = saved


@contextlib.contextmanager
def quiet():
    with contextlib.redirect_stdout(io.StringIO()):
        yield


# =========================================================================================== JX hooks (local)
def _div_hook(ctx, eqn, iv):
    """x / d with symbolic d -> x * r_d with ONE reciprocal variable per distinct denominator term (d != 0 -> r_d*d = 1);
    exact under the recorded assumption that denominators are non-zero; makes repeated divisions by dt, tau, det, ...
    share a variable (visco objectivity: 25 s -> 4 s)"""
    def d(a, b):
        if sym.num(b):
            if sym.num(a):
                if b == 0:
                    return float('nan') if a == 0 else math.copysign(float('inf'), a)
                return a / b
            if b == 1:
                return a
            return sym.toz(a) / sym.toz(b)
        ctx.denoms.append((ctx.guard(), b))
        if sym.num(a) and a == 0:
            return 0.0
        key = ('c08recip', b.get_id())
        if key not in ctx.cache:
            r = ctx.fresh('recip')
            ctx.side.append(z3.Implies(b != 0, r * b == 1))
            ctx.cache[key] = r
        return jx.s_mul(a, ctx.cache[key])
    return jx.ew(d, *iv)


def _cls_hook(ctx, eqn, iv):
    """custom_linear_solve: all-concrete -> real primitive; otherwise the relational encoding of vf.jx, hash-consed on
    the *text* of the matvec jaxpr so that two traces of the same call site share their unknowns"""
    if jx.all_concrete(iv):
        return jx.concrete_bind(eqn, iv)
    key = ('c08cls', str(eqn.params['jaxprs'].matvec.jaxpr)) + tuple(jx.term_key(x) for v in iv for x in v.ravel() if x is not jx.POISON)
    if key not in ctx.cache:
        ctx.cache[key] = jx.do_linear_solve(ctx, eqn, iv)
    return ctx.cache[key]


def _linear_in(which):
    """a primitive that is linear in operand `which` when all other operands are concrete: T(b) = sum_k b_k T(e_k),
    T(e_k) computed by the real primitive (used for triangular_solve in the transposed JVP of jnp.linalg.det at F = I)"""
    def f(ctx, eqn, iv):
        others = [v for k, v in enumerate(iv) if k != which]
        if not jx.all_concrete(others):
            raise jx.JXError('%s with a symbolic matrix' % eqn.primitive.name)
        b = iv[which]
        bf = b.reshape(-1)
        out = None
        for k in range(bf.size):
            if sym.num(bf[k]) and bf[k] == 0:
                continue
            e = onp.zeros(bf.size)
            e[k] = 1.0
            args = list(iv)
            args[which] = jx.lift(e.reshape(b.shape))
            t = jx.concrete_bind(eqn, args)
            term = jx.ew(lambda c, k=k: jx.s_mul(c, bf[k]), t)
            out = term if out is None else jx.ew(jx.s_add, out, term)
        if out is None:
            out = jx.lift(onp.zeros(eqn.outvars[0].aval.shape))
        return out
    return f


jx.OTHER.setdefault('triangular_solve', _linear_in(1))


def _cond_hook(mode):
    """the yield switch of J2Plastic (a 2-branch lax.cond one of whose branches contains the root-finding while loop,
    and every later cond on the same predicate, i.e. its transposed twin in jax.grad).
    mode 'uf':      result = ite(not yielding, <real elastic branch>, U(operands)) with U uninterpreted (congruence);
    mode 'elastic': the elastic branch is taken and `not yielding` is recorded in ctx.c08_elastic (to be assumed)."""
    def hook(ctx, eqn, iv):
        brs = eqn.params['branches']
        i = iv[0].reshape(-1)[0]
        if len(brs) != 2 or not sym.isz(i):
            return NotImplemented
        seen = ctx.__dict__.setdefault('c08_yield_idx', {})
        if i.get_id() not in seen and not any(jx.find_eqns(b.jaxpr, 'while') for b in brs):
            return NotImplemented
        seen[i.get_id()] = i
        ops = iv[1:]
        elastic = (sym.toz(i) == 0)
        ctx.guards.append(elastic)
        try:
            out0 = jx.eval_jaxpr(ctx, brs[0].jaxpr, brs[0].consts, *ops)
        finally:
            ctx.guards.pop()
        if mode == 'elastic':
            g = ctx.guard()
            ctx.__dict__.setdefault('c08_elastic', []).append(z3.Implies(g, elastic) if g is not None else elastic)
            return out0
        sig = 'plastic_update<%s>' % (','.join(str(v.aval) for v in eqn.outvars))
        flat_ops = [x for v in ops for x in v.ravel() if x is not jx.POISON]
        keys = tuple(jx.term_key(x) for x in flat_ops)
        args = [sym.toz_any(x) for x in flat_ops]
        ckey = ('c08pu', sig) + keys
        if ckey not in ctx.cache:
            outs1 = []
            for n_, v in enumerate(eqn.outvars):
                srt = 'B' if onp.dtype(v.aval.dtype) == onp.bool_ else 'R'
                o = onp.empty(v.aval.shape, dtype=object)
                of = o.reshape(-1)
                for k in range(of.size):
                    fv = ctx.fresh('pu%d_%d' % (n_, k), srt)
                    ctx.ufs[('c08pu', sig, n_, k) + keys] = (fv, '%s:%d:%d' % (sig, n_, k), args)
                    of[k] = fv
                outs1.append(o)
            ctx.cache[ckey] = outs1
        outs1 = ctx.cache[ckey]
        return [jx.ew(lambda a, b: sym.v_if(elastic, a, b), a0, a1) for a0, a1 in zip(out0, outs1)]
    return hook


def _hooks(ctx, cond='uf'):
    ctx.hooks['div'] = _div_hook
    ctx.hooks['custom_linear_solve'] = _cls_hook
    ctx.hooks['cond'] = _cond_hook(cond)
    for n in ('log', 'log1p', 'pow', 'exp', 'expm1'):
        ctx.hooks[n] = _scalar_uf_hook(n)
    return ctx


# =========================================================================================== dual (z3 / float) helpers
def approx_eq(a, b, tol=1e-9):
    """equality hypothesis: exact for the solver, within rounding of the model values when re-evaluated on floats"""
    if sym.num(a) and sym.num(b):
        return abs(float(a) - float(b)) <= tol * (1.0 + abs(float(a)) + abs(float(b)))
    return sym.toz(a) == sym.toz(b)


def det3(A):
    t = lambda i, j, k: v_mul(A[0][i], v_mul(A[1][j], A[2][k]))
    return v_sub(v_sum([t(0, 1, 2), t(1, 2, 0), t(2, 0, 1)]), v_sum([t(0, 2, 1), t(1, 0, 2), t(2, 1, 0)]))


def F_of(i):
    """deformation gradient (3x3 nested list of dual numbers) from the inputs of a case"""
    if 'h' in i:
        h = i['h']
        return [[v_add(1.0, h[0, 0]), h[0, 1], 0.0], [h[1, 0], v_add(1.0, h[1, 1]), 0.0], [0.0, 0.0, 1.0]]
    H = i['H']
    return [[v_add(1.0 if a == b else 0.0, H[a, b]) for b in range(3)] for a in range(3)]


def rot_ok(r):
    return approx_eq(v_sum([v_sq(x) for x in r]), 1.0)


# ---- rotations (jnp for tracing; the same formulas on object arrays for the equivariance axioms)
def rot_matrix(r, xp=jnp, axis='z'):
    """(c, s) -> rotation about the coordinate axis `axis` (z: in-plane); 4 parameters -> rotation of a unit quaternion"""
    if r.shape == (2,):
        c, s = r[0], r[1]
        rows = {'z': [[c, -s, 0.0], [s, c, 0.0], [0.0, 0.0, 1.0]],
                'x': [[1.0, 0.0, 0.0], [0.0, c, -s], [0.0, s, c]],
                'y': [[c, 0.0, s], [0.0, 1.0, 0.0], [-s, 0.0, c]]}[axis]
    else:
        a, b, c, d = r[0], r[1], r[2], r[3]
        rows = [[a * a + b * b - c * c - d * d, 2 * (b * c - a * d), 2 * (b * d + a * c)],
                [2 * (b * c + a * d), a * a - b * b + c * c - d * d, 2 * (c * d - a * b)],
                [2 * (b * d - a * c), 2 * (c * d + a * b), a * a - b * b - c * c + d * d]]
    if xp is jnp:
        return jnp.array(rows)
    o = onp.empty((3, 3), dtype=object)
    for i in range(3):
        for j in range(3):
            o[i, j] = rows[i][j]
    return o


def embed(h):
    """plane-strain displacement gradient exactly as the library builds it"""
    from optimism import TensorMath
    return TensorMath.tensor_2D_to_3D(h)


def omatmul(A, B):
    o = onp.empty((A.shape[0], B.shape[1]), dtype=object)
    for i in range(A.shape[0]):
        for j in range(B.shape[1]):
            o[i, j] = jx.s_sum([jx.s_mul(A[i, k], B[k, j]) for k in range(A.shape[1])])
    return o


# =========================================================================================== model registry
class Model:
    def __init__(self, key, modnames, example, admissible, make, kind, finite, spectral, closed, enc, sample, natural,
                 hardening=None):
        self.key, self.modnames, self.example, self.admissible, self.make = key, modnames, example, admissible, make
        self.kind, self.finite, self.spectral, self.closed, self.enc, self.sample, self.natural = kind, finite, spectral, closed, enc, sample, natural
        self.hardening = hardening

    def scale(self, m):
        """a positive modulus scale (dual) for margins and float tolerances"""
        return v_sum([v_abs(m[k]) for k in self.scale_idx])


def _adm_E_nu(m):
    return [v_lt(0.0, m[0]), v_lt(-1.0, m[1]), v_lt(m[1], 0.5)]


def _nat_E_nu(m, extra=()):
    """(den, num) with den > 0 and num/den >= mu + kappa + sum(extra): the natural stiffness scale of an (E, nu) model"""
    den = v_mul(v_add(1.0, m[1]), v_sub(1.0, v_mul(2.0, m[1])))
    num = v_mul(m[0], v_sub(2.0, m[1]))
    for e in extra:
        num = v_add(num, v_mul(e, den))
    return den, num


def _models():
    from optimism.material import LinearElastic, Neohookean, Gent, J2Plastic, HyperViscoelastic, MultiBranchHyperViscoelastic, Hardening
    from optimism.phasefield import PhaseFieldThreshold
    from optimism import TensorMath
    out = []
    s_Enu = lambda rng: [rng.uniform(1.0, 10.0), rng.uniform(0.05, 0.45)]
    for sm, fin, spec_, enc in (('linear', False, False, [LinearElastic.linear_strain]),
                                ('green lagrange', True, False, [LinearElastic.green_lagrange_strain]),
                                ('logarithmic', True, True, [LinearElastic.log_strain, TensorMath.log_sqrt_symm, TensorMath.detpIm1])):
        out.append(Model('linear_elastic[%s]' % sm, ['E', 'nu'], [3.0, 0.3], _adm_E_nu,
                         lambda m, sm=sm: LinearElastic.create_material_model_functions({'elastic modulus': m[0], 'poisson ratio': m[1], 'strain measure': sm}),
                         'plain', fin, spec_, not spec_, [LinearElastic.create_material_model_functions, LinearElastic._make_properties, LinearElastic._linear_elastic_energy_density] + enc,
                         s_Enu, _nat_E_nu))
    for ver, f in (('adagio', Neohookean._adagio_neohookean), ('coupled', Neohookean._neohookean_3D_energy_density)):
        out.append(Model('neohookean[%s]' % ver, ['E', 'nu'], [3.0, 0.3], _adm_E_nu,
                         lambda m, ver=ver: Neohookean.create_material_model_functions({'elastic modulus': m[0], 'poisson ratio': m[1], 'version': ver}),
                         'plain', True, False, True, [Neohookean.create_material_model_functions, Neohookean._make_properties, f], s_Enu, _nat_E_nu))
    out.append(Model('gent', ['K', 'G', 'Jm'], [5.0, 1.0, 3.0], lambda m: [v_lt(0.0, m[0]), v_lt(0.0, m[1]), v_lt(0.0, m[2])],
                     lambda m: Gent.create_material_functions({'bulk modulus': m[0], 'shear modulus': m[1], 'Jm parameter': m[2]}),
                     'plain', True, False, True, [Gent.create_material_functions, Gent._gent_3D_energy_density],
                     lambda rng: [rng.uniform(2.0, 10.0), rng.uniform(0.5, 2.0), rng.uniform(2.0, 5.0)],
                     lambda m: (1.0, v_add(m[0], m[1]))))

    def j2(kin, hard, rate=False):
        names = ['E', 'nu', 'Y0']
        ex = [3.0, 0.3, 9.0]
        hp = {'linear': (['Hm'], [0.5], {'hardening modulus': 3}),
              'voce': (['Ysat', 'eps0'], [12.0, 0.1], {'saturation strength': 3, 'reference plastic strain': 4}),
              'power law': (['n', 'eps0'], [3.0, 0.1], {'hardening exponent': 3, 'reference plastic strain': 4})}[hard]
        names, ex = names + hp[0], ex + hp[1]
        nbase = len(names)
        if rate:
            names, ex = names + ['S', 'mexp', 'epsDot0'], ex + [2.0, 3.0, 0.5]

        def make(m):
            p = {'elastic modulus': m[0], 'poisson ratio': m[1], 'yield strength': m[2], 'hardening model': hard, 'kinematics': kin}
            for k, idx in hp[2].items():
                p[k] = m[idx]
            if rate:
                p.update({'rate sensitivity': 'power law', 'rate sensitivity stress': m[nbase], 'rate sensitivity exponent': m[nbase + 1], 'reference plastic strain rate': m[nbase + 2]})
            return J2Plastic.create_material_model_functions(p)

        def adm(m):
            a = _adm_E_nu(m) + [v_lt(0.0, m[2])]
            if hard == 'linear':
                a.append(v_le(0.0, m[3]))
            elif hard == 'voce':
                a += [v_le(m[2], m[3]), v_lt(0.0, m[4])]
            else:
                a += [v_lt(0.0, m[3]), v_lt(0.0, m[4])]
            if rate:
                a += [v_lt(0.0, m[nbase]), v_lt(0.0, m[nbase + 1]), v_lt(0.0, m[nbase + 2])]
            return a

        def sample(rng):
            E = rng.uniform(1.0, 10.0)
            base = [E, rng.uniform(0.05, 0.45), E * rng.uniform(20.0, 40.0)]   # validation samples stay elastic
            if hard == 'linear':
                base = base + [rng.uniform(0.0, 1.0)]
            elif hard == 'voce':
                base = base + [base[2] * rng.uniform(1.1, 2.0), rng.uniform(0.05, 0.5)]
            else:
                base = base + [rng.uniform(2.0, 5.0), rng.uniform(0.05, 0.5)]
            return base + ([rng.uniform(0.5, 3.0), rng.uniform(2.0, 5.0), rng.uniform(0.1, 1.0)] if rate else [])
        strain = {'large deformations': J2Plastic.compute_elastic_logarithmic_strain, 'small deformations': J2Plastic.compute_elastic_linear_strain,
                  'seth hill': J2Plastic.compute_elastic_seth_hill_strain}[kin]
        hf = {'linear': Hardening.linear, 'voce': Hardening.voce, 'power law': Hardening.power_law}[hard]
        return Model('j2plastic[%s,%s%s]' % (kin, hard, ',rate' if rate else ''), names, ex, adm, make, 'j2', kin != 'small deformations', kin != 'small deformations', False,
                     [J2Plastic.create_material_model_functions, J2Plastic.make_properties, strain, J2Plastic._energy_density, J2Plastic.compute_state_increment,
                      J2Plastic.compute_flow_direction, J2Plastic.elastic_free_energy, Hardening.create_hardening_model, hf],
                     sample, lambda m: _nat_E_nu(m, extra=[v_abs(x) for x in m[2:4]] + ([v_abs(m[nbase])] if rate else [])), hardening=hard + (',rate' if rate else ''))
    for kin in ('large deformations', 'small deformations', 'seth hill'):
        for hard in ('linear', 'voce', 'power law'):
            out.append(j2(kin, hard))
        out.append(j2(kin, 'linear', rate=True))
    out.append(Model('hyperviscoelastic', ['K', 'G', 'Gneq', 'tau'], [5.0, 1.0, 0.7, 0.4], lambda m: [v_lt(0.0, x) for x in m],
                     lambda m: HyperViscoelastic.create_material_model_functions({'equilibrium bulk modulus': m[0], 'equilibrium shear modulus': m[1],
                                                                                  'non equilibrium shear modulus': m[2], 'relaxation time': m[3]}),
                     'visco', True, True, False, [HyperViscoelastic.create_material_model_functions, HyperViscoelastic._energy_density, HyperViscoelastic._eq_strain_energy,
                                                  HyperViscoelastic._neq_strain_energy, HyperViscoelastic._dissipation_potential, HyperViscoelastic._compute_state_increment,
                                                  HyperViscoelastic._compute_elastic_logarithmic_strain],
                     lambda rng: [rng.uniform(2.0, 10.0), rng.uniform(0.5, 2.0), rng.uniform(0.2, 2.0), rng.uniform(0.1, 1.0)],
                     lambda m: (1.0, v_sum([m[0], m[1], m[2]]))))
    MB = MultiBranchHyperViscoelastic
    out.append(Model('multibranch_hyperviscoelastic', ['K', 'G', 'G1', 'tau1', 'G2', 'tau2', 'G3', 'tau3'], [5.0, 1.0, 0.7, 0.4, 0.5, 1.0, 0.3, 5.0],
                     lambda m: [v_lt(0.0, x) for x in m],
                     lambda m: MB.create_material_model_functions(dict([('equilibrium bulk modulus', m[0]), ('equilibrium shear modulus', m[1])] +
                                                                       [('non equilibrium shear modulus %d' % (n + 1), m[2 + 2 * n]) for n in range(3)] +
                                                                       [('relaxation time %d' % (n + 1), m[3 + 2 * n]) for n in range(3)])),
                     'visco', True, True, False, [MB.create_material_model_functions, MB._energy_density, MB._eq_strain_energy, MB._neq_strain_energy, MB._dissipation_potential,
                                                  MB._compute_state_increment, MB._compute_elastic_logarithmic_strain, MB._return_state_for_branch],
                     lambda rng: [rng.uniform(2.0, 10.0), rng.uniform(0.5, 2.0)] + [f(rng) for _ in range(3) for f in (lambda r: r.uniform(0.2, 2.0), lambda r: r.uniform(0.1, 1.0))],
                     lambda m: (1.0, v_sum([m[0], m[1], m[2], m[4], m[6]]))))
    PF = PhaseFieldThreshold
    for kin, fin in (('large deformations', True), ('small deformations', False)):
        out.append(Model('phasefield_threshold[%s]' % kin, ['E', 'nu', 'Gc', 'l'], [3.0, 0.3, 0.2, 0.1],
                         lambda m: _adm_E_nu(m) + [v_lt(0.0, m[2]), v_lt(0.0, m[3])],
                         lambda m, kin=kin: PF.create_material_model_functions({'elastic modulus': m[0], 'poisson ratio': m[1], 'critical energy release rate': m[2],
                                                                                'regularization length': m[3], 'kinematics': kin}),
                         'pf', fin, fin, False, [PF.create_material_model_functions, PF.make_properties, PF.energy_density, PF.strain_energy_density, PF.phase_potential_density,
                                                 PF.compute_logarithmic_strain if fin else PF.compute_linear_strain],
                         lambda rng: [rng.uniform(1.0, 10.0), rng.uniform(0.05, 0.45), rng.uniform(0.1, 1.0), rng.uniform(0.05, 0.5)],
                         _nat_E_nu))
    for m in out:
        m.scale_idx = {'plain': [0], 'j2': [0, 2], 'visco': [0, 1], 'pf': [0]}[m.kind] if m.key != 'gent' else [0, 1]
    return out


def model(key):
    return [m for m in _models() if m.key == key][0]


# ---- auxiliary (non-modulus) arguments of the energy per model kind
def aux_spec(m, mat, state='symbolic'):
    """ordered [(name, example array)] of the symbolic auxiliary inputs"""
    with quiet():
        st0 = onp.asarray(mat.compute_initial_state(), dtype=float)
    a = []
    if m.kind in ('j2', 'visco') and state == 'symbolic':
        a.append(('state', st0))
    if m.kind == 'visco':
        a.append(('dt', onp.asarray(0.1)))
    if m.kind == 'pf':
        a += [('phase', onp.asarray(0.2)), ('gphase', onp.array([0.3, -0.2, 0.1]))]
    return a


def aux_assumes(m, i):
    a = []
    if 'dt' in i:
        a.append(v_lt(0.0, s0(i['dt'])))
    if 'phase' in i:
        a += [v_le(0.0, s0(i['phase'])), v_le(s0(i['phase']), 1.0)]
    if m.kind == 'j2' and 'state' in i:
        a.append(v_le(0.0, i['state'][0]))
    return a


def aux_sample(m, names, st0, rng):
    out = []
    for n in names:
        if n == 'state':
            s = st0 + 0.05 * rng.normal(size=st0.shape)
            if m.kind == 'j2':
                s[0] = abs(s[0])
            out.append(s)
        elif n == 'dt':
            out.append(rng.uniform(0.05, 0.5))
        elif n == 'phase':
            out.append(rng.uniform(0.0, 0.9))
        elif n == 'gphase':
            out.append(rng.normal(size=3))
    return out


ENTRY_POINTS = {
    # every energy-like callable of the namedtuple a constructor returns (besides compute_energy_density = 'energy')
    'plain': [],
    'j2': [],                               # compute_material_qoi = plastic dissipation: not an energy density (see DESIGNED_NOT_REGISTERED)
    'visco': [],                            # compute_material_qoi = viscous dissipation of the step: not an energy density
    'pf': ['output_energy', 'strain_energy', 'phase_potential', 'state_new'],   # state_new[0] = undamaged-history strain energy
}
ENTRY_ATTR = {'energy': 'compute_energy_density', 'output_energy': 'compute_output_energy_density', 'strain_energy': 'compute_strain_energy_density',
              'phase_potential': 'compute_phase_potential_density', 'material_qoi': 'compute_material_qoi', 'state_new': 'compute_state_new'}


def energy(m, mat, a, entry='energy'):
    """H -> value of the entry point `entry` of the material namedtuple, for the auxiliary values in dict a
    (missing state -> virgin state of the model)"""
    st = a['state'] if 'state' in a else mat.compute_initial_state()
    f = getattr(mat, ENTRY_ATTR[entry])
    if m.kind == 'plain':
        return lambda H: f(H, st, 0.0)
    if m.kind == 'j2':
        return lambda H: f(H, st, a.get('dt', 1.0))
    if m.kind == 'visco':
        return lambda H: f(H, st, a['dt'])
    if m.kind == 'pf':
        if entry == 'state_new':
            return lambda H: f(H, a['phase'], a['gphase'], st, 0.0)[0]
        return lambda H: f(H, a['phase'], a['gphase'], st, 0.0)
    raise ValueError(m.kind)


class _Switch:
    patch = None      # context-manager factory applied while the jaxpr is traced
    surrogate = False


def _validate(fn, cj, sampler, seed, n, rtol=1e-8):
    """translator validation (as vf.jx.validate: the traced jaxpr is run by JX on ground numerals and compared with the
    real function), with a conditioning-aware tolerance: JX forms intermediate values exactly and rounds them once
    before a real tensor function is called, the real code rounds after every operation; where the real function is
    itself ill-conditioned (it amplifies 1-ulp input perturbations) the comparison allows 100x that amplification."""
    rng = onp.random.default_rng(seed)
    worst, slack_used = 0.0, 0
    jfn = jax.jit(lambda *a: fn(*a))      # one compilation instead of one per eager lax.cond of the eigen-solver (fresh wrapper: no stale jit cache across patches)
    for k in range(n):
        args = [onp.asarray(a, dtype=float) for a in sampler(rng)]
        call = lambda aa: [onp.asarray(r, dtype=float) for r in jax.tree_util.tree_leaves(jfn(*[jnp.asarray(a) for a in aa]))]
        real = call(args)
        spread = [onp.zeros_like(r) for r in real]
        for t in range(3):
            pert = [a * (1.0 + 4.4e-16 * rng.choice([-1.0, 1.0], size=a.shape)) for a in args]
            for sp, r0, r1 in zip(spread, real, call(pert)):
                onp.maximum(sp, onp.abs(r1 - r0), out=sp)
        ctx = jx.Ctx(ground=True)
        ctx.hooks['custom_linear_solve'] = _cls_hook      # all-concrete solves are folded by the real primitive
        gargs = [jx.ew(lambda v: sym.rat(v), a) for a in args]
        try:
            outs = jx.eval_jaxpr(ctx, cj.jaxpr, cj.consts, *gargs)
        except ValueError as e:
            # a real tensor function returned NaN/inf on the exactly-formed argument: only acceptable where the real
            # function is itself non-finite or wildly ill-conditioned at this input
            bad = any((not onp.all(onp.isfinite(r))) or onp.any(sp > 1e-8 * (1.0 + onp.abs(r))) for r, sp in zip(real, spread))
            if 'non-finite' in str(e) and bad:
                slack_used += 1
                continue
            raise
        for o, r, sp in zip(outs, real, spread):
            for x, y, e in zip(o.reshape(-1), r.reshape(-1), sp.reshape(-1)):
                if x is jx.POISON:
                    continue
                g = jx.ground_num(ctx, sym.toz(x)) if sym.isz(x) else x
                if g is None:
                    raise jx.JXError('validation: output did not reduce to a numeral: %s' % x)
                g = float(g)
                if math.isnan(y) and math.isnan(g):
                    continue
                err = abs(g - y)
                tol = rtol * (1.0 + abs(y))
                if not err <= tol:
                    if err <= 100.0 * e or math.isnan(e):
                        slack_used += 1
                        continue
                    raise jx.JXError('translator validation failed: JX %r vs real %r (real varies by %.1e under 1-ulp input perturbations; inputs %s)'
                                     % (g, y, e, [a.tolist() for a in args]))
                worst = max(worst, err / (1.0 + abs(y)))
    return worst, slack_used


def mk_case(h, body, args, sampler, label, cond='uf', patch=stubs, nval=2, merge_rot=None, merge_cap=20, equivariant=False, rot_axis='z'):
    """Case whose jaxpr is traced with `patch` active; validation and replay run the unpatched function.
    merge_rot = name of the rotation input: tensor-UF applications whose arguments are proved equal under |rot|^2 = 1
    share their outputs (each such cut lemma is registered as a query of its own)."""
    def fn(*a):
        if _Switch.patch is not None:
            with _Switch.patch(), quiet():
                return body(*a)
        with quiet():
            return body(*a)
    ctx = _hooks(jx.Ctx(), cond)
    if merge_rot is not None:
        rv = sym.sym_array(merge_rot, onp.shape(args[merge_rot]))
        # one rational point of the input space with |rot| = 1 (only used to skip hopeless merge candidates)
        prng = onp.random.default_rng(12345)
        point = []
        for k_, e_ in args.items():
            va = sym.sym_array(k_, onp.shape(e_)).reshape(-1)
            if k_ == merge_rot:
                vals = [(3, 5), (4, 5)] if va.size == 2 else [(2, 7), (3, 7), (6, 7), (0, 1)]
            else:
                vals = [(int(prng.integers(1, 40)), 41) for _ in range(va.size)]
            point += [(v_, z3.RealVal('%d/%d' % pq)) for v_, pq in zip(va, vals)]
        ctx.c08_merge = dict(base=[sum(x * x for x in rv.ravel()) == 1], cap=merge_cap, log=[], lemmas=[], point=point)
        if equivariant:
            ctx.c08_merge['Q'] = rot_matrix(rv, xp=onp, axis=rot_axis)
    _Switch.patch = patch
    try:
        c = Case(h, fn, args, validate=0, ctx=ctx, label=label)
    finally:
        _Switch.patch = None
    if nval and h.replay is None:
        how = 'the unpatched real function'
        try:
            worst, slack = _validate(fn, c.cj, sampler, h.seed, nval)
        except (jx.JXError, ValueError) as e:
            if patch is not stubs or not ('non-finite' in str(e) or 'translator validation failed' in str(e)):
                raise
            # the real tensor functions are non-finite / ill-conditioned on this input class: validate the encoding of
            # everything else with a polynomial surrogate in place of the tensor functions on BOTH sides
            _Switch.patch, _Switch.surrogate = surrogates, True
            try:
                worst, slack = _validate(fn, c.cj, sampler, h.seed, nval)
            finally:
                _Switch.patch, _Switch.surrogate = None, False
            how = ('the real function with a polynomial surrogate for the spectral tensor functions on both sides (with the real tensor functions: %s)'
                   % str(e).splitlines()[0][:160])
        h.fact('translator_validation[%s]' % label, True, 'max rel err %.2e on %d ground runs of the (patched) jaxpr vs %s%s'
               % (worst, nval, how, '; %d outputs compared within 100x the real function\'s own 1-ulp sensitivity (ill-conditioned)' % slack if slack else ''), nontrivial=False)
    if merge_rot is not None and h.replay is None:
        for k, (name, x, x1) in enumerate(ctx.c08_merge['lemmas']):
            h.prove('%s.lemma%d[%s arguments equal]' % (label, k, name), list(ctx.c08_merge['base']) + c.side(True),
                    Eq(list(x), list(x1)), inputs=c.inp, concrete=None, cap=4 * merge_cap,
                    note='cut lemma: arguments of two applications of an uninterpreted tensor function are equal, hence (congruence) so are the results')
    return c


NOTE_REALS = 'all symbolic denominators (1+nu, 1-2nu, Jm, tau, dt, 1+dt/tau, det F, det of the inelastic distortion) are assumed non-zero'
NOTE_UF = 'scalar log/log1p/pow: uninterpreted functions (congruence only)'
NOTE_TUF = ('TensorMath.log_symm/pow_symm/exp_symm/sqrt_symm, jax.scipy.linalg.expm: patched at trace time by uninterpreted symmetric-tensor functions of '
            'all nine entries of their argument (congruence only); replay and translator validation use the real functions')
NOTE_PU = 'J2 plastic update (cond branch with the root-finding loop): uninterpreted function of its operands (elastic strain, state, dt, moduli)'
NOTE_ROT = 'float re-evaluation of a solver model accepts |q|^2 = 1 within 1e-9 (model values are rounded to binary64)'


# =========================================================================================== O1 / O2 generic driver
def _sym_case(h, m, what, full, state, batch=False, quat=None, entry='energy', axis='z'):
    """what: 'left' W(QF) = W(F)  |  'right' W(F Q^T) = W(F) with the reference-side transformation of the auxiliaries"""
    quat = full if quat is None else quat
    with quiet():
        mat0 = m.make(list(m.example))
        st0 = onp.asarray(mat0.compute_initial_state(), dtype=float)
    aux = aux_spec(m, mat0, state)
    names = [('H' if full else 'h'), 'rot', 'mod'] + [n for n, _ in aux]
    ex = dict([(names[0], 0.1 * onp.ones((3, 3) if full else (2, 2))), ('rot', onp.array([1.0, 0.0, 0.0, 0.0]) if quat else onp.array([1.0, 0.0])),
               ('mod', onp.array(m.example))] + aux)
    elastic_out = (what == 'right' and m.kind == 'j2')

    def body(*arrs):
        a = dict(zip(names, arrs))
        mat = m.make(a['mod'])
        H = a['H'] if full else embed(a['h'])
        Q = rot_matrix(a['rot'], axis=axis)
        a2 = dict(a)
        if what == 'left':
            H2 = Q @ (H + jnp.eye(3)) - jnp.eye(3)
        else:
            H2 = (H + jnp.eye(3)) @ Q.T - jnp.eye(3)
            if 'gphase' in a:
                a2['gphase'] = Q @ a['gphase']
            if 'state' in a:
                # the internal variables are reference-configuration tensors: Fp, Fv, eps_p -> Q (.) Q^T
                st = a['state']
                off = 1 if m.kind == 'j2' else 0
                blocks = [(Q @ st[off + 9 * b: off + 9 * (b + 1)].reshape(3, 3) @ Q.T).ravel() for b in range((st.shape[0] - off) // 9)]
                a2['state'] = jnp.hstack([st[:off]] + blocks)
        if batch:
            if a2 is not a and 'gphase' in a:
                Ws = jax.vmap(lambda Hb, gb: energy(m, mat, dict(a, gphase=gb), entry)(Hb))(jnp.stack([H, H2]), jnp.stack([a['gphase'], a2['gphase']]))
            else:
                Ws = jax.vmap(energy(m, mat, a, entry))(jnp.stack([H, H2]))
            return Ws[0], Ws[1]
        W1, W2 = energy(m, mat, a, entry)(H), energy(m, mat, a2, entry)(H2)
        if elastic_out:
            st, st2 = (a['state'], a2['state']) if 'state' in a else (mat.compute_initial_state(),) * 2
            return W1, W2, mat.compute_state_new(H, st, 1.0)[0] - st[0], mat.compute_state_new(H2, st2, 1.0)[0] - st2[0]
        return W1, W2

    def sampler(rng):
        t = rng.uniform(-3.0, 3.0)
        if quat:
            q = rng.normal(size=4)
            r = q / onp.linalg.norm(q)
        else:
            r = onp.array([onp.cos(t), onp.sin(t)])
        return [0.1 * rng.normal(size=(3, 3) if full else (2, 2)), r, m.sample(rng)] + aux_sample(m, [n for n, _ in aux], st0, rng)
    label = '%s%s:%s:%s%s' % (m.key, '' if entry == 'energy' else '.' + entry, what, 'SO3' if quat else (('3x3_inplane' if full else 'inplane') if axis == 'z' else '3x3_about_' + axis), ':vmap2' if batch else '')
    c = mk_case(h, body, ex, sampler, label, cond='elastic' if elastic_out else 'uf', merge_rot='rot', equivariant=(what == 'right'), rot_axis=axis)
    c.rot_axis = axis

    def spec(i, o):
        asm = [rot_ok(i['rot']), v_lt(0.0, det3(F_of(i)))] + m.admissible(i['mod']) + aux_assumes(m, i)
        if elastic_out:
            asm += [sym.v_eq(s0(o[2]), 0.0), sym.v_eq(s0(o[3]), 0.0)]
        return asm, Eq(s0(o[0]), s0(o[1]), scale=m.scale(i['mod']))
    return c, spec


def _equivariance(c):
    """instances f(Q A Q^T) = Q f(A) Q^T for every ordered pair of applications of the same tensor function"""
    Q = rot_matrix(c.inp['rot'], xp=onp, axis=getattr(c, 'rot_axis', 'z'))
    QT = Q.T
    apps = getattr(c.ctx, 'c08_apps', [])
    ax = []
    for a in range(len(apps)):
        for b in range(len(apps)):
            if a == b or apps[a][0] != apps[b][0] or apps[a][1] != apps[b][1]:
                continue
            (_, _, xa, fa), (_, _, xb, fb) = apps[a], apps[b]
            rx = omatmul(omatmul(Q, xa), QT)
            rf = omatmul(omatmul(Q, fa), QT)
            pre = z3.And(*[sym.toz(p) == sym.toz(q) for p, q in zip(xb.ravel(), rx.ravel())])
            post = z3.And(*[sym.toz(p) == sym.toz(q) for p, q in zip(fb.ravel(), rf.ravel())])
            ax.append(z3.Implies(pre, post))
    return ax


_ROT2 = [((3, 5), (4, 5)), ((-5, 13), (12, 13)), ((8, 17), (-15, 17))]
_ROT4 = [((1, 5), (2, 5), (2, 5), (4, 5)), ((2, 9), (-4, 9), (5, 9), (6, 9)), ((1, 2), (1, 2), (-1, 2), (1, 2))]


def _pin(x, num_, den):
    if sym.num(x):
        return abs(float(x) - num_ / den) <= 1e-12
    return x == z3.RealVal('%d/%d' % (num_, den))


def _pins(i, m, k):
    """pin every input to the k-th of a few fixed points in generic position (small non-symmetric H, rotation with
    all-non-zero rational parameters, moduli near the example values, perturbed internal state)"""
    rng = onp.random.default_rng(1000 + k)
    cs = []
    small = lambda n, lo, hi: [(int(sgn) * int(v), 64) for sgn, v in zip(rng.choice([-1, 1], size=n), rng.integers(lo, hi, size=n))]
    for key in ('h', 'H'):
        if key in i:
            xs = i[key].ravel()
            cs += [_pin(x, *q) for x, q in zip(xs, small(xs.size, 2, 12))]
    if 'rot' in i:
        tab = _ROT2 if len(i['rot']) == 2 else _ROT4
        cs += [_pin(x, *q) for x, q in zip(i['rot'], tab[k % len(tab)])]
    if 'mod' in i:
        cs += [_pin(x, int(round(e * 64 * (1.0 + 0.2 * rng.uniform(-1, 1)))), 64) for x, e in zip(i['mod'], m.example)]
    if 'state' in i:
        st = i['state'].ravel()
        if m.kind == 'j2':
            virgin = [0.0] + (list(I3.ravel()) if 'large' in m.key else [0.0] * 9)
        else:
            virgin = list(I3.ravel()) * (len(st) // 9)
        pert = small(st.size, 2, 8)
        for n_, (x, v, q) in enumerate(zip(st, virgin, pert)):
            num_ = int(v * 64) + (abs(q[0]) if (m.kind == 'j2' and n_ == 0) else q[0])
            cs.append(_pin(x, num_, 64))
    if 'dt' in i:
        cs.append(_pin(s0(i['dt']), 20 + 5 * k, 64))
    if 'phase' in i:
        cs.append(_pin(s0(i['phase']), 20 + 7 * k, 64))
    if 'gphase' in i:
        cs += [_pin(x, *q) for x, q in zip(i['gphase'], small(3, 10, 40))]
    return cs


def _prove(c, m, name, spec, **kw):
    """c.prove; when a counterexample does not reproduce on the real code (typically: the model sits on a degenerate
    point where only the *uninterpreted* function values differ) or the solver gave up (unknown: neither a proof nor a
    model within the cap), ask the solver whether the negated goal is also
    satisfiable at up to three fixed inputs in generic position and replay those; a reproduced witness there is a
    violation of the same goal (the first, unreproduced, record stays as it is).  The proof direction (unsat over the
    whole box) never uses these points."""
    recs = c.prove(name, spec, **kw)
    if any(r is not None and r.get('status') in ('unreproduced', 'inconclusive') for r in (recs or [])):
        for k in range(3):
            def spec2(i, o, k=k):
                asm, atoms = spec(i, o)
                return list(asm) + _pins(i, m, k), atoms
            kw2 = dict(kw)
            kw2['order'] = ('nlsat', 'core')
            r2 = c.prove('%s.generic_witness%d' % (name, k), spec2, **kw2)
            recs += r2
            if any(r is not None and r.get('status') == 'violated' for r in r2):
                break
    return recs


def _skip(h, key):
    return h.replay is not None and ('/%s' % key) not in h.replay.get('query', '')


def _common_notes(h, m, with_tuf=True):
    h.encoded(*m.enc)
    h.assume_note(NOTE_REALS, NOTE_UF, NOTE_ROT)
    if with_tuf and m.spectral:
        h.assume_note(NOTE_TUF)
    if m.kind == 'j2':
        h.assume_note(NOTE_PU)
    h.outside('rounding error of the float evaluation; XLA compilation of the jaxpr')


def _run_symmetry(h, keys, what, full, state, cap, batch=False, order=('core', 'nlsat'), quat=None, axis='z'):
    for key in keys:
        key, entry = (key, 'energy') if isinstance(key, str) else key
        qname = (key if entry == 'energy' else '%s.%s' % (key, entry)) + ('' if axis == 'z' else '@' + axis)
        if _skip(h, qname):
            continue
        m = model(key)
        _common_notes(h, m)
        if entry != 'energy':
            h.encoded('%s.create_material_model_functions -> %s' % (m.enc[0].__module__, ENTRY_ATTR[entry]))
        c, spec = _sym_case(h, m, what, full, state, batch=batch, quat=quat, entry=entry, axis=axis)
        extra = list(getattr(c.ctx, 'c08_elastic', []))
        if what == 'right':
            extra += _equivariance(c)
        _prove(c, m, '%s%s' % (qname, '.vmap2' if batch else ''), spec, cap=cap, order=order, extra_assumes=extra)


FINITE_PLAIN = ['linear_elastic[green lagrange]', 'linear_elastic[logarithmic]', 'neohookean[adagio]', 'neohookean[coupled]', 'gent']
FINITE_STATE = ['j2plastic[large deformations,linear]', 'j2plastic[seth hill,linear]', 'hyperviscoelastic', 'phasefield_threshold[large deformations]']
BOUNDS_INPLANE = ('H = 2x2 block (4 free reals) embedded in 3x3 as the library does for plane strain, det(H+I) > 0; Q = in-plane rotation (c, s), c^2+s^2 = 1: '
                  'all reals; moduli: all admissible reals (E>0, -1<nu<1/2, K,G,Jm,Y0,tau,Gc,l > 0, H >= 0); dt > 0; inelastic state: all 9 (27) entries free, eqps >= 0; '
                  'phase in [0,1], grad phase free')
BOUNDS_SO3 = 'H = free 3x3 (9 reals), det(H+I) > 0; Q = rotation of a unit quaternion (all of SO(3)); moduli, dt, state as in the quick tier'


@obligation(P, 'O1.objectivity_inplane', cap=500)
def o1_inplane(h):
    """W(Q(H+I) - I) = W(H) for every in-plane rotation, every plane-strain H with det F > 0, symbolic moduli and state"""
    h.bounds(BOUNDS_INPLANE)
    h.outside('LinearElastic[linear], J2Plastic[small deformations], PhaseFieldThreshold[small deformations]: not finite-deformation models (O4 only)')
    _run_symmetry(h, FINITE_PLAIN + FINITE_STATE, 'left', False, 'symbolic', cap=120)


@obligation(P, 'O1.objectivity_inplane_multibranch', cap=500)
def o1_inplane_mb(h):
    """same for the 3-branch viscoelastic model (27 state entries free)"""
    h.bounds(BOUNDS_INPLANE)
    _run_symmetry(h, ['multibranch_hyperviscoelastic'], 'left', False, 'symbolic', cap=200)


BOUNDS_3X3 = BOUNDS_INPLANE.replace('H = 2x2 block (4 free reals) embedded in 3x3 as the library does for plane strain', 'H = free 3x3 (9 reals)')


@obligation(P, 'O1.objectivity_3x3_inplane_rotation', cap=500)
def o1_3x3(h):
    """W(Q(H+I) - I) = W(H) for every in-plane rotation and every (fully three-dimensional) H with det F > 0: reaches
    the terms that vanish identically on plane-strain H (det H, out-of-plane shear)"""
    h.bounds(BOUNDS_3X3)
    _run_symmetry(h, FINITE_PLAIN + FINITE_STATE, 'left', True, 'symbolic', cap=120, quat=False)


@obligation(P, 'O2.isotropy_3x3_inplane_rotation', cap=500)
def o2_3x3(h):
    h.bounds(BOUNDS_3X3.replace('inelastic state: all 9 (27) entries free, eqps >= 0', 'inelastic state: virgin'))
    h.assume_note(NOTE_EQV, NOTE_ELASTIC)
    _run_symmetry(h, FINITE_PLAIN + FINITE_STATE + ['multibranch_hyperviscoelastic'], 'right', True, 'virgin', cap=120, quat=False)


BOUNDS_OOP = BOUNDS_3X3.replace('Q = in-plane rotation (c, s)', 'Q = rotation about the x axis and about the y axis, (c, s)')


@obligation(P, 'O1.objectivity_3x3_out_of_plane_rotation', cap=600)
def o1_oop(h):
    """W(Q(H+I) - I) = W(H) for every rotation about the x axis and every rotation about the y axis (rotations that leave
    the x-y plane) and every fully three-dimensional H with det F > 0, symbolic moduli and internal state: reaches terms
    that are exact on block-diagonal (plane-strain / axisymmetric) F only, e.g. a determinant taken as in-plane minor
    times out-of-plane stretch"""
    h.bounds(BOUNDS_OOP)
    for ax in ('x', 'y'):
        _run_symmetry(h, FINITE_PLAIN + FINITE_STATE, 'left', True, 'symbolic', cap=120, quat=False, axis=ax)


@obligation(P, 'O1.objectivity_3x3_out_of_plane_rotation_multibranch', cap=600)
def o1_oop_mb(h):
    """same for the 3-branch viscoelastic model (27 state entries free)"""
    h.bounds(BOUNDS_OOP)
    for ax in ('x', 'y'):
        _run_symmetry(h, ['multibranch_hyperviscoelastic'], 'left', True, 'symbolic', cap=200, quat=False, axis=ax)


@obligation(P, 'O2.isotropy_3x3_out_of_plane_rotation', cap=600)
def o2_oop(h):
    """W((H+I) Q^T - I) = W(H) (grad phase -> Q grad phase) for every rotation about x and about y, free 3x3 H, virgin state"""
    h.bounds(BOUNDS_OOP.replace('inelastic state: all 9 (27) entries free, eqps >= 0', 'inelastic state: virgin'))
    h.assume_note(NOTE_EQV, NOTE_ELASTIC)
    for ax in ('x', 'y'):
        _run_symmetry(h, FINITE_PLAIN + FINITE_STATE + ['multibranch_hyperviscoelastic'], 'right', True, 'virgin', cap=120, quat=False, axis=ax)


@obligation(P, 'O1.objectivity_SO3', tiers=('thorough',), cap=1200)
def o1_so3(h):
    """W(Q(H+I) - I) = W(H) for every rotation of SO(3) (unit quaternion) and every 3x3 H with det F > 0"""
    h.bounds(BOUNDS_SO3)
    _run_symmetry(h, FINITE_PLAIN + FINITE_STATE, 'left', True, 'symbolic', cap=400)


@obligation(P, 'O1.objectivity_SO3_multibranch', tiers=('thorough',), cap=900)
def o1_so3_mb(h):
    h.bounds(BOUNDS_SO3)
    _run_symmetry(h, ['multibranch_hyperviscoelastic'], 'left', True, 'symbolic', cap=600)


@obligation(P, 'O1.objectivity_vmap2', tiers=('thorough',), cap=600)
def o1_vmap(h):
    """the same identity on the jaxpr of jax.vmap(W) over the batch [H, Q(H+I)-I] (evaluation inside a compiled batch,
    structurally: JX interprets the batched jaxpr; XLA itself is outside the claim)"""
    h.bounds(BOUNDS_INPLANE, 'batch size 2')
    h.outside('J2Plastic under vmap: lax.cond becomes select and both branches (incl. the root-finding loop) are executed -- not encoded')
    _run_symmetry(h, FINITE_PLAIN + ['hyperviscoelastic', 'phasefield_threshold[large deformations]'], 'left', False, 'symbolic', cap=120, batch=True)


NOTE_EQV = ('isotropy of the spectral models is proved modulo the equivariance f(Q A Q^T) = Q f(A) Q^T of TensorMath.log_symm / pow_symm (instances for every pair of '
            'applications are assumed; contract shared with C12)')
NOTE_ELASTIC = 'J2Plastic in O2: elastic regime assumed (isYielding false at both states); on replay this is checked as compute_state_new leaving eqps unchanged'


@obligation(P, 'O2.isotropy_inplane', cap=500)
def o2_inplane(h):
    """W((H+I) Q^T - I) = W(H) (grad phase -> Q grad phase) for every in-plane rotation; virgin inelastic state"""
    h.bounds(BOUNDS_INPLANE.replace('inelastic state: all 9 (27) entries free, eqps >= 0', 'inelastic state: virgin (identity / zero), which is invariant under the rotation'))
    h.assume_note(NOTE_EQV, NOTE_ELASTIC)
    h.outside('rotated non-virgin internal state (Fp -> Q Fp Q^T): quick tier uses the virgin state only')
    _run_symmetry(h, FINITE_PLAIN + FINITE_STATE + ['multibranch_hyperviscoelastic'], 'right', False, 'virgin', cap=120)


@obligation(P, 'O2.isotropy_SO3', tiers=('thorough',), cap=1200)
def o2_so3(h):
    h.bounds(BOUNDS_SO3 + '; inelastic state virgin')
    h.assume_note(NOTE_EQV, NOTE_ELASTIC)
    _run_symmetry(h, FINITE_PLAIN + FINITE_STATE + ['multibranch_hyperviscoelastic'], 'right', True, 'virgin', cap=400)


# =========================================================================================== O3 Kirchhoff stress
CLOSED_FORM = ['linear_elastic[green lagrange]', 'neohookean[adagio]', 'neohookean[coupled]', 'gent']
NOTE_DET = ('jnp.linalg.det: its custom JVP (pivoted LU, `_cofactor_solve`) is replaced at trace time by the derivative of JAX\'s own closed-form 3x3 primal '
            '(Jacobi\'s formula), equal for non-singular F; replay uses the real JVP')


def _kirchhoff(h, keys, full, cap):
    for key in keys:
        if _skip(h, key):
            continue
        m = model(key)
        _common_notes(h, m, with_tuf=False)
        h.assume_note(NOTE_DET)
        hn = 'H' if full else 'h'

        def body(Hh, mod, m=m):
            mat = m.make(mod)
            W = energy(m, mat, {})
            H = Hh if full else embed(Hh)
            Pk = jax.grad(W)(H)
            return Pk @ (H + jnp.eye(3)).T
        ex = {hn: 0.1 * onp.ones((3, 3) if full else (2, 2)), 'mod': onp.array(m.example)}
        c = mk_case(h, body, ex, lambda rng, m=m: [0.1 * rng.normal(size=(3, 3) if full else (2, 2)), m.sample(rng)],
                    '%s:kirchhoff:%s' % (m.key, '3x3' if full else 'plane'), patch=det_by_closed_form)

        def spec(i, o, m=m):
            asm = [v_lt(0.0, det3(F_of(i)))] + m.admissible(i['mod'])
            return asm, Eq([o[0, 1], o[0, 2], o[1, 2]], [o[1, 0], o[2, 0], o[2, 1]], scale=m.scale(i['mod']))
        _prove(c, m, m.key, spec, cap=cap)


@obligation(P, 'O3.kirchhoff_symmetric_visco_equilibrium', cap=300)
def o3_visco_eq(h):
    """the equilibrium (compressible neo-Hookean) part `_eq_strain_energy` of HyperViscoelastic and of
    MultiBranchHyperViscoelastic, as a function of a fully three-dimensional H (det F > 0) and symbolic props:
    tau = (dW_eq/dH)(H+I)^T is symmetric (jaxpr of jax.grad).  The non-equilibrium branches go through the custom JVP of
    the eigen-decomposition and are not part of this obligation."""
    from optimism.material import HyperViscoelastic, MultiBranchHyperViscoelastic
    h.bounds('H: free 3x3 (9 reals) with det(H+I) > 0; props (K, G, branch moduli and relaxation times): all positive reals')
    h.outside('Kirchhoff symmetry of the full viscoelastic energy (spectral log strain): covered by C10/C12, not here')
    for key, module in (('hyperviscoelastic', HyperViscoelastic), ('multibranch_hyperviscoelastic', MultiBranchHyperViscoelastic)):
        qname = key + '._eq_strain_energy'
        if _skip(h, qname):
            continue
        m = model(key)
        h.encoded(module._eq_strain_energy)
        h.assume_note(NOTE_REALS, NOTE_UF, NOTE_DET)

        def body(H, mod, module=module):
            Pk = jax.grad(lambda Hh: module._eq_strain_energy(Hh, mod))(H)
            return Pk @ (H + jnp.eye(3)).T
        ex = {'H': 0.1 * onp.ones((3, 3)), 'mod': onp.array(m.example)}
        c = mk_case(h, body, ex, lambda rng, m=m: [0.1 * rng.normal(size=(3, 3)), m.sample(rng)], '%s:kirchhoff:3x3' % qname, patch=det_by_closed_form)

        def spec(i, o, m=m):
            asm = [v_lt(0.0, det3(F_of(i)))] + m.admissible(i['mod'])
            return asm, Eq([o[0, 1], o[0, 2], o[1, 2]], [o[1, 0], o[2, 0], o[2, 1]], scale=m.scale(i['mod']))
        _prove(c, m, qname, spec, cap=120)


@obligation(P, 'O3.kirchhoff_symmetric', cap=300)
def o3(h):
    """tau = (dW/dH)(H+I)^T is symmetric for every 3x3 H with det F > 0 (closed-form models; jaxpr of jax.grad(W))"""
    h.bounds('H: free 3x3 (9 reals) with det(H+I) > 0; moduli: all admissible reals')
    h.outside('spectral models (stress through the custom JVP of the eigen-decomposition): covered by C10/C12, not here')
    _kirchhoff(h, CLOSED_FORM, True, cap=120)


# =========================================================================================== O4 reference state
def _pow_zero_axioms(ctx):
    """ground instances of pow(0, y) = 0 for y > 0 and pow(x, 0) = 1 (true of the real pow)"""
    ax = []
    for v, n, a in ctx.ufs.values():
        if n == 'pow':
            ax += [z3.Implies(z3.And(a[0] == 0, a[1] > 0), v == 0), z3.Implies(z3.And(a[0] > 0, a[1] == 0), v == 1)]
    return ax


def _rest_case(h, m, entry='energy'):
    with_dt = m.kind == 'visco' or (m.hardening or '').endswith('rate')
    names = ['mod'] + (['dt'] if with_dt else [])
    ex = dict([('mod', onp.array(m.example))] + ([('dt', onp.asarray(0.1))] if with_dt else []))

    def body(*arrs):
        a = dict(zip(names, arrs))
        mat = m.make(a['mod'])
        aa = dict(a)
        if m.kind == 'pf':
            aa.update(phase=0.0, gphase=jnp.zeros(3))
        W = energy(m, mat, aa, entry)
        Z = jnp.zeros((3, 3))
        return W(Z), jax.grad(W)(Z)

    def sampler(rng):
        return [m.sample(rng)] + ([rng.uniform(0.05, 0.5)] if with_dt else [])

    def spec(i, o):
        mod = i['mod']
        den, numr = m.natural(mod)
        asm = m.admissible(mod) + aux_assumes(m, i)
        tol = v_mul(1e-12, numr)
        sc = m.scale(mod)
        return asm, [Le(v_mul(v_abs(s0(o[0])), den), tol, scale=sc, name='energy' if entry == 'energy' else 'value'),
                     Le([v_mul(v_abs(x), den) for x in o[1].ravel()], tol, scale=sc, name='stress' if entry == 'energy' else 'dH')]
    return names, ex, body, sampler, spec


def _rest(h, keys, cap=60):
    for key in keys:
        key, entry = (key, 'energy') if isinstance(key, str) else key
        qname = key if entry == 'energy' else '%s.%s' % (key, entry)
        if _skip(h, qname):
            continue
        m = model(key)
        _common_notes(h, m, with_tuf=False)
        if entry != 'energy':
            h.encoded('%s.create_material_model_functions -> %s' % (m.enc[0].__module__, ENTRY_ATTR[entry]))
        names, ex, body, sampler, spec = _rest_case(h, m, entry)
        label = '%s:rest' % qname
        try:
            c = mk_case(h, body, ex, sampler, label, cond='uf', patch=None)
            c.prove(qname, spec, cap=cap, axioms=True, extra_assumes=_pow_zero_axioms(c.ctx))
        except ValueError as e:
            if 'non-finite' not in str(e):
                raise
            _nonfinite_direct(h, m, names, ex, body, str(e), entry=entry, qname=qname)


def _nonfinite_direct(h, m, names, ex, body, why, entry='energy', qname=None):
    """the real-arithmetic encoding met a NaN/inf *constant*: the reference-state value computed by the real code from
    concrete arguments is itself non-finite.  Establish it directly on the real (jitted) function at the example moduli."""
    def real(vals):
        with quiet():
            out = jax.jit(body)(*[jnp.asarray(onp.asarray(vals[n], dtype=float)) for n in names])
        return float(out[0]), onp.asarray(out[1])
    qname = qname or m.key
    qn = '%s/%s.finite' % (h.ob, qname)
    if h.replay is not None and h.replay.get('query') == qn:
        W0, P0 = real(h.replay['inputs'])
        bad = not (math.isfinite(W0) and onp.all(onp.isfinite(P0)))
        h.replay_result = dict(status='violated' if bad else 'unreproduced', replay_info=dict(W0=W0, P0=P0.tolist()))
        return
    vals = {n: onp.asarray(ex[n], dtype=float).tolist() for n in names}
    W0, P0 = real(vals)
    bad = not (math.isfinite(W0) and onp.all(onp.isfinite(P0)))
    if not bad:
        raise ValueError('non-finite constant in the encoding but finite values on the real code: ' + why)
    if h.replay is None:
        h.violation('%s.finite' % qname, vals, 'reference state (H = 0, virgin state) of %s: value = %r, d/dH = %s on the real code (must be 0); the encoding stopped at a non-finite constant (%s)'
                    % (qname, W0, onp.array2string(P0, precision=3).replace('\n', ' '), why[:80]))
    # the energy alone (no derivative) is still decided by the solver
    try:
        def bodyW(*arrs):
            a = dict(zip(names, arrs))
            mat = m.make(a['mod'])
            if m.kind == 'pf':
                a.update(phase=0.0, gphase=jnp.zeros(3))
            return energy(m, mat, dict(a), entry)(jnp.zeros((3, 3)))
        c = mk_case(h, bodyW, ex, lambda rng: [m.sample(rng)] + ([rng.uniform(0.05, 0.5)] if 'dt' in names else []), '%s:rest_value' % qname, cond='uf', patch=None)

        def specW(i, o):
            den, numr = m.natural(i['mod'])
            return m.admissible(i['mod']) + aux_assumes(m, i), Le(v_mul(v_abs(s0(o)), den), v_mul(1e-12, numr), scale=m.scale(i['mod']), name='energy' if entry == 'energy' else 'value')
        c.prove(qname, specW, cap=60, axioms=True, extra_assumes=_pow_zero_axioms(c.ctx))
    except ValueError as e:
        if 'non-finite' not in str(e):
            raise


REST_QUICK = (['linear_elastic[linear]', 'linear_elastic[green lagrange]', 'linear_elastic[logarithmic]', 'neohookean[adagio]', 'neohookean[coupled]', 'gent',
               'hyperviscoelastic', 'multibranch_hyperviscoelastic', 'phasefield_threshold[large deformations]', 'phasefield_threshold[small deformations]'])
REST_J2 = ['j2plastic[%s,%s]' % (k, hd) for k in ('large deformations', 'small deformations', 'seth hill') for hd in ('linear', 'voce', 'power law')]
BOUNDS_REST = ('H = 0, virgin internal state, phase = 0, grad phase = 0 (concrete); moduli: all admissible reals (E>0, -1<nu<1/2, K,G,Jm,Gc,l,tau,Y0 > 0, H >= 0, Ysat >= Y0, '
               'eps0, n > 0), dt > 0; goal |W|, |dW/dH_ij| <= 1e-12 * (E/(1+nu) + E/(1-2nu) + other stiffness moduli)')


@obligation(P, 'O4.reference_state', cap=500)
def o4(h):
    """W(0, virgin) = 0 and dW/dH(0, virgin) = 0 for every model and strain-measure option, symbolic moduli; the tensor
    functions and the eigen-solver are executed by the real primitives on their concrete arguments"""
    h.bounds(BOUNDS_REST)
    _rest(h, REST_QUICK)


def _o4_j2(h, kin):
    h.bounds(BOUNDS_REST)
    h.outside('power-law rate sensitivity (dt-dependent kinetic potential): see O4.reference_state_j2_rate')
    _rest(h, [k for k in REST_J2 if k.startswith('j2plastic[%s,' % kin)])


@obligation(P, 'O4.reference_state_j2_large', cap=400)
def o4_j2_large(h):
    """reference state of J2Plastic, kinematics 'large deformations' x hardening (linear, voce, power law); the yield
    switch at rest is decided by the solver (the plastic branch is an uninterpreted function)"""
    _o4_j2(h, 'large deformations')


@obligation(P, 'O4.reference_state_j2_small', cap=400)
def o4_j2_small(h):
    """reference state of J2Plastic, kinematics 'small deformations' x hardening (linear, voce, power law)"""
    _o4_j2(h, 'small deformations')


@obligation(P, 'O4.reference_state_j2_seth_hill', cap=400)
def o4_j2_seth(h):
    """reference state of J2Plastic, kinematics 'seth hill' x hardening (linear, voce, power law)"""
    _o4_j2(h, 'seth hill')


@obligation(P, 'O2.isotropy_inplane_rotated_state', tiers=('thorough',), cap=900)
def o2_state(h):
    """W((H+I) Q^T - I, Q S Q^T) = W(H, S): isotropy with a non-virgin internal state S (Fp, Fv, eps_p) transformed as a
    reference-configuration tensor"""
    h.bounds(BOUNDS_INPLANE)
    h.assume_note(NOTE_EQV, NOTE_ELASTIC)
    h.outside('viscoelastic models with a rotated non-virgin state (see DESIGNED_NOT_REGISTERED)')
    _run_symmetry(h, ['j2plastic[large deformations,linear]'], 'right', False, 'symbolic', cap=300)


@obligation(P, 'O4.reference_state_j2_rate', cap=600)
def o4_j2_rate(h):
    """reference state of J2Plastic with the power-law rate sensitivity (kinetic potential), all dt > 0"""
    h.bounds(BOUNDS_REST + '; rate sensitivity stress S > 0, exponent m > 0, reference rate > 0')
    h.assume_note('ground instances of pow(0, y) = 0 for y > 0 and pow(x, 0) = 1 for the pow terms that occur')
    _rest(h, ['j2plastic[%s,linear,rate]' % k for k in ('large deformations', 'small deformations', 'seth hill')], cap=120)


# =========================================================================================== O5 every energy-like entry point
# compute_energy_density is covered by O1-O4; the namedtuples returned by the constructors expose further energy
# DENSITIES (ENTRY_POINTS; only the phase-field model has any).  They get the same objectivity / isotropy / rest-state
# obligations, plus the decomposition identity between the four phase-field densities.  compute_material_qoi (a
# dissipation, not an energy density) is outside the property: see DESIGNED_NOT_REGISTERED.
PF_L, PF_S = 'phasefield_threshold[large deformations]', 'phasefield_threshold[small deformations]'
EXTRA_FINITE = [(PF_L, e) for e in ENTRY_POINTS['pf']]
BOUNDS_ENTRY = ('rotations about each coordinate axis (z in-plane, x, y); entry points: PhaseFieldThreshold compute_output_energy_density / compute_strain_energy_density / compute_phase_potential_density / compute_state_new[0] '
                '(the stored strain energy density); the MaterialModel tuples of the other modules expose no energy density besides compute_energy_density; ')


EXTRA_PF = EXTRA_FINITE

@obligation(P, 'O5.entry_points_objectivity_phasefield', cap=500)
def o5_objectivity_pf(h):
    """f(Q(H+I) - I) = f(H) for the further energy densities of PhaseFieldThreshold (output, strain energy, phase potential,
    state_new[0]): free 3x3 H with det F > 0 (contains the plane-strain block form), every in-plane rotation, symbolic
    moduli, phase, grad phase"""
    h.bounds(BOUNDS_ENTRY + BOUNDS_3X3)
    for ax in ('z', 'x', 'y'):
        _run_symmetry(h, EXTRA_PF, 'left', True, 'symbolic', cap=120, quat=False, axis=ax)


@obligation(P, 'O5.entry_points_isotropy', cap=500)
def o5_isotropy(h):
    """f((H+I) Q^T - I) = f(H) (grad phase -> Q grad phase; virgin viscous state) for the same entry points"""
    h.bounds(BOUNDS_ENTRY + BOUNDS_3X3.replace('inelastic state: all 9 (27) entries free, eqps >= 0', 'inelastic state: virgin'))
    h.assume_note(NOTE_EQV)
    for ax in ('z', 'x', 'y'):
        _run_symmetry(h, EXTRA_FINITE, 'right', True, 'virgin', cap=120, quat=False, axis=ax)


@obligation(P, 'O5.entry_points_objectivity_SO3', tiers=('thorough',), cap=1200)
def o5_objectivity_so3(h):
    """objectivity of the further entry points for every rotation of SO(3) (unit quaternion)"""
    h.bounds(BOUNDS_ENTRY + BOUNDS_SO3)
    _run_symmetry(h, EXTRA_FINITE, 'left', True, 'symbolic', cap=400)


@obligation(P, 'O5.entry_points_isotropy_SO3', tiers=('thorough',), cap=1200)
def o5_isotropy_so3(h):
    """isotropy of the further entry points for every rotation of SO(3)"""
    h.bounds(BOUNDS_ENTRY + BOUNDS_SO3 + '; inelastic state virgin')
    h.assume_note(NOTE_EQV)
    _run_symmetry(h, EXTRA_FINITE, 'right', True, 'virgin', cap=400)


@obligation(P, 'O5.entry_points_rest_phasefield_large', cap=500)
def o5_rest_pf_l(h):
    """value = 0 and d/dH = 0 at H = 0, virgin state, phase = 0, grad phase = 0 for the further entry points (PhaseFieldThreshold, large deformations),
    symbolic moduli, real tensor code constant-folded"""
    h.bounds(BOUNDS_ENTRY + BOUNDS_REST)
    _rest(h, [(PF_L, e) for e in ENTRY_POINTS['pf']])


@obligation(P, 'O5.entry_points_rest_phasefield_small', cap=500)
def o5_rest_pf_s(h):
    """value = 0 and d/dH = 0 at H = 0, virgin state, phase = 0, grad phase = 0 for the further entry points (PhaseFieldThreshold, small deformations),
    symbolic moduli, real tensor code constant-folded"""
    h.bounds(BOUNDS_ENTRY + BOUNDS_REST)
    _rest(h, [(PF_S, e) for e in ENTRY_POINTS['pf']])


@obligation(P, 'O5.phasefield_decomposition', cap=300)
def o5_decomposition(h):
    """PhaseFieldThreshold, both kinematics options: for every H (free 3x3, det F > 0), phase in [0,1], grad phase and
    admissible moduli   compute_energy_density = compute_strain_energy_density + compute_phase_potential_density,
    compute_output_energy_density = compute_energy_density,  compute_state_new[0] = compute_strain_energy_density.
    (As coded: energy_density(strain, phase, grad) = strain_energy_density(strain, phase) + phase_potential_density(phase, grad)
    with strain = the kinematics-selected strain of H; every closure must use that same strain.)  The spectral log strain
    is an uninterpreted tensor function, so what is proved is that all closures pass the *same* argument to it."""
    h.bounds('H: free 3x3 (9 reals), det(H+I) > 0; phase in [0,1]; grad phase: all of R^3; E > 0, -1 < nu < 1/2, Gc > 0, l > 0: all reals')
    for key in (PF_L, PF_S):
        if _skip(h, key):
            continue
        m = model(key)
        _common_notes(h, m)
        names = ['H', 'mod', 'phase', 'gphase']

        def body(H, mod, phase, gphase, m=m):
            mat = m.make(mod)
            a = dict(phase=phase, gphase=gphase)
            return tuple(energy(m, mat, a, e)(H) for e in ['energy'] + ENTRY_POINTS['pf'])
        ex = dict(H=0.1 * onp.ones((3, 3)), mod=onp.array(m.example), phase=onp.asarray(0.2), gphase=onp.array([0.3, -0.2, 0.1]))
        c = mk_case(h, body, ex, lambda rng, m=m: [0.1 * rng.normal(size=(3, 3)), m.sample(rng), rng.uniform(0.0, 0.9), rng.normal(size=3)], '%s:decomposition' % m.key)

        def spec(i, o, m=m):
            tot, outp, strn, pot, stn = [s0(x) for x in o]
            asm = [v_lt(0.0, det3(F_of(i)))] + m.admissible(i['mod']) + aux_assumes(m, i)
            sc = v_add(m.scale(i['mod']), v_abs(i['mod'][2]))
            return asm, [Eq(tot, v_add(strn, pot), scale=sc, name='total_eq_strain_plus_phase_potential'),
                         Eq(outp, tot, scale=sc, name='output_eq_total'),
                         Eq(stn, strn, scale=sc, name='state_new_eq_strain_energy')]
        _prove(c, m, m.key, spec, cap=120)
