"""C08 — elastic energies are objective, isotropic and stress-free at rest (JX).

Every obligation re-traces the energy closures returned by the material constructors of /repo with the *moduli as
traced arguments* and decides the claim with z3 over all real inputs in the stated box.

Abstractions (all recorded with h.assume_note in the obligations that use them)
* scalar log / log1p / pow are Ackermannised uninterpreted functions (vf.jx);
* TensorMath.log_symm / pow_symm / exp_symm / sqrt_symm and jax.scipy.linalg.expm are replaced *at trace time* (module
  attribute patched while the jaxpr is made, restored afterwards; replay and translator validation run the unpatched
  code) by the primitive `vf_tensor_uf`: an uninterpreted symmetric-tensor-valued function of all nine entries of its
  argument (congruence only).  O1 therefore decides "the energy depends on F only through F^T F, det F and the state";
* O2 for spectral models additionally assumes the equivariance instance f(Q A Q^T) = Q f(A) Q^T of those functions;
* the plastic update (the lax.cond branch that contains the root-finding loop) is, for O1 and O4, an uninterpreted
  function of its operands (so O1 covers the yielding regime as well); for O2 the elastic regime is assumed;
* O4 is evaluated on the unpatched code: all tensor functions see concrete arguments and are executed by the real
  primitives (constant folding), the result is affine in the moduli.
"""
import contextlib
import io
import math
import numpy as onp
import z3
import jax
import jax.numpy as jnp
from jax import core as jcore

from ..core import obligation
from ..jxh import Case
from .. import jx, sym
from ..sym import Le, Eq, v_abs, v_lt, v_le, v_sub, v_add, v_mul, v_sq, v_sum

P = 'C08'
I3 = onp.eye(3)
DESIGNED_NOT_REGISTERED = []


def s0(a):
    return a[()] if hasattr(a, 'shape') and a.shape == () else a


# =========================================================================================== tensor UF primitive
tuf_p = jcore.Primitive('vf_tensor_uf')
_ORIG = {}          # name -> the real function of /repo (filled by stubs())
_SYMMETRIC = {}     # name -> outputs symmetric


def _tuf_impl(x, *, name, extra):
    return _ORIG[name](x, *extra)


tuf_p.def_impl(_tuf_impl)
tuf_p.def_abstract_eval(lambda x, name, extra: jcore.ShapedArray(x.shape, x.dtype))


def _tuf_batch(args, dims, name, extra):
    x = jnp.moveaxis(args[0], dims[0], 0)
    return jnp.stack([tuf_p.bind(x[k], name=name, extra=extra) for k in range(x.shape[0])]), 0


jax.interpreters.batching.primitive_batchers[tuf_p] = _tuf_batch


def _try_merge(ctx, name, new_args, candidates):
    """cut lemma on the fly.  candidates: [(args, payload)] of earlier applications of the same uninterpreted function.
    If the new arguments are *proved* equal to a candidate's (unsat of base assumptions + side conditions + 'some
    argument differs'), return its payload (sound by congruence), else None.  A numeric evaluation at one rational
    point of the input space is used only to skip hopeless candidates."""
    merge = getattr(ctx, 'c08_merge', None)
    if merge is None:
        return None
    import time as _t
    for args1, payload in candidates:
        pairs = [(sym.toz(p), sym.toz(q)) for p, q in zip(new_args, args1)]
        if all(p.get_id() == q.get_id() for p, q in pairs):
            return payload
        differs = False
        for p, q in pairs:
            d = z3.simplify(z3.substitute(p - q, *merge['point']))
            if z3.is_rational_value(d) and d.numerator_as_long() != 0:
                differs = True
                break
        if differs:
            continue
        neq = z3.Or(*[p != q for p, q in pairs])
        t0 = _t.time()
        st = sym.solve(list(merge['base']) + list(ctx.side) + ctx.nonzero_denoms() + [neq], merge.get('cap', 20), order=('core', 'nlsat'))
        merge['log'].append((name, st[0], round(_t.time() - t0, 3)))
        if st[0] == 'unsat':
            merge['lemmas'].append((name, [p for p, _ in pairs], [q for _, q in pairs]))
            return payload
    return None


def _tuf_eval(ctx, eqn, iv):
    name, extra = eqn.params['name'], eqn.params['extra']
    x = iv[0]
    if x.shape != (3, 3):
        raise jx.JXError('vf_tensor_uf expects a 3x3 argument')
    if ctx.ground:
        vals = [jx.ground_num(ctx, sym.toz(v)) for v in x.ravel()]
        if any(v is None for v in vals):
            raise jx.JXError('vf_tensor_uf: ground argument did not reduce')
        r = onp.asarray(_ORIG[name](jnp.asarray(onp.array([float(v) for v in vals]).reshape(3, 3)), *extra))
        return jx.ew(lambda v: sym.rat(v), r)
    keys = tuple(jx.term_key(v) for v in x.ravel())
    key = ('tuf', name, extra) + keys
    if key in ctx.cache:
        return ctx.cache[key]
    if not hasattr(ctx, 'c08_apps'):
        ctx.c08_apps = []
    hit = _try_merge(ctx, name, list(x.ravel()), [(list(x1.ravel()), o1) for (n1, e1, x1, o1) in ctx.c08_apps if n1 == name and e1 == extra])
    if hit is not None:
        ctx.cache[key] = hit
        return hit
    args = [sym.toz(v) for v in x.ravel()]
    out = onp.empty((3, 3), dtype=object)
    for i in range(3):
        for j in range(3):
            if _SYMMETRIC.get(name, True) and j < i:
                out[i, j] = out[j, i]
                continue
            v = ctx.fresh('%s_%d%d' % (name, i, j))
            # one scalar UF per output entry, keyed on ALL nine argument entries: jx.ackermann adds the congruence
            ctx.ufs[('tuf', name, extra, i, j) + keys] = (v, 'tuf:%s:%s:%d%d' % (name, extra, i, j), args)
            out[i, j] = v
    ctx.cache[key] = out
    ctx.c08_apps.append((name, extra, x, out))
    return out


def _scalar_uf_hook(name):
    """log / log1p / pow as in vf.jx (Ackermannised UFs), plus merging of applications with proved-equal arguments"""
    default = jx.ELEMENTWISE[name]

    def hook(ctx, eqn, iv):
        if getattr(ctx, 'c08_merge', None) is None or ctx.ground:
            return NotImplemented

        def f(*a):
            if all(sym.num(x) for x in a):
                return jx.sym_uf(ctx, name, list(a))
            if name == 'pow' and sym.num(a[1]) and ((float(a[1]).is_integer() and abs(a[1]) <= 8) or a[1] == 0.5):
                return jx.ew(lambda p, q: p, *default(ctx, eqn.params, [jx.lift(a[0]), jx.lift(a[1])]), 0.0)[()]
            k = (name,) + tuple(jx.term_key(x) for x in a)
            if k in ctx.ufs:
                return ctx.ufs[k][0]
            cands = [(a1, v1) for (v1, n1, a1) in ctx.ufs.values() if n1 == name and len(a1) == len(a)]
            hit = _try_merge(ctx, name, list(a), cands)
            if hit is not None:
                return hit
            return jx.sym_uf(ctx, name, list(a))
        return jx.ew(f, *iv)
    return hook


jx.OTHER['vf_tensor_uf'] = _tuf_eval


def _stub(name):
    def f(A, *extra):
        return tuf_p.bind(jnp.asarray(A), name=name, extra=tuple(float(e) for e in extra))
    f.__name__ = 'stub_' + name
    return f


@contextlib.contextmanager
def stubs():
    """patch the spectral tensor functions by uninterpreted tensor functions while a jaxpr is being made"""
    from optimism import TensorMath
    import jax.scipy.linalg as jsl
    targets = [(TensorMath, n, True) for n in ('log_symm', 'pow_symm', 'exp_symm', 'sqrt_symm')] + [(jsl, 'expm', False)]
    saved = []
    for mod, n, symm in targets:
        f = getattr(mod, n)
        saved.append((mod, n, f))
        _ORIG.setdefault(n, f)
        _SYMMETRIC[n] = symm
        setattr(mod, n, _stub(n))
    try:
        yield
    finally:
        for mod, n, f in saved:
            setattr(mod, n, f)


@contextlib.contextmanager
def det_by_closed_form():
    """jnp.linalg.det carries a custom JVP that runs a pivoted LU (`_cofactor_solve`); for symbolic F this is replaced
    by the derivative of JAX's own closed-form 3x3 primal (Jacobi's formula) -- contract of a library call"""
    import jax.numpy.linalg as jl
    from jax._src.numpy import linalg as _l
    saved = jl.det

    def det3(a):
        a = jnp.asarray(a)
        if a.shape != (3, 3):
            return saved(a)
        return _l._det_3x3(a)
    jl.det = det3
    try:
        yield
    finally:
        jl.det = saved


@contextlib.contextmanager
def quiet():
    with contextlib.redirect_stdout(io.StringIO()):
        yield


# =========================================================================================== JX hooks (local)
def _div_hook(ctx, eqn, iv):
    """x / d with symbolic d -> x * r_d with ONE reciprocal variable per distinct denominator term (d != 0 -> r_d*d = 1);
    exact under the recorded assumption that denominators are non-zero; makes repeated divisions by dt, tau, det, ...
    share a variable (visco objectivity: 25 s -> 4 s)"""
    def d(a, b):
        if sym.num(b):
            if sym.num(a):
                if b == 0:
                    return float('nan') if a == 0 else math.copysign(float('inf'), a)
                return a / b
            if b == 1:
                return a
            return sym.toz(a) / sym.toz(b)
        ctx.denoms.append((ctx.guard(), b))
        if sym.num(a) and a == 0:
            return 0.0
        key = ('c08recip', b.get_id())
        if key not in ctx.cache:
            r = ctx.fresh('recip')
            ctx.side.append(z3.Implies(b != 0, r * b == 1))
            ctx.cache[key] = r
        return jx.s_mul(a, ctx.cache[key])
    return jx.ew(d, *iv)


def _cls_hook(ctx, eqn, iv):
    """custom_linear_solve: all-concrete -> real primitive; otherwise the relational encoding of vf.jx, hash-consed on
    the *text* of the matvec jaxpr so that two traces of the same call site share their unknowns"""
    if jx.all_concrete(iv):
        return jx.concrete_bind(eqn, iv)
    key = ('c08cls', str(eqn.params['jaxprs'].matvec.jaxpr)) + tuple(jx.term_key(x) for v in iv for x in v.ravel() if x is not jx.POISON)
    if key not in ctx.cache:
        ctx.cache[key] = jx.do_linear_solve(ctx, eqn, iv)
    return ctx.cache[key]


def _linear_in(which):
    """a primitive that is linear in operand `which` when all other operands are concrete: T(b) = sum_k b_k T(e_k),
    T(e_k) computed by the real primitive (used for triangular_solve in the transposed JVP of jnp.linalg.det at F = I)"""
    def f(ctx, eqn, iv):
        others = [v for k, v in enumerate(iv) if k != which]
        if not jx.all_concrete(others):
            raise jx.JXError('%s with a symbolic matrix' % eqn.primitive.name)
        b = iv[which]
        bf = b.reshape(-1)
        out = None
        for k in range(bf.size):
            if sym.num(bf[k]) and bf[k] == 0:
                continue
            e = onp.zeros(bf.size)
            e[k] = 1.0
            args = list(iv)
            args[which] = jx.lift(e.reshape(b.shape))
            t = jx.concrete_bind(eqn, args)
            term = jx.ew(lambda c, k=k: jx.s_mul(c, bf[k]), t)
            out = term if out is None else jx.ew(jx.s_add, out, term)
        if out is None:
            out = jx.lift(onp.zeros(eqn.outvars[0].aval.shape))
        return out
    return f


jx.OTHER.setdefault('triangular_solve', _linear_in(1))


def _cond_hook(mode):
    """the yield switch of J2Plastic (a 2-branch lax.cond one of whose branches contains the root-finding while loop,
    and every later cond on the same predicate, i.e. its transposed twin in jax.grad).
    mode 'uf':      result = ite(not yielding, <real elastic branch>, U(operands)) with U uninterpreted (congruence);
    mode 'elastic': the elastic branch is taken and `not yielding` is recorded in ctx.c08_elastic (to be assumed)."""
    def hook(ctx, eqn, iv):
        brs = eqn.params['branches']
        i = iv[0].reshape(-1)[0]
        if len(brs) != 2 or not sym.isz(i):
            return NotImplemented
        seen = ctx.__dict__.setdefault('c08_yield_idx', {})
        if i.get_id() not in seen and not any(jx.find_eqns(b.jaxpr, 'while') for b in brs):
            return NotImplemented
        seen[i.get_id()] = i
        ops = iv[1:]
        elastic = (sym.toz(i) == 0)
        ctx.guards.append(elastic)
        try:
            out0 = jx.eval_jaxpr(ctx, brs[0].jaxpr, brs[0].consts, *ops)
        finally:
            ctx.guards.pop()
        if mode == 'elastic':
            g = ctx.guard()
            ctx.__dict__.setdefault('c08_elastic', []).append(z3.Implies(g, elastic) if g is not None else elastic)
            return out0
        sig = 'plastic_update<%s>' % (','.join(str(v.aval) for v in eqn.outvars))
        flat_ops = [x for v in ops for x in v.ravel() if x is not jx.POISON]
        keys = tuple(jx.term_key(x) for x in flat_ops)
        args = [sym.toz_any(x) for x in flat_ops]
        ckey = ('c08pu', sig) + keys
        if ckey not in ctx.cache:
            outs1 = []
            for n_, v in enumerate(eqn.outvars):
                srt = 'B' if onp.dtype(v.aval.dtype) == onp.bool_ else 'R'
                o = onp.empty(v.aval.shape, dtype=object)
                of = o.reshape(-1)
                for k in range(of.size):
                    fv = ctx.fresh('pu%d_%d' % (n_, k), srt)
                    ctx.ufs[('c08pu', sig, n_, k) + keys] = (fv, '%s:%d:%d' % (sig, n_, k), args)
                    of[k] = fv
                outs1.append(o)
            ctx.cache[ckey] = outs1
        outs1 = ctx.cache[ckey]
        return [jx.ew(lambda a, b: sym.v_if(elastic, a, b), a0, a1) for a0, a1 in zip(out0, outs1)]
    return hook


def _hooks(ctx, cond='uf'):
    ctx.hooks['div'] = _div_hook
    ctx.hooks['custom_linear_solve'] = _cls_hook
    ctx.hooks['cond'] = _cond_hook(cond)
    for n in ('log', 'log1p', 'pow', 'exp', 'expm1'):
        ctx.hooks[n] = _scalar_uf_hook(n)
    return ctx


# =========================================================================================== dual (z3 / float) helpers
def approx_eq(a, b, tol=1e-9):
    """equality hypothesis: exact for the solver, within rounding of the model values when re-evaluated on floats"""
    if sym.num(a) and sym.num(b):
        return abs(float(a) - float(b)) <= tol * (1.0 + abs(float(a)) + abs(float(b)))
    return sym.toz(a) == sym.toz(b)


def det3(A):
    t = lambda i, j, k: v_mul(A[0][i], v_mul(A[1][j], A[2][k]))
    return v_sub(v_sum([t(0, 1, 2), t(1, 2, 0), t(2, 0, 1)]), v_sum([t(0, 2, 1), t(1, 0, 2), t(2, 1, 0)]))


def F_of(i):
    """deformation gradient (3x3 nested list of dual numbers) from the inputs of a case"""
    if 'h' in i:
        h = i['h']
        return [[v_add(1.0, h[0, 0]), h[0, 1], 0.0], [h[1, 0], v_add(1.0, h[1, 1]), 0.0], [0.0, 0.0, 1.0]]
    H = i['H']
    return [[v_add(1.0 if a == b else 0.0, H[a, b]) for b in range(3)] for a in range(3)]


def rot_ok(r):
    return approx_eq(v_sum([v_sq(x) for x in r]), 1.0)


# ---- rotations (jnp for tracing; the same formulas on object arrays for the equivariance axioms)
def rot_matrix(r, xp=jnp):
    if r.shape == (2,):
        c, s = r[0], r[1]
        rows = [[c, -s, 0.0], [s, c, 0.0], [0.0, 0.0, 1.0]]
    else:
        a, b, c, d = r[0], r[1], r[2], r[3]
        rows = [[a * a + b * b - c * c - d * d, 2 * (b * c - a * d), 2 * (b * d + a * c)],
                [2 * (b * c + a * d), a * a - b * b + c * c - d * d, 2 * (c * d - a * b)],
                [2 * (b * d - a * c), 2 * (c * d + a * b), a * a - b * b - c * c + d * d]]
    if xp is jnp:
        return jnp.array(rows)
    o = onp.empty((3, 3), dtype=object)
    for i in range(3):
        for j in range(3):
            o[i, j] = rows[i][j]
    return o


def embed(h):
    return jnp.zeros((3, 3)).at[0:2, 0:2].set(h)


def omatmul(A, B):
    o = onp.empty((A.shape[0], B.shape[1]), dtype=object)
    for i in range(A.shape[0]):
        for j in range(B.shape[1]):
            o[i, j] = jx.s_sum([jx.s_mul(A[i, k], B[k, j]) for k in range(A.shape[1])])
    return o


# =========================================================================================== model registry
class Model:
    def __init__(self, key, modnames, example, admissible, make, kind, finite, spectral, closed, enc, sample, natural,
                 hardening=None):
        self.key, self.modnames, self.example, self.admissible, self.make = key, modnames, example, admissible, make
        self.kind, self.finite, self.spectral, self.closed, self.enc, self.sample, self.natural = kind, finite, spectral, closed, enc, sample, natural
        self.hardening = hardening

    def scale(self, m):
        """a positive modulus scale (dual) for margins and float tolerances"""
        return v_sum([v_abs(m[k]) for k in self.scale_idx])


def _adm_E_nu(m):
    return [v_lt(0.0, m[0]), v_lt(-1.0, m[1]), v_lt(m[1], 0.5)]


def _nat_E_nu(m, extra=()):
    """(den, num) with den > 0 and num/den >= mu + kappa + sum(extra): the natural stiffness scale of an (E, nu) model"""
    den = v_mul(v_add(1.0, m[1]), v_sub(1.0, v_mul(2.0, m[1])))
    num = v_mul(m[0], v_sub(2.0, m[1]))
    for e in extra:
        num = v_add(num, v_mul(e, den))
    return den, num


def _models():
    from optimism.material import LinearElastic, Neohookean, Gent, J2Plastic, HyperViscoelastic, MultiBranchHyperViscoelastic, Hardening
    from optimism.phasefield import PhaseFieldThreshold
    from optimism import TensorMath
    out = []
    s_Enu = lambda rng: [rng.uniform(1.0, 10.0), rng.uniform(0.05, 0.45)]
    for sm, fin, spec_, enc in (('linear', False, False, [LinearElastic.linear_strain]),
                                ('green lagrange', True, False, [LinearElastic.green_lagrange_strain]),
                                ('logarithmic', True, True, [LinearElastic.log_strain, TensorMath.log_sqrt_symm, TensorMath.detpIm1])):
        out.append(Model('linear_elastic[%s]' % sm, ['E', 'nu'], [3.0, 0.3], _adm_E_nu,
                         lambda m, sm=sm: LinearElastic.create_material_model_functions({'elastic modulus': m[0], 'poisson ratio': m[1], 'strain measure': sm}),
                         'plain', fin, spec_, not spec_, [LinearElastic.create_material_model_functions, LinearElastic._make_properties, LinearElastic._linear_elastic_energy_density] + enc,
                         s_Enu, _nat_E_nu))
    for ver, f in (('adagio', Neohookean._adagio_neohookean), ('coupled', Neohookean._neohookean_3D_energy_density)):
        out.append(Model('neohookean[%s]' % ver, ['E', 'nu'], [3.0, 0.3], _adm_E_nu,
                         lambda m, ver=ver: Neohookean.create_material_model_functions({'elastic modulus': m[0], 'poisson ratio': m[1], 'version': ver}),
                         'plain', True, False, True, [Neohookean.create_material_model_functions, Neohookean._make_properties, f], s_Enu, _nat_E_nu))
    out.append(Model('gent', ['K', 'G', 'Jm'], [5.0, 1.0, 3.0], lambda m: [v_lt(0.0, m[0]), v_lt(0.0, m[1]), v_lt(0.0, m[2])],
                     lambda m: Gent.create_material_functions({'bulk modulus': m[0], 'shear modulus': m[1], 'Jm parameter': m[2]}),
                     'plain', True, False, True, [Gent.create_material_functions, Gent._gent_3D_energy_density],
                     lambda rng: [rng.uniform(2.0, 10.0), rng.uniform(0.5, 2.0), rng.uniform(2.0, 5.0)],
                     lambda m: (1.0, v_add(m[0], m[1]))))

    def j2(kin, hard):
        names = ['E', 'nu', 'Y0']
        ex = [3.0, 0.3, 9.0]
        hp = {'linear': (['Hm'], [0.5], {'hardening modulus': 3}),
              'voce': (['Ysat', 'eps0'], [12.0, 0.1], {'saturation strength': 3, 'reference plastic strain': 4}),
              'power law': (['n', 'eps0'], [3.0, 0.1], {'hardening exponent': 3, 'reference plastic strain': 4})}[hard]
        names, ex = names + hp[0], ex + hp[1]

        def make(m):
            p = {'elastic modulus': m[0], 'poisson ratio': m[1], 'yield strength': m[2], 'hardening model': hard, 'kinematics': kin}
            for k, idx in hp[2].items():
                p[k] = m[idx]
            return J2Plastic.create_material_model_functions(p)

        def adm(m):
            a = _adm_E_nu(m) + [v_lt(0.0, m[2])]
            if hard == 'linear':
                a.append(v_le(0.0, m[3]))
            elif hard == 'voce':
                a += [v_le(m[2], m[3]), v_lt(0.0, m[4])]
            else:
                a += [v_lt(0.0, m[3]), v_lt(0.0, m[4])]
            return a

        def sample(rng):
            E = rng.uniform(1.0, 10.0)
            base = [E, rng.uniform(0.05, 0.45), E * rng.uniform(3.0, 5.0)]
            if hard == 'linear':
                return base + [rng.uniform(0.0, 1.0)]
            if hard == 'voce':
                return base + [base[2] * rng.uniform(1.1, 2.0), rng.uniform(0.05, 0.5)]
            return base + [rng.uniform(2.0, 5.0), rng.uniform(0.05, 0.5)]
        strain = {'large deformations': J2Plastic.compute_elastic_logarithmic_strain, 'small deformations': J2Plastic.compute_elastic_linear_strain,
                  'seth hill': J2Plastic.compute_elastic_seth_hill_strain}[kin]
        hf = {'linear': Hardening.linear, 'voce': Hardening.voce, 'power law': Hardening.power_law}[hard]
        return Model('j2plastic[%s,%s]' % (kin, hard), names, ex, adm, make, 'j2', kin != 'small deformations', kin != 'small deformations', False,
                     [J2Plastic.create_material_model_functions, J2Plastic.make_properties, strain, J2Plastic._energy_density, J2Plastic.compute_state_increment,
                      J2Plastic.compute_flow_direction, J2Plastic.elastic_free_energy, Hardening.create_hardening_model, hf],
                     sample, lambda m: _nat_E_nu(m, extra=[v_abs(x) for x in m[2:4]]), hardening=hard)
    for kin in ('large deformations', 'small deformations', 'seth hill'):
        for hard in ('linear', 'voce', 'power law'):
            out.append(j2(kin, hard))
    out.append(Model('hyperviscoelastic', ['K', 'G', 'Gneq', 'tau'], [5.0, 1.0, 0.7, 0.4], lambda m: [v_lt(0.0, x) for x in m],
                     lambda m: HyperViscoelastic.create_material_model_functions({'equilibrium bulk modulus': m[0], 'equilibrium shear modulus': m[1],
                                                                                  'non equilibrium shear modulus': m[2], 'relaxation time': m[3]}),
                     'visco', True, True, False, [HyperViscoelastic.create_material_model_functions, HyperViscoelastic._energy_density, HyperViscoelastic._eq_strain_energy,
                                                  HyperViscoelastic._neq_strain_energy, HyperViscoelastic._dissipation_potential, HyperViscoelastic._compute_state_increment,
                                                  HyperViscoelastic._compute_elastic_logarithmic_strain],
                     lambda rng: [rng.uniform(2.0, 10.0), rng.uniform(0.5, 2.0), rng.uniform(0.2, 2.0), rng.uniform(0.1, 1.0)],
                     lambda m: (1.0, v_sum([m[0], m[1], m[2]]))))
    MB = MultiBranchHyperViscoelastic
    out.append(Model('multibranch_hyperviscoelastic', ['K', 'G', 'G1', 'tau1', 'G2', 'tau2', 'G3', 'tau3'], [5.0, 1.0, 0.7, 0.4, 0.5, 1.0, 0.3, 5.0],
                     lambda m: [v_lt(0.0, x) for x in m],
                     lambda m: MB.create_material_model_functions(dict([('equilibrium bulk modulus', m[0]), ('equilibrium shear modulus', m[1])] +
                                                                       [('non equilibrium shear modulus %d' % (n + 1), m[2 + 2 * n]) for n in range(3)] +
                                                                       [('relaxation time %d' % (n + 1), m[3 + 2 * n]) for n in range(3)])),
                     'visco', True, True, False, [MB.create_material_model_functions, MB._energy_density, MB._eq_strain_energy, MB._neq_strain_energy, MB._dissipation_potential,
                                                  MB._compute_state_increment, MB._compute_elastic_logarithmic_strain, MB._return_state_for_branch],
                     lambda rng: [rng.uniform(2.0, 10.0), rng.uniform(0.5, 2.0)] + [f(rng) for _ in range(3) for f in (lambda r: r.uniform(0.2, 2.0), lambda r: r.uniform(0.1, 1.0))],
                     lambda m: (1.0, v_sum([m[0], m[1], m[2], m[4], m[6]]))))
    PF = PhaseFieldThreshold
    for kin, fin in (('large deformations', True), ('small deformations', False)):
        out.append(Model('phasefield_threshold[%s]' % kin, ['E', 'nu', 'Gc', 'l'], [3.0, 0.3, 0.2, 0.1],
                         lambda m: _adm_E_nu(m) + [v_lt(0.0, m[2]), v_lt(0.0, m[3])],
                         lambda m, kin=kin: PF.create_material_model_functions({'elastic modulus': m[0], 'poisson ratio': m[1], 'critical energy release rate': m[2],
                                                                                'regularization length': m[3], 'kinematics': kin}),
                         'pf', fin, fin, False, [PF.create_material_model_functions, PF.make_properties, PF.energy_density, PF.strain_energy_density, PF.phase_potential_density,
                                                 PF.compute_logarithmic_strain if fin else PF.compute_linear_strain],
                         lambda rng: [rng.uniform(1.0, 10.0), rng.uniform(0.05, 0.45), rng.uniform(0.1, 1.0), rng.uniform(0.05, 0.5)],
                         _nat_E_nu))
    for m in out:
        m.scale_idx = {'plain': [0], 'j2': [0, 2], 'visco': [0, 1], 'pf': [0]}[m.kind] if m.key != 'gent' else [0, 1]
    return out


def model(key):
    return [m for m in _models() if m.key == key][0]


# ---- auxiliary (non-modulus) arguments of the energy per model kind
def aux_spec(m, mat, state='symbolic'):
    """ordered [(name, example array)] of the symbolic auxiliary inputs"""
    with quiet():
        st0 = onp.asarray(mat.compute_initial_state(), dtype=float)
    a = []
    if m.kind in ('j2', 'visco') and state == 'symbolic':
        a.append(('state', st0))
    if m.kind == 'visco':
        a.append(('dt', onp.asarray(0.1)))
    if m.kind == 'pf':
        a += [('phase', onp.asarray(0.2)), ('gphase', onp.array([0.3, -0.2, 0.1]))]
    return a


def aux_assumes(m, i):
    a = []
    if 'dt' in i:
        a.append(v_lt(0.0, s0(i['dt'])))
    if 'phase' in i:
        a += [v_le(0.0, s0(i['phase'])), v_le(s0(i['phase']), 1.0)]
    if m.kind == 'j2' and 'state' in i:
        a.append(v_le(0.0, i['state'][0]))
    return a


def aux_sample(m, names, st0, rng):
    out = []
    for n in names:
        if n == 'state':
            s = st0 + 0.05 * rng.normal(size=st0.shape)
            if m.kind == 'j2':
                s[0] = abs(s[0])
            out.append(s)
        elif n == 'dt':
            out.append(rng.uniform(0.05, 0.5))
        elif n == 'phase':
            out.append(rng.uniform(0.0, 0.9))
        elif n == 'gphase':
            out.append(rng.normal(size=3))
    return out


def energy(m, mat, a):
    """W(H) for the auxiliary values in dict a (missing state -> virgin state of the model)"""
    st = a['state'] if 'state' in a else mat.compute_initial_state()
    if m.kind == 'plain':
        return lambda H: mat.compute_energy_density(H, st, 0.0)
    if m.kind == 'j2':
        return lambda H: mat.compute_energy_density(H, st, 1.0)
    if m.kind == 'visco':
        return lambda H: mat.compute_energy_density(H, st, a['dt'])
    if m.kind == 'pf':
        return lambda H: mat.compute_energy_density(H, a['phase'], a['gphase'], st, 0.0)
    raise ValueError(m.kind)


class _Switch:
    patch = None      # context-manager factory applied while the jaxpr is traced


def _validate(fn, cj, sampler, seed, n, rtol=1e-8):
    """translator validation (as vf.jx.validate: the traced jaxpr is run by JX on ground numerals and compared with the
    real function), with a conditioning-aware tolerance: JX forms intermediate values exactly and rounds them once
    before a real tensor function is called, the real code rounds after every operation; where the real function is
    itself ill-conditioned (it amplifies 1-ulp input perturbations) the comparison allows 100x that amplification."""
    rng = onp.random.default_rng(seed)
    worst, slack_used = 0.0, 0
    for k in range(n):
        args = [onp.asarray(a, dtype=float) for a in sampler(rng)]
        call = lambda aa: [onp.asarray(r, dtype=float) for r in jax.tree_util.tree_leaves(fn(*[jnp.asarray(a) for a in aa]))]
        real = call(args)
        spread = [onp.zeros_like(r) for r in real]
        for t in range(3):
            pert = [a * (1.0 + 4.4e-16 * rng.choice([-1.0, 1.0], size=a.shape)) for a in args]
            for sp, r0, r1 in zip(spread, real, call(pert)):
                onp.maximum(sp, onp.abs(r1 - r0), out=sp)
        ctx = jx.Ctx(ground=True)
        gargs = [jx.ew(lambda v: sym.rat(v), a) for a in args]
        try:
            outs = jx.eval_jaxpr(ctx, cj.jaxpr, cj.consts, *gargs)
        except ValueError as e:
            # a real tensor function returned NaN/inf on the exactly-formed argument: only acceptable where the real
            # function is itself non-finite or wildly ill-conditioned at this input
            bad = any((not onp.all(onp.isfinite(r))) or onp.any(sp > 1e-8 * (1.0 + onp.abs(r))) for r, sp in zip(real, spread))
            if 'non-finite' in str(e) and bad:
                slack_used += 1
                continue
            raise
        for o, r, sp in zip(outs, real, spread):
            for x, y, e in zip(o.reshape(-1), r.reshape(-1), sp.reshape(-1)):
                if x is jx.POISON:
                    continue
                g = jx.ground_num(ctx, sym.toz(x)) if sym.isz(x) else x
                if g is None:
                    raise jx.JXError('validation: output did not reduce to a numeral: %s' % x)
                g = float(g)
                if math.isnan(y) and math.isnan(g):
                    continue
                err = abs(g - y)
                tol = rtol * (1.0 + abs(y))
                if not err <= tol:
                    if err <= 100.0 * e:
                        slack_used += 1
                        continue
                    raise jx.JXError('translator validation failed: JX %r vs real %r (real varies by %.1e under 1-ulp input perturbations; inputs %s)'
                                     % (g, y, e, [a.tolist() for a in args]))
                worst = max(worst, err / (1.0 + abs(y)))
    return worst, slack_used


def mk_case(h, body, args, sampler, label, cond='uf', patch=stubs, nval=2, merge_rot=None, merge_cap=20):
    """Case whose jaxpr is traced with `patch` active; validation and replay run the unpatched function.
    merge_rot = name of the rotation input: tensor-UF applications whose arguments are proved equal under |rot|^2 = 1
    share their outputs (each such cut lemma is registered as a query of its own)."""
    def fn(*a):
        if _Switch.patch is not None:
            with _Switch.patch(), quiet():
                return body(*a)
        with quiet():
            return body(*a)
    ctx = _hooks(jx.Ctx(), cond)
    if merge_rot is not None:
        rv = sym.sym_array(merge_rot, onp.shape(args[merge_rot]))
        # one rational point of the input space with |rot| = 1 (only used to skip hopeless merge candidates)
        prng = onp.random.default_rng(12345)
        point = []
        for k_, e_ in args.items():
            va = sym.sym_array(k_, onp.shape(e_)).reshape(-1)
            if k_ == merge_rot:
                vals = [(3, 5), (4, 5)] if va.size == 2 else [(2, 7), (3, 7), (6, 7), (0, 1)]
            else:
                vals = [(int(prng.integers(1, 40)), 41) for _ in range(va.size)]
            point += [(v_, z3.RealVal('%d/%d' % pq)) for v_, pq in zip(va, vals)]
        ctx.c08_merge = dict(base=[sum(x * x for x in rv.ravel()) == 1], cap=merge_cap, log=[], lemmas=[], point=point)
    _Switch.patch = patch
    try:
        c = Case(h, fn, args, validate=0, ctx=ctx, label=label)
    finally:
        _Switch.patch = None
    if nval:
        worst, slack = _validate(fn, c.cj, sampler, h.seed, nval)
        h.fact('translator_validation[%s]' % label, True, 'max rel err %.2e on %d ground runs of the (patched) jaxpr vs the unpatched real function%s'
               % (worst, nval, '; %d outputs compared within 100x the real function\'s own 1-ulp sensitivity (ill-conditioned)' % slack if slack else ''), nontrivial=False)
    if merge_rot is not None:
        for k, (name, x, x1) in enumerate(ctx.c08_merge['lemmas']):
            h.prove('%s.lemma%d[%s arguments equal]' % (label, k, name), list(ctx.c08_merge['base']) + c.side(True),
                    Eq(list(x), list(x1)), inputs=c.inp, concrete=None, cap=4 * merge_cap,
                    note='cut lemma: arguments of two applications of an uninterpreted tensor function are equal, hence (congruence) so are the results')
    return c


NOTE_REALS = 'all symbolic denominators (1+nu, 1-2nu, Jm, tau, dt, 1+dt/tau, det F, det of the inelastic distortion) are assumed non-zero'
NOTE_UF = 'scalar log/log1p/pow: uninterpreted functions (congruence only)'
NOTE_TUF = ('TensorMath.log_symm/pow_symm/exp_symm/sqrt_symm, jax.scipy.linalg.expm: patched at trace time by uninterpreted symmetric-tensor functions of '
            'all nine entries of their argument (congruence only); replay and translator validation use the real functions')
NOTE_PU = 'J2 plastic update (cond branch with the root-finding loop): uninterpreted function of its operands (elastic strain, state, dt, moduli)'
NOTE_ROT = 'float re-evaluation of a solver model accepts |q|^2 = 1 within 1e-9 (model values are rounded to binary64)'


# =========================================================================================== O1 / O2 generic driver
def _sym_case(h, m, what, full, state, batch=False):
    """what: 'left' W(QF) = W(F)  |  'right' W(F Q^T) = W(F) with the reference-side transformation of the auxiliaries"""
    with quiet():
        mat0 = m.make(list(m.example))
        st0 = onp.asarray(mat0.compute_initial_state(), dtype=float)
    aux = aux_spec(m, mat0, state)
    names = [('H' if full else 'h'), 'rot', 'mod'] + [n for n, _ in aux]
    ex = dict([(names[0], 0.1 * onp.ones((3, 3) if full else (2, 2))), ('rot', onp.array([1.0, 0.0, 0.0, 0.0]) if full else onp.array([1.0, 0.0])),
               ('mod', onp.array(m.example))] + aux)
    elastic_out = (what == 'right' and m.kind == 'j2')

    def body(*arrs):
        a = dict(zip(names, arrs))
        mat = m.make(a['mod'])
        H = a['H'] if full else embed(a['h'])
        Q = rot_matrix(a['rot'])
        a2 = dict(a)
        if what == 'left':
            H2 = Q @ (H + jnp.eye(3)) - jnp.eye(3)
        else:
            H2 = (H + jnp.eye(3)) @ Q.T - jnp.eye(3)
            if 'gphase' in a:
                a2['gphase'] = Q @ a['gphase']
        if batch:
            if a2 is not a and 'gphase' in a:
                Ws = jax.vmap(lambda Hb, gb: energy(m, mat, dict(a, gphase=gb))(Hb))(jnp.stack([H, H2]), jnp.stack([a['gphase'], a2['gphase']]))
            else:
                Ws = jax.vmap(energy(m, mat, a))(jnp.stack([H, H2]))
            return Ws[0], Ws[1]
        W1, W2 = energy(m, mat, a)(H), energy(m, mat, a2)(H2)
        if elastic_out:
            st = mat.compute_initial_state()
            return W1, W2, mat.compute_state_new(H, st, 1.0)[0] - st[0], mat.compute_state_new(H2, st, 1.0)[0] - st[0]
        return W1, W2

    def sampler(rng):
        t = rng.uniform(-3.0, 3.0)
        if full:
            q = rng.normal(size=4)
            r = q / onp.linalg.norm(q)
        else:
            r = onp.array([onp.cos(t), onp.sin(t)])
        return [0.1 * rng.normal(size=(3, 3) if full else (2, 2)), r, m.sample(rng)] + aux_sample(m, [n for n, _ in aux], st0, rng)
    label = '%s:%s:%s%s' % (m.key, what, 'SO3' if full else 'inplane', ':vmap2' if batch else '')
    c = mk_case(h, body, ex, sampler, label, cond='elastic' if elastic_out else 'uf', merge_rot='rot' if what == 'left' else None)

    def spec(i, o):
        asm = [rot_ok(i['rot']), v_lt(0.0, det3(F_of(i)))] + m.admissible(i['mod']) + aux_assumes(m, i)
        if elastic_out:
            asm += [sym.v_eq(s0(o[2]), 0.0), sym.v_eq(s0(o[3]), 0.0)]
        return asm, Eq(s0(o[0]), s0(o[1]), scale=m.scale(i['mod']))
    return c, spec


def _equivariance(c):
    """instances f(Q A Q^T) = Q f(A) Q^T for every ordered pair of applications of the same tensor function"""
    Q = rot_matrix(c.inp['rot'], xp=onp)
    QT = Q.T
    apps = getattr(c.ctx, 'c08_apps', [])
    ax = []
    for a in range(len(apps)):
        for b in range(len(apps)):
            if a == b or apps[a][0] != apps[b][0] or apps[a][1] != apps[b][1]:
                continue
            (_, _, xa, fa), (_, _, xb, fb) = apps[a], apps[b]
            rx = omatmul(omatmul(Q, xa), QT)
            rf = omatmul(omatmul(Q, fa), QT)
            pre = z3.And(*[sym.toz(p) == sym.toz(q) for p, q in zip(xb.ravel(), rx.ravel())])
            post = z3.And(*[sym.toz(p) == sym.toz(q) for p, q in zip(fb.ravel(), rf.ravel())])
            ax.append(z3.Implies(pre, post))
    return ax


def _common_notes(h, m, with_tuf=True):
    h.encoded(*m.enc)
    h.assume_note(NOTE_REALS, NOTE_UF, NOTE_ROT)
    if with_tuf and m.spectral:
        h.assume_note(NOTE_TUF)
    if m.kind == 'j2':
        h.assume_note(NOTE_PU)
    h.outside('rounding error of the float evaluation; XLA compilation of the jaxpr')


def _run_symmetry(h, keys, what, full, state, cap, batch=False, order=('core', 'nlsat')):
    for key in keys:
        m = model(key)
        _common_notes(h, m)
        c, spec = _sym_case(h, m, what, full, state, batch=batch)
        extra = list(getattr(c.ctx, 'c08_elastic', []))
        if what == 'right':
            extra += _equivariance(c)
        c.prove('%s%s' % (m.key, '.vmap2' if batch else ''), spec, cap=cap, order=order, extra_assumes=extra)


FINITE_PLAIN = ['linear_elastic[green lagrange]', 'linear_elastic[logarithmic]', 'neohookean[adagio]', 'neohookean[coupled]', 'gent']
FINITE_STATE = ['j2plastic[large deformations,linear]', 'j2plastic[seth hill,linear]', 'hyperviscoelastic', 'phasefield_threshold[large deformations]']
BOUNDS_INPLANE = ('H = 2x2 block (4 free reals) embedded in 3x3 as the library does for plane strain, det(H+I) > 0; Q = in-plane rotation (c, s), c^2+s^2 = 1: '
                  'all reals; moduli: all admissible reals (E>0, -1<nu<1/2, K,G,Jm,Y0,tau,Gc,l > 0, H >= 0); dt > 0; inelastic state: all 9 (27) entries free, eqps >= 0; '
                  'phase in [0,1], grad phase free')
BOUNDS_SO3 = 'H = free 3x3 (9 reals), det(H+I) > 0; Q = rotation of a unit quaternion (all of SO(3)); moduli, dt, state as in the quick tier'


@obligation(P, 'O1.objectivity_inplane', cap=300)
def o1_inplane(h):
    """W(Q(H+I) - I) = W(H) for every in-plane rotation, every plane-strain H with det F > 0, symbolic moduli and state"""
    h.bounds(BOUNDS_INPLANE)
    h.outside('LinearElastic[linear], J2Plastic[small deformations], PhaseFieldThreshold[small deformations]: not finite-deformation models (O4 only)')
    _run_symmetry(h, FINITE_PLAIN + FINITE_STATE, 'left', False, 'symbolic', cap=120)


@obligation(P, 'O1.objectivity_inplane_multibranch', cap=300)
def o1_inplane_mb(h):
    """same for the 3-branch viscoelastic model (27 state entries free)"""
    h.bounds(BOUNDS_INPLANE)
    _run_symmetry(h, ['multibranch_hyperviscoelastic'], 'left', False, 'symbolic', cap=200)
