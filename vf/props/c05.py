"""C05 — bound-constrained trust-region / SPG solver (optimism/TrustRegionSPG.py): feasibility, descent, honest flag.

* O1 `project`            JX on the jaxpr of the real function; +-inf bounds are concrete literals folded in min/max.
* O2 `project_onto_tr`    PX on the real source; scipy `brentq` replaced by its contract (t in [0,1], f(t) = 0, given
                          f(0) < 0 < f(1); the sign precondition is a goal at the call site).  Replays call the real brentq.
* O3 Cauchy point         PX + loop-body extraction of the three line-search loops of find_generalized_cauchy_point, each
                          followed by the real loop-exit tail (real post-loop statements run from the step's post-state).
* O4 SPG iteration        PX + loop-body extraction of the `for` body of solve_spg_subproblem (real project_onto_tr inside).
* O5 outer loop           PX + one pass through the `for` body of bound_constrained_trust_region_minimize from an arbitrary
                          loop-head state; sub-solvers stubbed by their O3/O4 contracts (arbitrary feasible steps);
                          prologue/epilogue with max_trust_iters = 0; `solve` driver plumbing.
"""
import ast
import collections
import itertools
import math
import types

import numpy as onp
import z3

from ..core import obligation
from .. import px, sym
from ..px import SymReal, SymBool, is_sym, NP
from ..sym import Le, Lt, Eq, Holds, v_and, v_le, v_eq, v_sub, v_dot
from .c01 import UObjective

P = 'C05'
REL = 'optimism/TrustRegionSPG.py'
INF = float('inf')

DESIGNED_NOT_REGISTERED = [
    ('O4.spg_body[exact-*-n2-*] (exact/Kouri line search, n=2)',
     'step_length_in_unit_interval (alpha >= 0, i.e. d.s <= 0 for the trust-region path projection in 2-D) stays unknown on one path per pattern (ff.ff 1919 s, fi.if 2614 s wall; '
     'nlsat, default solver and qfnra, 150 s per query; all other 22 goal names discharge). Registered for n=1 (quick), where every path discharges. A float probe of 2e5 random 2-D '
     'states of the real project_onto_tr found no d.s > 0, so this is solver reach, not a suspected defect.'),
    ('O4.spg_body[nonmonotone-older-n2-fi.if] and the other 14 two-coordinate bound-kind patterns at n=2',
     'one SPG body at n=2 with one-sided bounds did not finish within 60 min wall (the finite box ff.ff takes 14 min and is registered in the thorough tier); n=1 covers all of ff, fi, ii'),
    ('O4 model decrease along SPG iterations (q_new <= max(history)) and d.s <= 0 as goals of their own',
     'DESIGN lists them as lemmas for alpha in [0,1]; alpha in [0,1] is discharged directly from the real line-search code, the model decrease is a convergence-side fact outside the property'),
    ('O3 sufficient decrease after the radius cut-back loop', 'the code does not re-test it after cutting alpha back; DESIGN claims it only on the forward/back-tracking exits (registered)'),
]

# bound kinds of one coordinate: (lower is finite, upper is finite)
KINDS = {'ff': (True, True), 'fi': (True, False), 'if': (False, True), 'ii': (False, False)}


# =========================================================================================== O1: project (JX)
def _install_inf_folding():
    """min/max with a concrete +-inf operand fold to the other operand / the infinity (IEEE semantics of lax.min/max);
    installed in this obligation's process only (also used by the translator validation against the real function)"""
    from .. import jx

    def mk(op):
        base = jx.s_max if op == 'max' else jx.s_min

        def f(a, b):
            for u, v in ((a, b), (b, a)):
                if not sym.isz(u) and isinstance(u, (float, onp.floating)) and math.isinf(float(u)) and sym.isz(v):
                    keep_inf = (float(u) > 0) == (op == 'max')
                    return float(u) if keep_inf else v
            return base(a, b)
        return lambda ctx, P_, iv: jx.ew(f, *iv)
    jx.ELEMENTWISE['max'] = mk('max')
    jx.ELEMENTWISE['min'] = mk('min')


def _project_case(h, pattern):
    """pattern: tuple of kind strings, one per coordinate"""
    import jax.numpy as jnp
    from optimism import TrustRegionSPG as T
    from .. import jx
    from ..jxh import Case
    n = len(pattern)

    def bounds_of(lb, ub):
        lo = jnp.stack([lb[i] if KINDS[k][0] else -jnp.inf for i, k in enumerate(pattern)])
        hi = jnp.stack([ub[i] if KINDS[k][1] else jnp.inf for i, k in enumerate(pattern)])
        return jnp.column_stack((lo, hi))

    if all(k == 'ff' for k in pattern):
        # the real function on a symbolic bounds array, no wrapper
        def fn(x, y, lb, ub):
            b = jnp.column_stack((lb, ub))
            p = T.project(x, b)
            return p, T.project(p, b), T.project(y, b)
    else:
        def fn(x, y, lb, ub):
            b = bounds_of(lb, ub)
            p = T.project(x, b)
            return p, T.project(p, b), T.project(y, b)
    ex = collections.OrderedDict(x=onp.array([0.3, -1.7][:n]), y=onp.array([0.1, 0.2][:n]), lb=onp.array([-0.5, -1.0][:n]), ub=onp.array([0.4, 1.5][:n]))
    smp = lambda rng: [3 * rng.normal(size=n), rng.normal(size=n), -abs(rng.normal(size=n)), abs(rng.normal(size=n))]
    return Case(h, fn, ex, sampler=smp, label='project[%s]' % ','.join(pattern))


def _project_spec(pattern, degenerate=False):
    n = len(pattern)

    def spec(i, o):
        x, y, lb, ub = i['x'], i['y'], i['lb'], i['ub']
        p, pp, py = o
        asm, ybox, inbox = [], [], []
        for k in range(n):
            lf, uf = KINDS[pattern[k]]
            if lf and uf:
                asm.append(v_eq(lb[k], ub[k]) if degenerate else v_le(lb[k], ub[k]))
            if lf:
                ybox.append(v_le(lb[k], y[k]))
                inbox.append(v_le(lb[k], p[k]))
            if uf:
                ybox.append(v_le(y[k], ub[k]))
                inbox.append(v_le(p[k], ub[k]))
        ybox = v_and(*ybox) if ybox else True
        d2 = lambda a, b: v_dot([v_sub(a[k], b[k]) for k in range(n)], [v_sub(a[k], b[k]) for k in range(n)])
        atoms = [Holds(inbox if inbox else [True], name='result_in_box'),
                 Le(d2(p, x), d2(y, x), when=ybox, name='nearest_point'),
                 Eq(pp, p, name='idempotent'),
                 Eq(py, y, when=ybox, name='feasible_points_are_fixed')]
        # separability: an unconstrained coordinate is untouched
        for k in range(n):
            if pattern[k] == 'ii':
                atoms.append(Eq(p[k], x[k], name='free_coordinate_%d_untouched' % k))
        if degenerate:
            atoms.append(Eq([p[k] for k in range(n) if pattern[k] == 'ff'], [lb[k] for k in range(n) if pattern[k] == 'ff'], name='degenerate_bound_pins_coordinate'))
        return asm, atoms
    return spec


def _o1_note(h):
    from optimism import TrustRegionSPG as T
    h.encoded(T.project)
    h.bounds('x, y: all of R^n, n in {1,2}; every coordinate bound pair is (finite, finite) with lb <= ub (incl. lb == ub), (-inf, finite), '
             '(finite, +inf) or (-inf, +inf): all 4^n kind patterns, finite bounds symbolic over all reals')
    h.assume_note('infinite bounds are the concrete literals +-inf of the bounds array (folded by min/max as IEEE does); lb <= ub on finite pairs')
    h.outside('lb > ub (empty box); NaN bounds; n > 2 (the function is elementwise: no coupling beyond what n = 2 shows)')


@obligation(P, 'O1.project_box_nearest_idempotent', cap=300)
def o1(h):
    """project(x, bounds): result in the box, nearest point of the box to x (for every y in the box), idempotent, feasible
    points fixed; all finite/one-sided/free bound-kind patterns for n = 1, 2; degenerate lb == ub pins the coordinate"""
    _o1_note(h)
    _install_inf_folding()
    for n in (1, 2):
        for pattern in itertools.product(sorted(KINDS), repeat=n):
            c = _project_case(h, pattern)
            c.prove('n%d[%s]' % (n, ','.join(pattern)), _project_spec(pattern), cap=30)
            if 'ff' in pattern:
                c.prove('n%d[%s]degenerate' % (n, ','.join(pattern)), _project_spec(pattern, degenerate=True), cap=30)


# =========================================================================================== PX: shared pieces
def load_spg():
    """the real source of TrustRegionSPG.py; WarmStart (pulls in the FE stack) is not needed by any function under test"""
    ws = types.SimpleNamespace(warm_start_increment=None)
    mod = px.load_module(REL, shims={'optimism.WarmStart': ws})
    return mod


def sym_bounds(ex, pattern, name='b'):
    """bounds array (n,2): finite entries symbolic with lb <= ub, infinite entries concrete +-inf"""
    n = len(pattern)
    b = onp.empty((n, 2), dtype=object if ex.symbolic else float)
    for k, kind in enumerate(pattern):
        lf, uf = KINDS[kind]
        b[k, 0] = ex.real('%s_lb_%d' % (name, k)) if lf else -INF
        b[k, 1] = ex.real('%s_ub_%d' % (name, k)) if uf else INF
        if lf and uf:
            ex.assume(b[k, 0] <= b[k, 1])
    return b


def _fin(v):
    return not (isinstance(v, float) and math.isinf(v))


def in_box_conds(v, b):
    """list of proxies/bools: lb <= v <= ub on the finite bounds"""
    cs = []
    for k in range(len(v)):
        if _fin(b[k, 0]):
            cs.append(b[k, 0] <= v[k])
        if _fin(b[k, 1]):
            cs.append(v[k] <= b[k, 1])
    return cs


def assume_in_box(ex, v, b):
    for c in in_box_conds(v, b):
        ex.assume(c)


def box_atom(v, b):
    cs = [px.unwrap(c) for c in in_box_conds(v, b)]
    return Holds(cs if cs else [True])


def prune(ex, ms=1500):
    """drop a path whose condition is unsatisfiable but was kept by a timed-out feasibility query of the explorer (goals
    on such a path are trivially true and would only blur the vacuity accounting); nlsat decides these quickly"""
    if not ex.symbolic:
        return
    st = sym.solve(list(ex.pc), ms / 1000.0, order=('nlsat',))[0]
    if st == 'unsat':
        ex.cut('infeasible path (late detection)')


def install_brentq_contract(ex, mod, tag='t_root'):
    """scipy.optimize.brentq(f, 0, 1) by contract: the sign condition f(0) < 0 < f(1) is a goal at the call site; the result
    is ANY t in [0,1] with f(t) = 0.  A replay runs the real scipy brentq on the real residual function."""
    from scipy import optimize as real_opt
    calls = []

    def brentq(f, a, b, full_output=False, **kw):
        fa, fb = f(a), f(b)
        ex.goal('brentq_sign_precondition', Holds([px.unwrap(fa < 0), px.unwrap(fb > 0)]), info='brentq called without a sign change on [0,1]')
        t = ex.real(tag)
        if ex.symbolic:
            ex.assume(fa < 0)
            ex.assume(fb > 0)
            ex.assume(t >= a)
            ex.assume(t <= b)
            ft = f(t)
            ex.assume(ft == 0)
        else:
            try:
                t = real_opt.brentq(f, a, b)
            except ValueError as e:
                ex.cut('real brentq raised: %s' % e)
        calls.append(t)
        return (t, None) if full_output else t
    mod.optimize = types.SimpleNamespace(brentq=brentq)
    return calls


# =========================================================================================== O2: project_onto_tr
def make_tr_harness(pattern):
    n = len(pattern)

    def fn(ex):
        mod = load_spg()
        roots = install_brentq_contract(ex, mod)
        b = sym_bounds(ex, pattern)
        x = ex.vec('x', n)
        xk = ex.vec('xk', n)
        tr = ex.real('trSize')
        ex.assume(tr > 0)
        assume_in_box(ex, xk, b)
        r = mod.project_onto_tr(x, xk, b, tr)
        d = r - xk
        dd = px.unwrap(NP.dot(d, d))
        tr2 = px.unwrap(tr * tr)
        ex.goal('result_in_box', box_atom(r, b))
        if roots:
            ex.goal('root_path_result_on_trust_region_boundary', Eq(dd, tr2, scale=tr2), info='|r - xk|^2 != tr^2 on the root path')
            t = roots[0]
            ex.goal('root_path_result_is_projected_segment_point', Eq(px.unwrap(r), px.unwrap(mod.project(xk + t * (x - xk), b))))
        else:
            ex.goal('early_path_result_inside_trust_region', Le(dd, tr2, scale=tr2), info='|r - xk|^2 > tr^2 on the early path')
            ex.goal('early_path_result_is_box_projection', Eq(px.unwrap(r), px.unwrap(mod.project(x, b))))
        ex.goal('result_inside_trust_region', Le(dd, tr2, scale=tr2))
    return fn


TR_GOALS = ['result_in_box', 'root_path_result_on_trust_region_boundary', 'root_path_result_is_projected_segment_point',
            'early_path_result_inside_trust_region', 'early_path_result_is_box_projection', 'result_inside_trust_region', 'brentq_sign_precondition']


@obligation(P, 'O2.project_onto_tr', cap=300)
def o2(h):
    """project_onto_tr(x, xk, bounds, tr) with xk feasible, tr > 0: the brentq sign precondition holds at the call; the
    result is in the box; |r - xk|^2 = tr^2 on the root path and <= tr^2 on the early path"""
    h.encoded('optimism.TrustRegionSPG:project_onto_tr (real source under PX)', 'optimism.TrustRegionSPG:project')
    h.bounds('x: all of R^n; xk: any point of the box; trSize > 0; n in {1,2}; all 4^n bound-kind patterns (finite with lb <= ub, one-sided, free)')
    h.assume_note('stub: scipy.optimize.brentq(f, 0, 1) returns ANY t in [0,1] with f(t) = 0 provided f(0) < 0 < f(1) (contract; the sign condition is the goal brentq_sign_precondition)',
                  'assumption: xk is feasible (all callers pass the current iterate) and trSize > 0')
    h.outside('brentq itself (iteration, tolerance: the returned t is an exact root here); xk outside the box')
    for n in (1, 2):
        for pattern in itertools.product(sorted(KINDS), repeat=n):
            px.run_px(h, 'n%d[%s]' % (n, ','.join(pattern)), make_tr_harness(pattern), cap=30, div_mode='goal', sqrt_mode='goal', feas_ms=200,
                      expect_goals=TR_GOALS)


# =========================================================================================== O3: generalized Cauchy point
CP = 'find_generalized_cauchy_point'


def _cp_parts(fd):
    k = [i for i, s in enumerate(fd.body) if isinstance(s, ast.If) and isinstance(s.test, ast.Name) and s.test.id == 'intialStepAcceptable'][0]
    iff = fd.body[k]
    k2 = [i for i, s in enumerate(fd.body) if i > k and isinstance(s, ast.If)][0]
    if2 = fd.body[k2]
    wf = [i for i, s in enumerate(iff.body) if isinstance(s, ast.While)][0]
    wb = [i for i, s in enumerate(iff.orelse) if isinstance(s, ast.While)][0]
    w3 = [i for i, s in enumerate(if2.body) if isinstance(s, ast.While)][0]
    return dict(head=fd.body[:k], iff=iff, if2=if2, k=k, k2=k2, wf=wf, wb=wb, w3=w3, rest=fd.body[k + 1:], rest2=fd.body[k2 + 1:])


ENTER = 'enters the radius loop'


def _gate(if2, w3):
    return ast.If(test=if2.test, body=list(if2.body[:w3]) + [ast.Return(ast.Constant(ENTER))], orelse=[])


def _fake_loop(stmts):
    return ast.While(test=ast.Constant(True), body=list(stmts), orelse=[])


CP_SELECT = {
    # loops: (loop node, real prefix statements)
    'forward': lambda fd: (lambda p: (p['iff'].body[p['wf']], p['head'] + p['iff'].body[:p['wf']]))(_cp_parts(fd)),
    'backtrack': lambda fd: (lambda p: (p['iff'].orelse[p['wb']], p['head'] + p['iff'].orelse[:p['wb']]))(_cp_parts(fd)),
    'radius': lambda fd: (lambda p: (p['if2'].body[p['w3']], p['head']))(_cp_parts(fd)),
    # loop-exit tails: the real statements that follow a loop, run once from the loop's exit state
    'tail_backtrack_raise': lambda fd: (lambda p: (_fake_loop(p['iff'].orelse[p['wb'] + 1:]), p['head']))(_cp_parts(fd)),
    # after the forward / back-tracking search: the real `ss = s@s; if ss > deltaSquared:` gate with the real statements that
    # precede the radius loop, the loop itself replaced by a marker return (it is covered by its own inductive step), then
    # the real final return
    'tail_gate': lambda fd: (lambda p: (_fake_loop(p['rest'][:p['k2'] - p['k'] - 1] + [_gate(p['if2'], p['w3'])] + p['rest2']), p['head']))(_cp_parts(fd)),
    'tail_radius': lambda fd: (lambda p: (_fake_loop(p['if2'].body[p['w3'] + 1:] + p['rest2']), p['head']))(_cp_parts(fd)),
}


def cp_settings(ex, mod):
    mu0, qTol = ex.real('mu0'), ex.real('qTol')
    mx = ex.int('maxLineSearchIters')
    for c in (mu0 > 0, mu0 < 1, qTol >= 0, mx >= 1):
        ex.assume(c)
    return mod.get_settings(cauchy_point_sufficient_decrease_factor=mu0, cauchy_point_decrease_tol=qTol, cauchy_point_max_line_search_iters=mx, debug_info=False)


def make_cp_harness(which, pattern):
    n = len(pattern)

    def fn(ex):
        mod = load_spg()
        install_brentq_contract(ex, mod)
        S = {k: px.extract_step(mod, CP, sel)[0] for k, sel in CP_SELECT.items()}
        b = sym_bounds(ex, pattern)
        x, g = ex.vec('x', n), ex.vec('g', n)
        H = ex.mat('H', n, n, symmetric=True)
        hv = lambda v: NP.dot(H, v)
        alpha0, tr = ex.real('alpha0'), ex.real('trSize')
        ex.assume(alpha0 > 0)
        ex.assume(tr > 0)
        settings = cp_settings(ex, mod)
        mx, mu0 = settings.cauchy_point_max_line_search_iters, settings.cauchy_point_sufficient_decrease_factor
        d2 = tr * tr
        args = (x, g, hv, b, alpha0, tr, settings)
        proj_step = lambda a: mod.project(x - a * g, b) - x
        st = {}

        def head_counter():
            i = ex.int('i')
            ex.assume(i >= 0)
            ex.assume(i < mx)
            return i

        def havoc(loc):
            m = st['m'] = loc['m']
            ov = dict(search=True, i=head_counter())
            a = ex.real('alpha_h')
            if which == 'forward':
                # reached only when the initial step was acceptable (real prefix statement); base case of the invariant
                ex.assume(loc['intialStepAcceptable'])
                ex.goal('forward.base_invariant', Holds(px.unwrap(m(loc['s']) <= mu0 * (g @ loc['s']))))
                ex.goal('forward.base_step_is_projected_gradient_step', Eq(px.unwrap(loc['s']), px.unwrap(proj_step(loc['alpha']))))
                ex.goal('forward.base_trial_consistent', Eq(px.unwrap(loc['qTry']), px.unwrap(m(loc['sTry']))))
                s = proj_step(a)
                ex.assume(m(s) <= mu0 * (g @ s))
                at = ex.real('alphaTry_h')
                sTry = proj_step(at)
                ov.update(alpha=a, s=s, alphaTry=at, sTry=sTry, qTry=m(sTry))
            elif which == 'backtrack':
                ex.assume(~loc['intialStepAcceptable'] if isinstance(loc['intialStepAcceptable'], SymBool) else (not loc['intialStepAcceptable']))
                ov.update(alpha=a, s=ex.vec('s_h', n))
            else:
                ov.update(alpha=a, s=ex.vec('s_h', n), ss=ex.real('ss_h'))
            return ov

        kind, val, loc = S[which](dict(), havoc, *args)
        prune(ex)
        m = st['m']
        assert kind == 'next'
        s2, a2, i2, search2 = loc['s'], loc['alpha'], loc['i'], loc['search']
        pre = '%s.' % which
        ex.goal(pre + 'step_is_projected_gradient_step', Eq(px.unwrap(s2), px.unwrap(proj_step(a2))), info='s != project(x - alpha g) - x after the body')
        if which == 'forward':
            ex.goal(pre + 'inv_sufficient_decrease_kept', Le(px.unwrap(m(s2)), px.unwrap(mu0 * (g @ s2))), info='accepted forward step violates the sufficient-decrease test')
            ex.goal(pre + 'inv_trial_consistent', Eq(px.unwrap(loc['sTry']), px.unwrap(proj_step(loc['alphaTry']))))
            ex.goal(pre + 'inv_trial_model_consistent', Eq(px.unwrap(loc['qTry']), px.unwrap(m(loc['sTry']))))
        if which == 'radius':
            ex.goal(pre + 'inv_ss_is_squared_length', Eq(px.unwrap(loc['ss']), px.unwrap(s2 @ s2)))
        search2 = bool(search2)     # `a and b` leaves a proxy: decide it (forks)
        if search2:
            ex.goal(pre + 'inv_counter_below_cap_while_searching', Holds(px.unwrap(i2 < mx)))
            return
        # ---------------- the loop exits: run the real statements that follow it
        state = {k: loc[k] for k in ('alpha', 's', 'i', 'search', 'ss', 'q', 'alphaTry', 'sTry', 'qTry') if k in loc}
        decrease_claimed = which in ('forward', 'backtrack')
        if which == 'backtrack':
            try:
                S['tail_backtrack_raise'](dict(), lambda l: state, *args)
            except RuntimeError:
                ex.goal(pre + 'raises_only_at_iteration_cap', Holds(px.unwrap(i2 == mx)))
                return
            ex.goal(pre + 'exit_without_raise_has_sufficient_decrease', Le(px.unwrap(m(s2)), px.unwrap(mu0 * (g @ s2))), info='back-tracking exit without sufficient decrease')
        if which in ('forward', 'backtrack'):
            kind, val, loc3 = S['tail_gate'](dict(), lambda l: state, *args)
            if kind == 'return' and isinstance(val, str) and val == ENTER:
                # continues in the radius loop: its inductive step starts from any (alpha, s, ss, 0 <= i < cap)
                ex.goal(pre + 'radius_loop_entered_with_fresh_counter', Holds(loc3['i'] == 0 and loc3['search'] is True))
                return
        else:
            try:
                kind, val, loc3 = S['tail_radius'](dict(), lambda l: state, *args)
            except RuntimeError:
                ex.goal(pre + 'raises_only_at_iteration_cap', Holds(px.unwrap(i2 == mx)))
                return
        ex.goal(pre + 'exit_reaches_return', Holds(kind == 'return'))
        ar, sr = val
        ex.goal(pre + 'return.point_in_box', box_atom(x + sr, b), info='x + s outside the box')
        ex.goal(pre + 'return.step_inside_trust_region', Le(px.unwrap(sr @ sr), px.unwrap(d2), scale=px.unwrap(d2)), info='s.s > delta^2 on normal return')
        ex.goal(pre + 'return.step_matches_returned_alpha', Eq(px.unwrap(sr), px.unwrap(proj_step(ar))))
        if decrease_claimed:
            ex.goal(pre + 'return.sufficient_decrease', Le(px.unwrap(m(sr)), px.unwrap(mu0 * (g @ sr))), info='returned Cauchy step violates m(s) <= mu0 g.s')
    return fn


def _o3_note(h):
    h.encoded('optimism.TrustRegionSPG:find_generalized_cauchy_point (real prefix + body of each of its three while loops + the real statements after each loop, extracted by AST from the current source)',
              'optimism.TrustRegionSPG:project')
    h.bounds('n in {1,2}; x, g: all reals (x need not be feasible); hess_vec_func(v) = H v with H an arbitrary symmetric matrix; alpha > 0, trSize > 0; '
             '0 < mu0 < 1, qTol >= 0, cauchy_point_max_line_search_iters >= 1 (symbolic integer); loop-head state arbitrary subject to the stated invariant '
             '(forward: s = P(x - alpha g) - x with sufficient decrease, trial triple consistent; all: 0 <= i < cap)')
    h.assume_note('inductive step: the pre-state is any state satisfying the loop-head invariant, reachable or not; the base case (first loop head after the real prefix) is a goal')
    h.outside('sufficient decrease after the radius cut-back loop (the code does not re-test it); the value of alpha beyond s = P(x - alpha g) - x; termination counts')


CP_DOC = {'forward': 'forward-tracking loop of find_generalized_cauchy_point: invariant kept by one real body from an arbitrary loop-head state; on exit and normal return x+s in box, s.s <= delta^2, sufficient decrease',
          'backtrack': 'back-tracking loop: counter invariant; exit raises exactly at the iteration cap, otherwise sufficient decrease; normal return in box and trust region',
          'radius': 'radius cut-back loop: s, ss consistent; exit raises exactly at the cap, otherwise returns with s.s <= delta^2 and x+s in box'}
CP_QUICK = [('ff',), ('fi',), ('if',), ('ii',), ('ff', 'ff'), ('fi', 'if')]


def _reg_cp(which, pattern, tiers):
    def ob(h):
        _o3_note(h)
        px.run_px(h, 'step', make_cp_harness(which, pattern), cap=30, div_mode='goal', sqrt_mode='goal', feas_ms=200)
    ob.__doc__ = CP_DOC[which] + ' (n=%d, bound kinds %s)' % (len(pattern), '/'.join(pattern))
    obligation(P, 'O3.cauchy_%s_loop[%s]' % (which, '.'.join(pattern)), tiers=tiers, cap=600)(ob)


for _w in ('forward', 'backtrack', 'radius'):
    for _pat in CP_QUICK:
        _reg_cp(_w, _pat, ('quick', 'thorough'))
    for _pat in itertools.product(sorted(KINDS), repeat=2):
        if _pat not in CP_QUICK:
            _reg_cp(_w, _pat, ('thorough',))


# =========================================================================================== O4: SPG sub-iteration
SPG = 'solve_spg_subproblem'
SPG_KEEP = ('lamMin', 'lamMax', 'line_search', 'M')


def _spg_for(fd):
    k = [i for i, s in enumerate(fd.body) if isinstance(s, ast.For)][0]
    return k, fd.body[k]


def _assigns_only(stmt, names):
    if not isinstance(stmt, ast.Assign):
        return False
    tg = [t.id for t in stmt.targets if isinstance(t, ast.Name)]
    return len(tg) == len(stmt.targets) and all(t in names for t in tg)


def sel_spg_body(fd):
    """loop body with a minimal real prefix: only the statements that bind loop constants (the loop-carried locals are
    havoced, `spgTolSquared` is supplied as an arbitrary positive number)"""
    k, loop = _spg_for(fd)
    return loop, [s for s in fd.body[:k] if _assigns_only(s, SPG_KEEP)]


def sel_spg_prologue(fd):
    k, loop = _spg_for(fd)
    return loop, fd.body[:k]


def sel_spg_epilogue(fd):
    k, loop = _spg_for(fd)
    return _fake_loop(fd.body[k + 1:]), []


def spg_settings(ex, mod, nonmonotone, M=2):
    lamMin, lamMax, tol, ratio = ex.real('lamMin'), ex.real('lamMax'), ex.real('spg_tol'), ex.real('spg_inexact_solve_ratio')
    for c in (lamMin > 0, lamMin <= lamMax, tol > 0, ratio >= 0):
        ex.assume(c)
    return mod.get_settings(spg_tol=tol, spg_inexact_solve_ratio=ratio, min_spectral_step_length=lamMin, max_spectral_step_length=lamMax,
                            spg_use_nonmonotone=nonmonotone, spg_nonmonotone_iter_limit_to_enforce_decrease=M, max_spg_iters=ex.int('max_spg_iters'), debug_info=False)


def _ieee_inside(ex, f):
    def g(*a, **k):
        old = ex.div_mode, ex.sqrt_mode
        ex.div_mode = ex.sqrt_mode = 'fork'
        try:
            return f(*a, **k)
        finally:
            ex.div_mode, ex.sqrt_mode = old
    return g


def _spg_common(ex, pattern, nonmonotone, M=2):
    n = len(pattern)
    mod = load_spg()
    install_brentq_contract(ex, mod)
    mod.float = lambda v: v if is_sym(v) else float(v)      # float(q) of a real is the identity
    # the line searches divide by s.B s (and take a square root) BEFORE the caller tests s.B s > 0 and discards the value:
    # inside them x/0 and sqrt(negative) follow IEEE (forking into inf/nan) instead of being definedness goals
    for nm in ('nonmonotone_line_search', 'kouri_exact_line_search'):
        setattr(mod, nm, _ieee_inside(ex, getattr(mod, nm)))
    b = sym_bounds(ex, pattern)
    x, r = ex.vec('x', n), ex.vec('r', n)
    assume_in_box(ex, x, b)
    H = ex.mat('B', n, n, symmetric=True)
    hv = lambda v: NP.dot(H, v)
    tr = ex.real('trSize')
    ex.assume(tr > 0)
    settings = spg_settings(ex, mod, nonmonotone, M)
    return mod, b, x, r, hv, tr, settings


def _feasible_step(ex, name, n, x, b, tr):
    z = ex.vec(name, n)
    assume_in_box(ex, x + z, b)
    ex.assume(NP.dot(z, z) <= tr * tr)
    return z


def _spg_state_goals(ex, pre, x, r, hv, b, tr, z, xNew, d, q, qHistory, nhist):
    ex.goal(pre + 'iterate_in_box', box_atom(x + z, b), info='x + z outside the box')
    ex.goal(pre + 'step_inside_trust_region', Le(px.unwrap(NP.dot(z, z)), px.unwrap(tr * tr), scale=px.unwrap(tr * tr)), info='|z| > trSize')
    ex.goal(pre + 'xNew_is_x_plus_z', Eq(px.unwrap(xNew), px.unwrap(x + z)))
    ex.goal(pre + 'model_gradient_bookkeeping', Eq(px.unwrap(d), px.unwrap(r + hv(z))), info='d != r + B z')
    ex.goal(pre + 'model_value_bookkeeping', Eq(px.unwrap(q), px.unwrap(NP.dot(r, z) + 0.5 * NP.dot(z, hv(z)))), info='q != r.z + z.B z/2')
    ex.goal(pre + 'history_ends_with_current_model_value', Eq(px.unwrap(qHistory[-1]), px.unwrap(q), when=len(qHistory) == nhist))
    ex.goal(pre + 'history_length_kept', Holds(len(qHistory) == nhist))


def _between_zero_and(p, v):
    return z3.And(p >= z3.If(v <= 0, v, 0), p <= z3.If(v >= 0, v, 0))


def prove_product_lemma(h):
    a, v = z3.Real('lem_a'), z3.Real('lem_v')

    def concrete(vals):
        aa, vv = float(vals['a']), float(vals['v'])
        return 0 <= aa <= 1, Holds(min(0.0, vv) <= aa * vv <= max(0.0, vv)), {}
    h.prove('lemma.scaled_step_between_zero_and_step', [a >= 0, a <= 1], Holds(_between_zero_and(a * v, v)), inputs=dict(a=a, v=v), concrete=concrete, cap=20,
            order=('nlsat', 'core'))


def make_spg_body_harness(pattern, nonmonotone, hist):
    n = len(pattern)

    def fn(ex):
        mod, b, x, r, hv, tr, settings = _spg_common(ex, pattern, nonmonotone)
        step = px.extract_step(mod, SPG, sel_spg_body)[0]
        epi = px.extract_step(mod, SPG, sel_spg_epilogue)[0]
        tol2 = ex.real('spgTolSquared')
        ex.assume(tol2 > 0)
        z = _feasible_step(ex, 'z', n, x, b, tr)
        z0 = z.copy()
        lam = ex.real('lam')
        ex.assume(lam >= settings.min_spectral_step_length)
        ex.assume(lam <= settings.max_spectral_step_length)
        q0 = NP.dot(r, z) + 0.5 * NP.dot(z, hv(z))
        if hist == 'single':
            hq = [q0]
        elif hist == 'inf':
            hq = [-INF, q0]
        else:
            hq = [ex.real('q_older'), q0]
        i0 = ex.int('i')
        ex.assume(i0 >= 0)
        args = (x, z, r, b, hv, None, tr, settings)

        def havoc(loc):
            return dict(z=z, xNew=x + z, d=r + hv(z), q=q0, lam=lam, qHistory=collections.deque(hq), i=i0, chi2=ex.real('chi2_stale'))
        kind, val, loc = step(dict(spgTolSquared=tol2), havoc, *args)
        prune(ex)
        s, alpha, qMax = loc['s'], loc['alpha'], loc['qMax']
        ex.goal('step_length_in_unit_interval', Holds([px.unwrap(c) for c in (alpha >= 0, alpha <= 1)]), info='alpha outside [0,1]')
        ex.goal('trial_point_in_box', box_atom(x + z0 + s, b))
        ex.goal('trial_point_inside_trust_region', Le(px.unwrap(NP.dot(z0 + s, z0 + s)), px.unwrap(tr * tr), scale=px.unwrap(tr * tr)))
        ex.goal('history_max_not_below_current_value', Le(px.unwrap(q0), px.unwrap(qMax)))
        # cuts: alpha in [0,1], trial point in the box and in the trust region are proved above on this path and then used as
        # lemmas for the convexity goals below
        if ex.symbolic:
            ex.assume(alpha >= 0)
            ex.assume(alpha <= 1)
            assume_in_box(ex, x + z0 + s, b)
            ex.assume(NP.dot(z0 + s, z0 + s) <= tr * tr)
            # instances of the lemma `0 <= a <= 1  =>  min(0,v) <= a v <= max(0,v)` (proved for all reals by the solver in this
            # obligation, query lemma.scaled_step_between_zero_and_step): make the box goal of the new iterate linear
            for k in range(n):
                av = alpha * s[k]
                if is_sym(av):
                    ex.assume(SymBool(_between_zero_and(px._z(av), px._z(s[k]))))
        zn = loc['z']
        _spg_state_goals(ex, 'post.', x, r, hv, b, tr, zn, loc['xNew'], loc['d'], loc['q'], loc['qHistory'], len(hq))
        ex.goal('post.step_is_convex_combination', Eq(px.unwrap(zn), px.unwrap(z0 + alpha * s)))
        if kind == 'return':
            zr, qr, chi, stype, its = val
            ex.goal('return.returns_current_step', Holds(zr is zn and qr is loc['q']))
            ex.goal('return.only_below_tolerance', Lt(px.unwrap(loc['chi2']), px.unwrap(tol2)))
            ex.goal('return.reports_boundary_type_and_iteration_count', Holds(stype == mod.boundaryString) if not is_sym(its) else
                    Holds([stype == mod.boundaryString, px.unwrap(its == i0 + 1)]))
        else:
            lam2 = loc['lam']
            ex.goal('post.spectral_step_length_within_limits', Holds([px.unwrap(lam2 >= settings.min_spectral_step_length), px.unwrap(lam2 <= settings.max_spectral_step_length)]))
            ex.goal('post.not_returned_means_not_converged', Le(px.unwrap(tol2), px.unwrap(loc['chi2'])))
            # iteration-cap exit: the real statement after the loop returns the loop state
            st = {k: loc[k] for k in ('z', 'q', 'chi2', 'i')}
            k2, v2, _ = epi(dict(), lambda l: st, *args)
            ex.goal('cap_exit.returns_current_step', Holds(k2 == 'return' and v2[0] is zn and v2[1] is loc['q'] and v2[3] not in (mod.boundaryString, mod.cauchyString)))
    return fn


def make_spg_prologue_harness(pattern, nonmonotone, M):
    n = len(pattern)

    def fn(ex):
        mod, b, x, r, hv, tr, settings = _spg_common(ex, pattern, nonmonotone, M)
        step = px.extract_step(mod, SPG, sel_spg_prologue)[0]
        cs = _feasible_step(ex, 'cauchyStep', n, x, b, tr)

        def havoc(loc):
            _spg_state_goals(ex, 'base.', x, r, hv, b, tr, loc['z'], loc['xNew'], loc['d'], loc['q'], loc['qHistory'], M)
            ex.goal('base.spectral_step_length_within_limits', Holds([px.unwrap(loc['lam'] >= settings.min_spectral_step_length), px.unwrap(loc['lam'] <= settings.max_spectral_step_length)]))
            ex.goal('base.tolerance_positive', Lt(0.0, px.unwrap(loc['spgTolSquared'])))
            ex.goal('base.not_returned_means_not_converged', Le(px.unwrap(loc['spgTolSquared']), px.unwrap(loc['chi2'])))
            ex.cut('base case checked')
        kind, val, loc = step(dict(), havoc, x, cs, r, b, hv, None, tr, settings)
        # only the early return gets here
        ex.goal('early_return.is_cauchy_step_with_zero_iterations', Holds(kind == 'return' and val[0] is cs and val[3] == mod.cauchyString and val[4] == 0))
        ex.goal('early_return.only_below_tolerance', Lt(px.unwrap(loc['chi2']), px.unwrap(loc['spgTolSquared'])))
        ex.goal('early_return.model_value', Eq(px.unwrap(val[1]), px.unwrap(NP.dot(r, cs) + 0.5 * NP.dot(cs, hv(cs)))))
    return fn


def _o4_note(h):
    h.encoded('optimism.TrustRegionSPG:solve_spg_subproblem (real statements before the loop; body of its `for` loop and the statement after it, extracted by AST from the current source)',
              'optimism.TrustRegionSPG:project_onto_tr', 'optimism.TrustRegionSPG:project', 'optimism.TrustRegionSPG:subproblem_optimality',
              'optimism.TrustRegionSPG:nonmonotone_line_search', 'optimism.TrustRegionSPG:kouri_exact_line_search')
    h.bounds('x feasible, r arbitrary, B arbitrary symmetric (hess_vec_func(v) = B v), trSize > 0; 0 < min_spectral_step_length <= max_spectral_step_length, spg_tol > 0, ratio >= 0 (symbolic); '
             'loop-head state: any z with x+z in the box and |z| <= trSize, d = r + B z, q = r.z + z.B z/2, lam within its limits, history = [older value or -inf, q] (equivalent to any length >= 2) or [q]; '
             'spgTolSquared any positive number in the step (its real definition is run in the prologue)')
    h.assume_note('stub: scipy.optimize.brentq by contract (see O2; its sign precondition is a goal at both call sites of the body)',
                  'stub: float(q) is the identity on reals',
                  'IEEE: inside the two line-search functions x/0 and sqrt(negative) produce inf/nan (path forks) as in the real arithmetic; elsewhere definedness is a goal',
                  'cut: step_length_in_unit_interval, trial_point_in_box and trial_point_inside_trust_region are proved first on every path and then used as lemmas for the post-state goals of that path',
                  'cut: ground instances (a = alpha, v = s_k) of the solver-proved lemma 0 <= a <= 1 => min(0,v) <= a v <= max(0,v) are added to the path before post.iterate_in_box is decided',
                  'inductive step: pre-state is any state satisfying the invariant, reachable or not; the cauchy step entering the prologue satisfies the O3 contract (x + s in box, |s| <= trSize)')
    h.outside('decrease of the model along SPG iterations and quality of the spectral step (convergence); max_spg_iters = 0 (the function then reads an unbound loop variable)')


SPG_ORDER = {None: ('nlsat', 'core')}
for _g in ('trial_point_in_box', 'post.iterate_in_box', 'return.only_below_tolerance', 'post.spectral_step_length_within_limits', 'post.not_returned_means_not_converged',
           'history_max_not_below_current_value', 'post.history_ends_with_current_model_value'):
    SPG_ORDER[_g] = ('core', 'nlsat')
SPG_GOALS_BODY = ['step_length_in_unit_interval', 'post.iterate_in_box', 'post.step_inside_trust_region', 'post.model_gradient_bookkeeping', 'post.model_value_bookkeeping',
                  'return.only_below_tolerance', 'cap_exit.returns_current_step', 'brentq_sign_precondition']


def _reg_spg(nonmonotone, hist, pattern, tiers):
    n = len(pattern)

    def ob(h):
        _o4_note(h)
        prove_product_lemma(h)
        order, cap = SPG_ORDER, 40
        if n >= 2:
            # measured: on the root-path/root-path paths in 2-D `alpha >= 0` is unknown for nlsat and for the default solver
            # at 200 s but unsat for z3's qfnra portfolio tactic in ~32 s
            order, cap = dict(SPG_ORDER, step_length_in_unit_interval=('qfnra', 'nlsat')), 150
        px.run_px(h, 'body', make_spg_body_harness(pattern, nonmonotone, hist), cap=cap, order=order, div_mode='goal', sqrt_mode='goal', feas_ms=60,
                  expect_goals=SPG_GOALS_BODY)
    ob.__doc__ = ('one body of the SPG loop of solve_spg_subproblem (%s line search, history %s, n=%d, bound kinds %s) from an arbitrary loop-head state satisfying the invariant: '
                  'alpha in [0,1], x+z stays in the box and |z| <= trSize, bookkeeping identities for d and q, honest returns' % ('non-monotone' if nonmonotone else 'exact', hist, n, '/'.join(pattern)))
    obligation(P, 'O4.spg_body[%s-%s-n%d-%s]' % ('nonmonotone' if nonmonotone else 'exact', hist, n, '.'.join(pattern)), tiers=tiers, cap=900 if n == 1 else 1200)(ob)


for _pat in (('ff',), ('fi',), ('ii',)):
    _reg_spg(True, 'older', _pat, ('quick', 'thorough'))
    _reg_spg(False, 'inf', _pat, ('quick', 'thorough'))
    _reg_spg(True, 'inf', _pat, ('thorough',))
    _reg_spg(True, 'single', _pat, ('thorough',))
_reg_spg(True, 'older', ('ff', 'ff'), ('thorough',))


@obligation(P, 'O4.spg_prologue', cap=600)
def o4p(h):
    """statements of solve_spg_subproblem before the loop: the early return hands back the Cauchy step; otherwise the loop
    invariant holds at the first loop head"""
    _o4_note(h)
    for nonmono, M in ((True, 3), (False, 1)):
        for pattern in [('ff',), ('fi',), ('ii',)] + ([('ff', 'ff'), ('fi', 'if')] if h.thorough() else []):
            px.run_px(h, 'M%d,n%d[%s]' % (M, len(pattern), ','.join(pattern)), make_spg_prologue_harness(pattern, nonmono, M), cap=40, order=('nlsat', 'core'), div_mode='goal', sqrt_mode='goal', feas_ms=150)


# =========================================================================================== O5: outer loop, driver
MAIN = 'bound_constrained_trust_region_minimize'
ADMISSIBLE = '0<t1<1<t2, 0<eta1<=eta2<eta3<1, tol>0, 0<min_tr_size<tr_size, max_spg_iters>=1, max_cumulative_spg_iters>=1 (all symbolic)'


def sel_main_for(fd):
    k = [i for i, s in enumerate(fd.body) if isinstance(s, ast.For)][0]
    return fd.body[k], []


def main_settings(ex, mod, n_iters=3, incremental=False, check_stability=False):
    t1, t2, e1, e2, e3 = [ex.real(k) for k in ('t1', 't2', 'eta1', 'eta2', 'eta3')]
    tol, tr, mintr = ex.real('tol'), ex.real('tr_size'), ex.real('min_tr_size')
    ms, mcs = ex.int('max_spg_iters'), ex.int('max_cumulative_spg_iters')
    for c in (t1 > 0, t1 < 1, t2 > 1, e1 > 0, e1 <= e2, e2 < e3, e3 < 1, tol > 0, mintr > 0, mintr < tr, ms >= 1, mcs >= 1):
        ex.assume(c)
    return mod.get_settings(t1=t1, t2=t2, eta1=e1, eta2=e2, eta3=e3, max_trust_iters=n_iters, tol=tol, max_spg_iters=ms, max_cumulative_spg_iters=mcs,
                            spg_tol=0.2 * tol, tr_size=tr, min_tr_size=mintr, check_stability=check_stability, use_incremental_objective=incremental, debug_info=False)


def optimality2(mod, obj, xx, b):
    """squared projected-gradient optimality measure |P(x - grad f(x)) - x|^2 (P is the real `project`, see O1)"""
    R = mod.project(xx - obj.gradient(xx), b) - xx
    return NP.dot(R, R)


def make_main_step_harness(pattern, incremental, nkinds=2, check_stability=False):
    n = len(pattern)

    def fn(ex):
        mod = load_spg()
        install_brentq_contract(ex, mod)     # the unchanged body never reaches brentq; a changed one may (contract as in O2)
        step = px.extract_step(mod, MAIN, sel_main_for)[0]
        obj = UObjective(ex, n, precond='identity')
        settings = main_settings(ex, mod, incremental=incremental, check_stability=check_stability)
        b = sym_bounds(ex, pattern)
        x = ex.vec('x', n)
        assume_in_box(ex, x, b)
        g = obj.gradient(x)
        o = obj.value(x)
        prevOpt = NP.linalg.norm(mod.project(x - g, b) - x)
        # loop-head invariant: the current iterate failed the convergence test (initial test / test on every trial point)
        ex.assume(prevOpt >= settings.tol)
        trHead = ex.real('trSize_head')
        ex.assume(trHead > 0)
        alpha0 = ex.real('alpha_head')
        ex.assume(alpha0 > 0)
        ci = ex.int('cumulativeSpgIters')
        ex.assume(ci >= 0)
        tried = bool(ex.bool('triedNewPrecond'))
        seen = {}

        # sub-solvers by contract (O3 / O4): ANY step that keeps x + step in the box and inside the trust region
        def stub_cauchy(x_, g_, hv_, bounds_, alpha_, trSize_, settings_):
            seen['cp_args'] = (x_, g_, bounds_, alpha_, trSize_)
            cp = ex.vec('cauchyPoint', n)
            assume_in_box(ex, x_ + cp, bounds_)
            ex.assume(NP.dot(cp, cp) <= trSize_ * trSize_)
            a = ex.real('alpha_cp')
            ex.assume(a > 0)
            return a, cp

        def stub_spg(x_, cs_, r_, bounds_, hv_, precond_, trSize_, settings_):
            seen['spg_args'] = (x_, cs_, r_, bounds_, trSize_)
            s = ex.vec('s', n)
            assume_in_box(ex, x_ + s, bounds_)
            ex.assume(NP.dot(s, s) <= trSize_ * trSize_)
            kinds = [mod.boundaryString, mod.interiorString + '_', mod.cauchyString][:nkinds]
            kind = ex.int('stepKind')
            ex.assume(kind >= 0)
            ex.assume(kind <= len(kinds) - 1)
            st = kinds[-1]
            for kk in range(len(kinds) - 1):
                if bool(kind == kk):
                    st = kinds[kk]
                    break
            it = ex.int('spgIters')
            ex.assume(it >= 0)
            mopt = ex.real('modelOptimality')
            ex.assume(mopt >= 0)
            seen['s'] = s
            return s, ex.real('modelObjective'), mopt, st, it
        mod.find_generalized_cauchy_point = stub_cauchy
        mod.solve_spg_subproblem = stub_spg
        events = []

        def callback(xx, oo):
            events.append(xx)
        pre = dict(x=x, g=g, o=o, prevOptimality=prevOpt, trSize=trHead, triedNewPrecond=tried, alpha=alpha0, cumulativeSpgIters=ci, gradient=obj.gradient, i=0)
        kind, val, loc = step(pre, lambda l: {}, obj, x, b, settings, callback)
        prune(ex)
        mo = loc.get('modelObjective')
        if mo is not None and is_sym(mo) and 'rho' in loc:
            # stated assumption: the model change of a trial step is not exactly zero (signed-zero division corner, as in C01)
            ex.late_assume(SymBool(mo.z != 0))
        y = loc.get('y')
        tol2 = px.unwrap(settings.tol * settings.tol)
        fo = px.unwrap(o)
        ex.goal('subsolvers_called_on_current_iterate_and_radius', Holds(seen['cp_args'][0] is x and seen['cp_args'][1] is g and seen['cp_args'][2] is b and seen['cp_args'][4] is trHead
                                                                     and seen['spg_args'][0] is x and seen['spg_args'][2] is g and seen['spg_args'][3] is b and seen['spg_args'][4] is trHead))
        ex.goal('trial_point_is_x_plus_step', Eq(px.unwrap(y), px.unwrap(x + seen['s'])))
        if kind == 'return':
            xr, flag = val
            ex.goal('returned_point_feasible', box_atom(xr, b), info='returned point outside the box')
            if flag is True:
                ex.goal('returned_point_was_reported', Holds(len(events) >= 1 and events[-1] is xr), info='success return of a point never passed to the callback')
                ex.goal('true_flag_only_with_small_optimality', Lt(px.unwrap(optimality2(mod, obj, xr, b)), tol2), info='success flag with optimality measure >= tol')
                if not incremental:
                    ex.goal('descent_on_converged_return', Le(px.unwrap(obj.value(xr)), fo), info='returned point has higher objective than the last accepted iterate')
            else:
                acc = bool(loc['willAccept'])
                last = y if acc else x
                ex.goal('false_flag_returns_last_accepted', Holds(xr is last and xr is loc['x']), info='failure exit must return the accepted iterate')
                ex.goal('flag_is_bool_false', Holds(flag is False))
                ex.goal('failure_return_was_reported', Holds(len(events) >= 1 and events[-1] is xr))
                if acc and not incremental:
                    ex.goal('descent_on_acceptance', Le(px.unwrap(obj.value(xr)), fo), info='accepted iterate has higher objective')
        else:
            acc = bool(loc['willAccept'])
            ex.goal('callback_exactly_on_acceptance', Holds(len(events) == (1 if acc else 0)), info='callback count')
            if acc:
                xn = loc['x']
                ex.goal('accepted_iterate_feasible', box_atom(xn, b), info='accepted iterate outside the box')
                ex.goal('accepted_iterate_is_trial_point', Holds(xn is y and events[0] is y))
                if not incremental:
                    ex.goal('descent_on_acceptance', Le(px.unwrap(obj.value(xn)), fo), info='accepted iterate has higher objective')
                ex.goal('inv_gradient_refreshed', Eq(px.unwrap(loc['g']), px.unwrap(obj.gradient(xn))))
                ex.goal('inv_objective_refreshed', Eq(px.unwrap(loc['o']), px.unwrap(obj.value(xn))))
                po = loc['prevOptimality']
                ex.goal('inv_optimality_refreshed', Eq(px.unwrap(po * po), px.unwrap(optimality2(mod, obj, xn, b)), when=px.unwrap(po >= 0)))
                ex.goal('inv_not_converged_at_new_iterate', Le(px.unwrap(settings.tol), px.unwrap(po)))
            else:
                ex.goal('rejected_keeps_iterate', Holds(loc['x'] is x and loc['g'] is g and loc['o'] is o and loc['prevOptimality'] is prevOpt))
            rho = loc['rho']
            trPol = loc['trSizeUsed']       # trSizeUsed = trSize right after the policy update (before a possible reset)
            poor = not bool(rho >= settings.eta2)
            if poor:
                ex.goal('radius_shrinks_on_poor_ratio', Eq(px.unwrap(trPol), px.unwrap(trHead * settings.t1)))
            else:
                ex.goal('radius_never_shrinks_on_good_ratio', Le(px.unwrap(trHead), px.unwrap(trPol)))
            ex.goal('inv_radius_positive', Lt(0.0, px.unwrap(loc['trSize'])))
            ex.goal('inv_counter_nonnegative', Holds(px.unwrap(loc['cumulativeSpgIters'] >= 0)))
    return fn


MAIN_GOALS = ['returned_point_feasible', 'returned_point_was_reported', 'true_flag_only_with_small_optimality', 'descent_on_converged_return', 'false_flag_returns_last_accepted',
              'callback_exactly_on_acceptance', 'accepted_iterate_feasible', 'descent_on_acceptance', 'accepted_iterate_is_trial_point', 'inv_gradient_refreshed',
              'inv_objective_refreshed', 'inv_optimality_refreshed', 'rejected_keeps_iterate', 'radius_shrinks_on_poor_ratio', 'radius_never_shrinks_on_good_ratio']


def _o5_note(h, n, mode):
    h.encoded('optimism.TrustRegionSPG:bound_constrained_trust_region_minimize (body of its `for` loop, extracted by AST from the current source)',
              'optimism.TrustRegionSPG:is_converged', 'optimism.TrustRegionSPG:is_on_boundary', 'optimism.TrustRegionSPG:project', 'optimism.TrustRegionSPG:print_min_banner')
    h.bounds('dimension n=%d; objective: arbitrary (value, gradient at each point are free reals, functionally consistent); box: every bound-kind pattern listed in the query names, finite bounds symbolic; '
             'loop-head state: arbitrary feasible x, trSize > 0, alpha > 0, counters, flags subject to Inv; settings: %s; %s mode' % (n, ADMISSIBLE, mode))
    h.assume_note('stub: find_generalized_cauchy_point and solve_spg_subproblem return ANY step with x + step in the box and |step| <= trSize, any model value, step type and iteration count (contracts established by O3/O4)',
                  'assumption: the model change reported by the sub-solver is not exactly 0 (signed-zero division corner; DESIGN C01)',
                  'stub: print/format are no-ops; debug_info=False; preconditioner = identity (the SPG solver does not use it)',
                  'stub: scipy.optimize.brentq by contract as in O2 (not reached by the unchanged outer loop); the goal true_flag_only_with_small_optimality uses the check\'s own measure |P(y - grad f(y)) - y| built from `project` (O1) and the objective model, not the value computed by the code',
                  'inductive step: pre-state is any state satisfying Inv (x feasible, g = grad f(x), o = f(x), prevOptimality = |P(x-g)-x| >= tol, trSize > 0), reachable or not')
    h.outside('convergence (also on convex problems); IEEE rounding; RuntimeError raised by the Cauchy-point search propagates to the caller')


NSHARD5 = 8


def _reg_main(obname, doc, mode, tiers, pattern, **kw):
    for w in range(NSHARD5):
        def ob(h, w=w):
            _o5_note(h, len(pattern), mode)
            px.run_px(h, 'step', make_main_step_harness(pattern, **kw), cap=30, div_mode='goal', sqrt_mode='goal', shard=(w, NSHARD5), shard_depth=5, feas_ms=100)
        ob.__doc__ = doc
        obligation(P, '%s[shard %d/%d]' % (obname, w, NSHARD5), tiers=tiers, cap=900)(ob)


_reg_main('O5.step_default[ff]', 'one pass through the main loop body of the real bound_constrained_trust_region_minimize from an arbitrary loop-head state: objective-value mode, n=1, finite box',
          'default objective-value', ('quick', 'thorough'), ('ff',), incremental=False)
_reg_main('O5.step_default[fi]', 'same with a one-sided box (upper bound +inf)', 'default objective-value', ('thorough',), ('fi',), incremental=False)
_reg_main('O5.step_default[ff.if]', 'same with n=2, one finite and one one-sided coordinate, three step types', 'default objective-value', ('thorough',), ('ff', 'if'), incremental=False, nkinds=3)
_reg_main('O5.step_incremental[ff]', 'incremental-objective mode: feasibility, flag, callback and radius clauses (descent is not claimed by the property in this mode)',
          'gradient-based incremental-objective', ('thorough',), ('ff',), incremental=True, check_stability=True)


def make_main_whole_harness(pattern, n_iters=0):
    """the whole real function with max_trust_iters = 0: prologue (initial convergence test, first Cauchy step length) and
    the iteration-cap exit"""
    n = len(pattern)

    def fn(ex):
        mod = load_spg()
        install_brentq_contract(ex, mod)
        obj = UObjective(ex, n, precond='identity')
        settings = main_settings(ex, mod, n_iters=n_iters)
        b = sym_bounds(ex, pattern)
        x = ex.vec('x', n)
        assume_in_box(ex, x, b)
        events = []
        xr, flag = mod.bound_constrained_trust_region_minimize(obj, x, b, settings, callback=lambda xx, oo: events.append(xx))
        prune(ex)
        opt2 = px.unwrap(optimality2(mod, obj, xr, b))
        tol2 = px.unwrap(settings.tol * settings.tol)
        ex.goal('returned_point_is_start', Holds(xr is x))
        if flag is True:
            ex.goal('true_flag_only_with_small_optimality', Lt(opt2, tol2))
            ex.goal('returned_point_was_reported', Holds(len(events) >= 1 and events[-1] is xr))
        else:
            ex.goal('false_flag_is_bool_false', Holds(flag is False))
            ex.goal('false_flag_means_not_converged_at_start', Le(tol2, opt2))
    return fn


@obligation(P, 'O5.prologue_epilogue', cap=300)
def o5pe(h):
    """whole function with an iteration cap of 0: initial convergence test on the projected-gradient measure, definedness of
    the first Cauchy step length, iteration-cap exit returns the start with False"""
    _o5_note(h, 1, 'default')
    h.encoded('optimism.TrustRegionSPG:bound_constrained_trust_region_minimize (whole function, max_trust_iters=0)')
    for pattern in [('ff',), ('fi',), ('if',), ('ii',)] + ([('ff', 'if')] if h.thorough() else []):
        px.run_px(h, 'whole0[%s]' % ','.join(pattern), make_main_whole_harness(pattern), cap=30, div_mode='goal', sqrt_mode='goal', feas_ms=100,
                  expect_goals=['true_flag_only_with_small_optimality', 'returned_point_was_reported', 'false_flag_means_not_converged_at_start', 'returned_point_is_start'])


class DriverObjective:
    def __init__(self, ex, n):
        self.ex = ex
        self.p = 'P_OLD'
        self.scaling = ex.vec('scaling', n)
        self.invScaling = ex.vec('invScaling', n)
        self.trace = []

    def update_precond(self, x):
        self.trace.append(('update_precond', self.p, x))


def make_solve_harness(useWarmStart, updatePrecond, n=2):
    def fn(ex):
        mod = load_spg()
        obj = DriverObjective(ex, n)
        for k in range(n):
            ex.assume(obj.scaling[k] > 0)
        pNew = ('P_NEW',)
        dx, xs, x0 = ex.vec('dxWarm', n), ex.vec('xSolver', n), ex.vec('x0', n)
        lb, ub = ex.vec('lowerBounds', n), ex.vec('upperBounds', n)
        for k in range(n):
            ex.assume(lb[k] <= x0[k])
            ex.assume(x0[k] <= ub[k])
        start_scaled = obj.scaling * x0
        flagv = bool(ex.bool('solverFlag'))
        seen = {}

        class WS:
            @staticmethod
            def warm_start_increment(objective, x, p, *a, **k):
                seen['ws_p_at_call'] = objective.p
                seen['ws_x'] = onp.array(x)
                seen['ws_pnew'] = p
                return dx

        def solver(objective, xstart, bounds, settings, callback=None, **kw):
            seen['p_at_solver_entry'] = objective.p
            seen['xstart'] = xstart
            seen['bounds'] = bounds
            seen['precond_updates_before_solve'] = list(objective.trace)
            return xs, flagv
        mod.WarmStart = WS
        mod.bound_constrained_trust_region_minimize = solver
        xr, fl = mod.solve(obj, x0, pNew, lb, ub, 'SETTINGS', callback=None, useWarmStart=useWarmStart, updatePrecond=updatePrecond)
        ex.goal('new_parameters_installed_before_solve', Holds(seen.get('p_at_solver_entry') is pNew), info='the minimiser ran with the old parameter set')
        ex.goal('objective_carries_new_parameters_after', Holds(obj.p is pNew))
        ex.goal('flag_is_the_solvers', Holds(fl is flagv))
        ex.goal('result_is_unscaled_solver_output', Eq(px.unwrap(xr), px.unwrap(obj.invScaling * xs)))
        bd = seen['bounds']
        ex.goal('bounds_are_scaled_bounds', Eq(px.unwrap(onp.asarray(bd)), px.unwrap(onp.column_stack((obj.scaling * lb, obj.scaling * ub)))))
        start = start_scaled
        if useWarmStart:
            ex.goal('warm_start_sees_old_parameters', Holds(seen.get('ws_p_at_call') == 'P_OLD' and seen.get('ws_pnew') is pNew))
            ex.goal('warm_start_from_scaled_start', Eq(px.unwrap(seen['ws_x']), px.unwrap(start_scaled)))
            start = start_scaled + dx
        else:
            ex.goal('start_feasible_in_scaled_box_without_warm_start', box_atom(seen['xstart'], bd))
        ex.goal('solver_starts_from_scaled_start_plus_increment', Eq(px.unwrap(seen['xstart']), px.unwrap(start)))
        if updatePrecond:
            tr = seen['precond_updates_before_solve']
            ex.goal('preconditioner_refreshed_with_new_parameters_before_solve', Holds(len(tr) >= 1 and tr[-1][1] is pNew))
    return fn


@obligation(P, 'O5.solve_driver_parameter_order', cap=300)
def o5d(h):
    """solve: objective.p is the new parameter set when the minimiser is entered, for all four flag combinations; warm start
    sees the old parameters; bounds and start are scaled, the result unscaled; the returned flag is the minimiser's"""
    h.encoded('optimism.TrustRegionSPG:solve (real source)')
    h.bounds('n=2 unknowns; symbolic start (inside the symbolic box), positive scaling vector, arbitrary invScaling, warm-start increment and solver output; all 4 combinations of useWarmStart/updatePrecond')
    h.assume_note('stubs: WarmStart.warm_start_increment returns an arbitrary vector; bound_constrained_trust_region_minimize returns an arbitrary point and flag')
    h.outside('feasibility of the start after a warm-start increment: `solve` with useWarmStart=True does not re-project xBar0 + dxBar onto the box (the property starts from a feasible point)')
    for ws in (True, False):
        for up in (True, False):
            px.run_px(h, 'driver[warm=%s,precond=%s]' % (ws, up), make_solve_harness(ws, up), cap=20)


@obligation(P, 'O6.settings_constructor', cap=300)
def o6_settings(h):
    """TrustRegionSPG.get_settings puts every keyword into the Settings field of the same name (the solver reads fields by name)"""
    from .c01 import make_generic_settings_harness
    h.encoded('optimism.TrustRegionSPG:get_settings', 'optimism.TrustRegionSPG:Settings')
    h.bounds('every keyword symbolic (reals, integers, Booleans)')
    import inspect
    from ..px import load_module
    m = load_module('optimism/TrustRegionSPG.py')
    px.run_px(h, 'settings', make_generic_settings_harness('optimism/TrustRegionSPG.py', 'settings_with_new_tol' if hasattr(m, 'settings_with_new_tol') else None), cap=20)
