"""C03 — function space reproduces polynomials and integrates them exactly on any mesh (JX + ground table facts).

Decomposition (DESIGN.md section 5 / C03):

* G  ground facts about the REAL tables (`Interpolants.compute_shapes`, `make_parent_element*`, `QuadratureRule.*`),
     evaluated in exact rational arithmetic on the binary64 table entries (no free variable -> `h.fact`; a failing
     fact is reported as a violation whose replay is the recomputation of the fact).
* A  affine pull-back identities decided by the SOLVER on elements whose vertices are free reals, for all three cyclic
     node orders, from the jaxprs of the real FunctionSpace / Mesh / Surface functions. The exact identities are
     SCALE-FREE (unbounded coordinates, only det J > 0 -- or nothing at all); only the atoms that carry an absolute
     table-defect tolerance are stated on the box [-4,4]^2 (the linear ones are homogeneous, so they scale).
* The composition "G + A => reproduction / exact integration on every valid mesh" is stated (assume_note/outside),
  not machine checked.
"""
import math
from fractions import Fraction as Fr

import numpy as onp
import jax
import jax.numpy as jnp

from ..core import obligation
from ..jxh import Case
from ..sym import Le, Lt, Eq, Holds, v_abs, v_lt, v_le, v_and, v_or, v_sub, v_add, v_mul, v_sum, flat, sym_array, toz

P = 'C03'
EPS = 2.0 ** -52
ULPS = 64.0                      # G tolerance: 64 ulp * cond
BOX = 4.0                        # vertex coordinates in [-BOX, BOX]
DET_MIN = 0.02   # kept for vf.props.c13, whose no-coincidence obligations need a positive lower bound on det J (C03 itself is scale-free: det J > 0)
TWO_PI = 2 * math.pi             # the binary64 constant the code multiplies with (2*np.pi is exact doubling of np.pi)
SYM_ULPS = 16.0                  # cyclic symmetry of the decimal triangle tables (QuadratureRule docstring), absolute ulps of 1
TOL_W = ULPS * EPS               # |sum of weights - exact| <= TOL_W (established by G, re-proved where used)
TOL_X = 8 * ULPS * EPS * BOX     # affine image of a quadrature point: <= 5 nodal defects of 64 ulp times |v| <= BOX
SC = 1e-3                        # replay/margin scale of the tolerance atoms (replay tolerance 1e-12)
CYCLIC = ([0, 1, 2], [1, 2, 0], [2, 0, 1])
TRI_RULE_DEGREES = (1, 2, 4, 5, 6, 10)   # the six distinct tables behind degrees 0..10

COMPOSITION = ('composition (stated, not machine-checked): polynomial spaces are affine invariant, so the ground facts G '
               '(reference element: partition of unity, zero gradient sum, nodal reproduction of all monomials up to the '
               'order, moment exactness of the rules) together with the affine pull-back identities A (gradients = J^-T dN, '
               'vols = det J * w [* 2 pi r], points = v2 + J xi, edge normals/jacobians) imply reproduction and exact '
               'integration on every valid affine triangle mesh; mesh sums telescope element by element')
OUTSIDE = ('rounding error of evaluating the formulas in binary64 (values are reals; table entries are the exact rationals of '
           'their binary64 values)',
           'curved (non-affine) higher-order elements: the code itself builds J from the three vertex nodes only',
           'meshes with inverted or exactly degenerate elements (det J <= 0)')


# Note on the linear goals (A4 points, elevated nodes, reference gradient of the coordinate map, edge quadrature points): z3 answers `unknown` as soon as
# an irrelevant non-linear literal (det J > 0, or the side conditions of a linear solve) is present, so these goals are proved for EVERY triangle of the
# box (no area hypothesis, which is the stronger statement) from cases that do not build shape gradients.
DESIGNED_NOT_REGISTERED = [
    ('monolithic gradient reproduction |sum_a u_a (x) grad N_a - grad u| <= tol on a symbolic triangle (real tables, relational solve)',
     'unknown at 120 s in both back ends already for P1 (design probe); replaced by the exact chain G J = sum_a u_a (x) dN_a for ALL dN and ALL nodal fields '
     '(O6 A4grad, O8 FS2grad) + the linear fact |sum_a x_a (x) dN_a - J| <= tol (O6) + the ground reproduction facts (O1)'),
    ('divergence theorem for LINEAR fields through FunctionSpace.integrate_function_on_edges with a tolerance (|flux - tr(A) area| <= tol, A, b, vertices symbolic)',
     'unknown at 120 s (core and nlsat, 12 reals + 3 sqrt); by DESIGN it reduces to the 1-D ground moments (O2/O3) + the exact edge identities of O7 '
     '(integral of n = W * normal*jac, flux of a constant = K * c.normal*jac, closed-boundary flux of a constant = 0, edge points affine)'),
    ('Surface.integrate_function_on_surface: closed-boundary flux of a constant field = 0 as ONE query',
     'unknown at 60 s (six sqrt terms: Surface normalises the normal and the jacobian separately); registered instead as a cut-lemma chain: total = sum of the '
     'three edge integrals, each edge integral = W c.(T_y,-T_x) (both on the code\'s terms), last link over fresh reals (O9)'),
    ('mesh integral of x*y against the closed form with a tolerance (degree-4 inequality in 8 reals)',
     'unknown at 60 s; registered as the exact identity integral = sum_e det J_e x^T M y with the exact mass matrix M of the real tables, and the ground fact '
     '|M_ab - (1+delta_ab)/24| <= 64 ulp (O8)'),
]


def _mods():
    from optimism import FunctionSpace, Interpolants, QuadratureRule, Mesh, Surface
    return FunctionSpace, Interpolants, QuadratureRule, Mesh, Surface


def F(x):
    return Fr(float(x))


def s0(a):
    return a[()] if hasattr(a, 'shape') and a.shape == () else a


def pyf(a):
    """nested python floats of a (jax/numpy) table"""
    return onp.asarray(a, dtype=float).tolist()


# ------------------------------------------------------------------------------------------ ground helper
def ground(h, name, ok, detail, vals=None):
    """ground fact from the real tables; a failing fact is a violation (its replay re-evaluates the fact)"""
    qn = '%s/%s' % (h.ob, name)
    if h.replay is not None:
        if h.replay.get('query') == qn:
            h.replay_result = dict(status='discharged' if ok else 'violated', detail=detail)
        return
    if ok:
        h.fact(name, True, detail)
    else:
        h.violation(name, vals or {}, detail)


def parent(order, bubble):
    I = _mods()[1]
    return I.make_parent_element_2d_with_bubble(order) if bubble else I.make_parent_element_2d(order)


def elem_name(order, bubble):
    return 'P%d%s' % (order, 'b' if bubble else '')


def orders(h):
    return range(1, 6) if h.thorough() else range(1, 4)


# ------------------------------------------------------------------------------------------ G: ground facts
def _shape_defects_2d(pe, order, qr):
    """exact-rational defects of the real shape tables at the points of one rule, in units of eps*cond"""
    I = _mods()[1]
    sh = I.compute_shapes(pe, qr.xigauss)
    N, dN = onp.asarray(sh.values, dtype=float), onp.asarray(sh.gradients, dtype=float)
    xn = [[F(v) for v in r] for r in onp.asarray(pe.coordinates, dtype=float)]
    xi = [[F(v) for v in r] for r in onp.asarray(qr.xigauss, dtype=float)]
    nn = len(xn)
    assert N.shape == (len(xi), nn) and dN.shape == (len(xi), nn, 2), (N.shape, dN.shape)
    w = dict(pou=0.0, gradsum=0.0, repro=0.0, reprograd=0.0)
    eps = Fr(EPS)
    pw = lambda x, k: x ** k if k > 0 else Fr(1)
    for q in range(len(xi)):
        Nq = [F(v) for v in N[q]]
        dq = [[F(v) for v in r] for r in dN[q]]
        L = sum(abs(v) for v in Nq) * eps
        Lg = max(sum(abs(r[c]) for r in dq) for c in range(2)) * eps
        w['pou'] = max(w['pou'], float(abs(sum(Nq) - 1) / L))
        for c in range(2):
            w['gradsum'] = max(w['gradsum'], float(abs(sum(r[c] for r in dq)) / Lg))
        x, y = xi[q]
        for i in range(order + 1):
            for j in range(order + 1 - i):
                m = [pw(p[0], i) * pw(p[1], j) for p in xn]
                val = sum(Nq[a] * m[a] for a in range(nn))
                w['repro'] = max(w['repro'], float(abs(val - pw(x, i) * pw(y, j)) / L))
                gx = sum(dq[a][0] * m[a] for a in range(nn))
                gy = sum(dq[a][1] * m[a] for a in range(nn))
                ex = i * pw(x, i - 1) * pw(y, j) if i > 0 else Fr(0)
                ey = j * pw(x, i) * pw(y, j - 1) if j > 0 else Fr(0)
                w['reprograd'] = max(w['reprograd'], float(abs(gx - ex) / Lg), float(abs(gy - ey) / Lg))
    return w


@obligation(P, 'O1.G_triangle_shape_tables', cap=280)
def o1(h):
    """G: real triangle shape tables at the points of every triangle rule: partition of unity, zero gradient sum,
    nodal reproduction of every monomial of degree <= order (values and reference gradients), within 64 ulp * cond"""
    install_case_split()
    FS, I, QR, M, S = _mods()
    h.encoded(I.compute_shapes, I.shape2d, I.vander2d, I.shape2dBubble, I.make_parent_element_2d, I.make_parent_element_2d_with_bubble,
              I.get_lobatto_nodes_1d, QR.create_quadrature_rule_on_triangle)
    h.bounds('element orders 1..3 (quick) / 1..5 (thorough), bubble off/on, all six tabulated triangle rules (degrees 1..10); '
             'tolerance %g ulp * cond, cond = sum_a |N_a(xi_q)| (values) resp. max_c sum_a |dN_a/dxi_c| (gradients)' % ULPS)
    h.outside(*OUTSIDE)
    h.assume_note(COMPOSITION, 'ground facts: no free variable; evaluated in exact rational arithmetic on the binary64 entries of the tables '
                  'returned by the real code on this run')
    for bubble in (False, True):
        for order in orders(h):
            pe = parent(order, bubble)
            for d in TRI_RULE_DEGREES:
                qr = QR.create_quadrature_rule_on_triangle(d)
                w = _shape_defects_2d(pe, order, qr)
                for k, v in w.items():
                    ground(h, '%s[%s,rule%d]' % (k, elem_name(order, bubble), d), v <= ULPS,
                           'worst defect %.3g ulp*cond (allowed %g)' % (v, ULPS), dict(order=order, bubble=bubble, rule_degree=d, defect_ulps=v))


@obligation(P, 'O2.G_line_tables_and_topology', cap=200)
def o2(h):
    """G: 1-D (edge) shape tables at every Gauss rule 0..25: partition of unity, zero derivative sum, reproduction of
    x^i, i <= order; parent-element topology: vertex nodes at (1,0),(0,1),(0,0), face k runs from vertex k to k+1
    through the images of the 1-D Lobatto nodes"""
    install_case_split()
    FS, I, QR, M, S = _mods()
    h.encoded(I.compute_shapes, I.shape1d, I.vander1d, I.make_parent_element_1d, I.make_parent_element_2d, I.make_parent_element_2d_with_bubble,
              QR.create_quadrature_rule_1D)
    h.bounds('line element orders 1..3 (quick) / 1..5 (thorough) at the Gauss-Legendre rules of degree 0..25; triangle parent elements of the '
             'same orders, bubble off/on; tolerance %g ulp * cond' % ULPS)
    h.outside(*OUTSIDE)
    h.assume_note(COMPOSITION)
    eps = Fr(EPS)
    pw = lambda x, k: x ** k if k > 0 else Fr(1)
    for order in orders(h):
        pe1 = I.make_parent_element_1d(order)
        xn = [F(v) for v in onp.asarray(pe1.coordinates, dtype=float)]
        vn = [int(v) for v in pe1.vertexNodes]
        ground(h, 'line_vertices[P%d]' % order, vn == [0, order] and xn[0] == 0 and xn[-1] == 1 and all(a < b for a, b in zip(xn, xn[1:])),
               'vertexNodes %s, nodes %s' % (vn, [float(x) for x in xn]), dict(order=order))
        w = dict(pou=0.0, dsum=0.0, repro=0.0, reprograd=0.0)
        seen = set()
        for d in range(0, 26):
            qr = QR.create_quadrature_rule_1D(d)
            xs = onp.asarray(qr.xigauss, dtype=float)
            if len(xs) in seen:
                continue
            seen.add(len(xs))
            sh = I.compute_shapes(pe1, qr.xigauss)
            N, dN = onp.asarray(sh.values, dtype=float), onp.asarray(sh.gradients, dtype=float)
            assert N.shape == (order + 1, len(xs)) == dN.shape
            for q in range(len(xs)):
                Nq = [F(v) for v in N[:, q]]
                dq = [F(v) for v in dN[:, q]]
                L, Lg = sum(abs(v) for v in Nq) * eps, sum(abs(v) for v in dq) * eps
                x = F(xs[q])
                w['pou'] = max(w['pou'], float(abs(sum(Nq) - 1) / L))
                w['dsum'] = max(w['dsum'], float(abs(sum(dq)) / Lg))
                for i in range(order + 1):
                    val = sum(Nq[a] * pw(xn[a], i) for a in range(order + 1))
                    der = sum(dq[a] * pw(xn[a], i) for a in range(order + 1))
                    w['repro'] = max(w['repro'], float(abs(val - pw(x, i)) / L))
                    w['reprograd'] = max(w['reprograd'], float(abs(der - (i * pw(x, i - 1) if i else 0)) / Lg))
        for k, v in w.items():
            ground(h, 'line_%s[P%d,rules0..25]' % (k, order), v <= ULPS, 'worst defect %.3g ulp*cond over %d distinct rules (allowed %g)' % (v, len(seen), ULPS),
                   dict(order=order, defect_ulps=v))
        for bubble in (False, True):
            pe = parent(order, bubble)
            c = [[F(v) for v in r] for r in onp.asarray(pe.coordinates, dtype=float)]
            vn = [int(v) for v in pe.vertexNodes]
            fn = onp.asarray(pe.faceNodes).tolist()
            V = [c[i] for i in vn]
            ok = V == [[1, 0], [0, 1], [0, 0]]
            ground(h, 'vertex_nodes[%s]' % elem_name(order, bubble), ok, 'reference vertices %s' % [[float(x) for x in v] for v in V], dict(order=order, bubble=bubble))
            worst, topo = 0.0, True
            for k in range(3):
                topo = topo and fn[k][0] == vn[k] and fn[k][-1] == vn[(k + 1) % 3] and len(fn[k]) == order + 1
                for m in range(min(order + 1, len(fn[k]))):
                    for dd in range(2):
                        ex = (1 - xn[m]) * V[k][dd] + xn[m] * V[(k + 1) % 3][dd]
                        worst = max(worst, float(abs(c[fn[k][m]][dd] - ex) / eps))
            interior = sorted(set(range(len(c))) - set(sum(fn, [])))
            topo = topo and interior == sorted(int(v) for v in pe.interiorNodes)
            ground(h, 'face_nodes[%s]' % elem_name(order, bubble), topo and worst <= ULPS,
                   'face k = vertex k -> k+1 through the 1-D Lobatto images: topology %s, worst coordinate defect %.3g ulp' % (topo, worst),
                   dict(order=order, bubble=bubble, defect_ulps=worst))


@obligation(P, 'O3.G_quadrature_moments', cap=200)
def o3(h):
    """G: moment exactness of the real rules: triangle sum_q w_q xi^i eta^j = i! j!/(i+j+2)! for i+j <= degree (1..10),
    1-D sum_q w_q x^i = 1/(i+1), i <= degree (0..25); positive weights, points inside the reference domain, documented
    cyclic symmetry of the triangle tables"""
    install_case_split()
    FS, I, QR, M, S = _mods()
    h.encoded(QR.create_quadrature_rule_on_triangle, QR.create_quadrature_rule_1D)
    h.bounds('triangle rules requested with degree 0..10, 1-D rules degree 0..25; tolerance %g ulp of sum_q |w_q| (1/2 resp. 1)' % ULPS)
    h.outside(*OUTSIDE)      # the padded jit-able 1-D factory is O12
    h.assume_note(COMPOSITION)
    eps = Fr(EPS)
    pw = lambda x, k: x ** k if k > 0 else Fr(1)
    for d in range(0, 11):
        qr = QR.create_quadrature_rule_on_triangle(d)
        xi = [[F(v) for v in r] for r in onp.asarray(qr.xigauss, dtype=float)]
        w = [F(v) for v in onp.asarray(qr.wgauss, dtype=float)]
        scale = sum(abs(v) for v in w) * eps
        worst, at = 0.0, None
        for i in range(d + 1):
            for j in range(d + 1 - i):
                s = sum(w[q] * pw(xi[q][0], i) * pw(xi[q][1], j) for q in range(len(w)))
                ex = Fr(math.factorial(i) * math.factorial(j), math.factorial(i + j + 2))
                e = float(abs(s - ex) / scale)
                if e > worst:
                    worst, at = e, (i, j)
        ground(h, 'triangle_moments[degree%d]' % d, worst <= ULPS, '%d points, worst moment defect %.3g ulp at monomial %s (allowed %g)' % (len(w), worst, at, ULPS),
               dict(degree=d, defect_ulps=worst, monomial=at))
        # documented contract of the tables: cyclic symmetry in triangular coordinates (xi,eta,zeta) -> (eta,zeta,xi), weights equal on
        # an orbit; the tables are decimal to 15-18 digits, so up to SYM_ULPS ulp. A single corrupted digit of one entry breaks it.
        sym = Fr(0)
        for q in range(len(w)):
            img = (xi[q][1], 1 - xi[q][0] - xi[q][1])
            sym = max(sym, min(max(abs(img[0] - xi[p][0]), abs(img[1] - xi[p][1]), abs(w[p] - w[q])) for p in range(len(w))))
        ground(h, 'triangle_rule_cyclically_symmetric[degree%d]' % d, sym <= SYM_ULPS * eps, 'worst orbit defect %.3g ulp (allowed %g)' % (float(sym / eps), SYM_ULPS),
               dict(degree=d, defect_ulps=float(sym / eps)))
        inside = all(v > 0 for v in w) and all(p[0] >= 0 and p[1] >= 0 and p[0] + p[1] <= 1 for p in xi)
        ground(h, 'triangle_rule_valid[degree%d]' % d, inside and len(xi) == len(w), 'weights positive, points in the reference triangle', dict(degree=d))
    for d in range(0, 26):
        qr = QR.create_quadrature_rule_1D(d)
        x = [F(v) for v in onp.asarray(qr.xigauss, dtype=float)]
        w = [F(v) for v in onp.asarray(qr.wgauss, dtype=float)]
        scale = sum(abs(v) for v in w) * eps
        worst, at = 0.0, None
        for i in range(d + 1):
            e = float(abs(sum(w[q] * pw(x[q], i) for q in range(len(w))) - Fr(1, i + 1)) / scale)
            if e > worst:
                worst, at = e, i
        ok = worst <= ULPS and all(v > 0 for v in w) and all(0 <= p <= 1 for p in x)
        ground(h, 'line_moments[degree%d]' % d, ok, '%d points, worst moment defect %.3g ulp at x^%s (allowed %g); weights positive, points in [0,1]' % (len(w), worst, at, ULPS),
               dict(degree=d, defect_ulps=worst, power=at))


# ------------------------------------------------------------------------------------------ A: geometry oracle
def box(*arrs):
    out = []
    for a in arrs:
        for x in flat(a):
            out += [v_le(-BOX, x), v_le(x, BOX)]
    return out


def pos(*dets):
    """the only geometric hypothesis of the exact identities: positively oriented, non-degenerate element(s) -- NO lower bound on
    the area and NO box on the coordinates (arbitrary shapes AND sizes: tiny elements, slivers, huge coordinates)"""
    return [v_lt(0.0, d) for d in dets]


def _ite_conds(fs, limit):
    import z3
    seen, conds, stack = set(), {}, list(fs)
    while stack:
        t = stack.pop()
        if t.get_id() in seen:
            continue
        seen.add(t.get_id())
        if z3.is_app(t):
            if t.decl().kind() == z3.Z3_OP_ITE and not z3.is_bool(t):
                conds.setdefault(t.arg(0).get_id(), t.arg(0))
                if len(conds) > limit:
                    return None
            stack.extend(t.children())
    return list(conds.values())


def _vars(t, cache):
    import z3
    k = t.get_id()
    if k not in cache:
        out, stack, seen = set(), [t], set()
        while stack:
            u = stack.pop()
            if u.get_id() in seen:
                continue
            seen.add(u.get_id())
            if z3.is_const(u) and u.decl().kind() == z3.Z3_OP_UNINTERPRETED:
                out.add(u.decl().name())
            stack.extend(u.children())
        cache[k] = out
    return cache[k]


def _relevant(assertions):
    """drop the assertions that mention fresh variables (JX names contain '!') none of which is connected to the last assertion
    (the negated goal) through chains of assertions sharing a fresh variable; assertions over input variables only are kept"""
    if not assertions:
        return assertions
    cache = {}
    vs = [set(v for v in _vars(a, cache) if '!' in v) for a in assertions]
    rel = set(vs[-1])
    changed = True
    while changed:
        changed = False
        for v in vs:
            if v & rel and not v <= rel:
                rel |= v
                changed = True
    return [a for a, v in zip(assertions, vs) if not v or v & rel]


def install_case_split():
    """robustness against `select`s in the code under test (e.g. a guard on det J): when the query contains at most 4 distinct
    if-then-else conditions, decide it by exhaustive case split on them (each case: condition asserted and substituted, so the
    case is ite-free); all cases unsat = unsat, any case sat = sat (the model satisfies the asserted condition), else unknown.
    Process-local (every obligation runs in its own worker)."""
    import itertools
    import time
    import z3
    from .. import sym
    if getattr(sym.solve, '_c03_split', False):
        return
    plain = sym.solve

    def solve(assertions, cap_s, order=('core', 'nlsat')):
        assertions = [a for a in assertions]
        red = _relevant(assertions)
        if len(red) < len(assertions):
            # first without the definitions of fresh variables (linear-solve unknowns, sqrt) that the goal cannot reach: dropping
            # assertions only enlarges the set of models, so `unsat` stands; anything else is re-decided on the full set
            st, m, sv, dt, att = split(red, 0.5 * cap_s, order)
            if st == 'unsat':
                return st, m, sv, dt, [('relevant:%s' % k, r, d) for k, r, d in att]
            st2, m2, sv2, dt2, att2 = split(assertions, max(1.0, cap_s - dt), order)
            return st2, m2, sv2, dt + dt2, [('relevant:%s' % k, r, d) for k, r, d in att] + att2
        return split(assertions, cap_s, order)

    def split(assertions, cap_s, order):
        conds = _ite_conds(assertions, 4)
        if not conds:
            return plain(assertions, cap_s, order)
        t0, attempts, unknown = time.time(), [], False
        cases = list(itertools.product([True, False], repeat=len(conds)))
        for n, vals in enumerate(cases):
            sub = [(c, z3.BoolVal(v)) for c, v in zip(conds, vals)]
            lits = [c if v else z3.Not(c) for c, v in zip(conds, vals)]
            asg = [z3.simplify(z3.substitute(a, *sub)) for a in assertions] + lits
            left = max(1.0, (cap_s - (time.time() - t0)) / (len(cases) - n))
            st, m, sv, dt, att = plain(asg, left, order)
            attempts += [('case%s:%s' % (''.join('TF'[not v] for v in vals), k), r, d) for k, r, d in att]
            if st == 'sat':
                return 'sat', m, sv, time.time() - t0, attempts
            unknown = unknown or st != 'unsat'
        return ('unknown' if unknown else 'unsat'), None, ('split' if not unknown else None), time.time() - t0, attempts
    solve._c03_split = True
    sym.solve = solve


def geom(X, ids):
    """local vertices v0,v1,v2 (global node ids `ids`), J = [v0-v2 | v1-v2], det J"""
    v = [X[i] for i in ids]
    J = [[v_sub(v[0][0], v[2][0]), v_sub(v[1][0], v[2][0])],
         [v_sub(v[0][1], v[2][1]), v_sub(v[1][1], v[2][1])]]
    det = v_sub(v_mul(J[0][0], J[1][1]), v_mul(J[0][1], J[1][0]))
    return v, J, det


def cramer(J, d0, d1):
    """det * J^{-T} (d0, d1)"""
    return v_sub(v_mul(J[1][1], d0), v_mul(J[1][0], d1)), v_sub(v_mul(J[0][0], d1), v_mul(J[0][1], d0))


def affine_point(v, J, xi):
    """v2 + J xi"""
    return [v_sum([v[2][c], v_mul(xi[0], J[c][0]), v_mul(xi[1], J[c][1])]) for c in range(2)]


def tri_sampler(nn, ids, extra=()):
    """validation inputs: a decent counter-clockwise triangle at the vertex slots, anything elsewhere"""
    def smp(rng):
        X = rng.uniform(-3, 3, size=(nn, 2))
        c = rng.uniform(-2, 2, size=2)
        a0 = rng.uniform(0, 2 * math.pi)
        for k in range(3):
            ang = a0 + 2 * math.pi * k / 3 + rng.uniform(-0.4, 0.4)
            X[ids[k]] = c + rng.uniform(0.5, 1.5) * onp.array([math.cos(ang), math.sin(ang)])
        return [X] + [e(rng) for e in extra]
    return smp


def scrambled_conn(nn):
    """a fixed non-trivial numbering of the element's nodes in the global coordinate array"""
    return [int(v) for v in (onp.arange(nn) * 5 + 2) % nn] if nn % 5 else [int(v) for v in (onp.arange(nn) * 3 + 1) % nn]


def element_cases(h, quick=((1, False), (2, False)), thorough=((3, False), (2, True))):
    """(label, parent element, conn) : P1 in all three cyclic orders, higher orders with a scrambled numbering"""
    out = []
    pe = parent(1, False)
    for c in CYCLIC:
        out.append(('P1[%d%d%d]' % tuple(c), pe, c))
    for order, bubble in list(quick[1:]) + (list(thorough) if h.thorough() else []):
        pe = parent(order, bubble)
        nn = int(pe.coordinates.shape[0])
        conn = scrambled_conn(nn)
        assert sorted(conn) == list(range(nn))
        out.append(('%s[scrambled]' % elem_name(order, bubble), pe, conn))
    return out


def vertex_ids(pe, conn):
    return [int(conn[int(k)]) for k in pe.vertexNodes]


# ------------------------------------------------------------------------------------------ A1
@obligation(P, 'O4.A1_mapped_shape_gradients', cap=240)
def o4(h):
    """A1: FunctionSpace.map_element_shape_grads(coords, conn, parent, dN) = J^{-T} dN with J = [v0-v2 | v1-v2] built
    from the element's three vertex nodes (Cramer oracle), for SYMBOLIC reference gradients dN and symbolic coordinates
    of every node of the element"""
    install_case_split()
    FS, I, QR, M, S = _mods()
    h.encoded(FS.map_element_shape_grads)
    h.bounds('SCALE-FREE: all node coordinates are unbounded reals and the only geometric hypothesis is det J > 0 (no lower bound on the area: tiny elements, slivers, huge coordinates included); reference gradients dN: all reals (2 quadrature points for P1, '
             '1 for higher orders); P1 in the three cyclic node orders, P2 (thorough: P3, P2+bubble) with a scrambled global numbering')
    h.outside(*OUTSIDE)
    h.assume_note(COMPOSITION, 'jax.scipy.linalg.solve (lu + custom_linear_solve) is encoded relationally: fresh g with matvec(g) = dN, matvec taken from the '
                  'traced code (its matrix is the code\'s J.T); non-singularity follows from det J > 0; LU pivoting/rounding outside the claim')
    for label, pe, conn in element_cases(h):
        nn = len(conn)
        nq = 2 if nn == 3 else 1
        ids = vertex_ids(pe, conn)
        cn = jnp.array(conn)
        fn = lambda X, dN, cn=cn, pe=pe: FS.map_element_shape_grads(X, cn, pe, dN)
        smp = tri_sampler(nn, ids, extra=(lambda rng, s=(nq, nn, 2): rng.normal(size=s),))
        ex = smp(onp.random.default_rng(1))
        c = Case(h, fn, dict(X=ex[0], dN=ex[1]), sampler=smp, label='map_element_shape_grads %s' % label)

        def spec(i, o, ids=ids, nq=nq, nn=nn):
            X, dN, g = i['X'], i['dN'], o
            v, J, det = geom(X, ids)
            lhs, rhs = [], []
            for q in range(nq):
                for a in range(nn):
                    r0, r1 = cramer(J, dN[q, a, 0], dN[q, a, 1])
                    lhs += [v_mul(g[q, a, 0], det), v_mul(g[q, a, 1], det)]
                    rhs += [r0, r1]
            return pos(det), [Eq(lhs, rhs, name='g_times_detJ_eq_adjJT_dN')]
        c.prove('A1[%s]' % label, spec, cap=40)


# ------------------------------------------------------------------------------------------ A2 / A3
@obligation(P, 'O5.A2_A3_quadrature_volumes', cap=280)
def o5(h):
    """A2: compute_element_volumes = det(J) w_q (symbolic weights) and, with every real rule, sum_q vols = area up to
    the ground weight-sum defect. A3: compute_element_volumes_axisymmetric = (2 pi as binary64) * r_q * det(J) * w_q
    with r_q = sum_a N_a(q) x_a (symbolic shapes and weights), and r_q the affine image with the real P1 tables"""
    install_case_split()
    FS, I, QR, M, S = _mods()
    h.encoded(FS.compute_element_volumes, FS.compute_element_volumes_axisymmetric, QR.create_quadrature_rule_on_triangle, I.compute_shapes)
    h.bounds('exact identities (symbolic weights/shape values, 3 points): ALL real coordinates, no hypothesis at all; sum of vols = area with the six real rules: '
             'unbounded coordinates, det J > 0; real P1 tables in axisymmetric mode (absolute tolerance): coordinates in [-%g,%g]^2, det J > 0; '
             'P1 in the three cyclic node orders, P2 (thorough: P3, P2+bubble) scrambled' % (BOX, BOX))
    h.outside(*OUTSIDE, 'the sign of r (axisymmetric volumes are signed with r; meshes are expected in r >= 0)')
    h.assume_note(COMPOSITION, 'the oracle uses the binary64 value of 2*pi (the constant the code multiplies with), never the ideal pi')
    rules = {d: QR.create_quadrature_rule_on_triangle(d) for d in TRI_RULE_DEGREES}
    for label, pe, conn in element_cases(h):
        nn = len(conn)
        ids = vertex_ids(pe, conn)
        cn = jnp.array(conn)
        nq = 3
        dummy = jnp.zeros((nq, nn))
        fn = lambda X, w, cn=cn, pe=pe: FS.compute_element_volumes(X, cn, pe, dummy, w)
        smp = tri_sampler(nn, ids, extra=(lambda rng: rng.uniform(0.05, 0.5, size=nq),))
        ex = smp(onp.random.default_rng(2))
        c = Case(h, fn, dict(X=ex[0], w=ex[1]), sampler=smp, label='compute_element_volumes %s' % label)

        def spec(i, o, ids=ids):
            v, J, det = geom(i['X'], ids)
            return [], [Eq([o[q] for q in range(nq)], [v_mul(det, i['w'][q]) for q in range(nq)], name='vols_eq_detJ_w')]
        c.prove('A2[%s]' % label, spec, cap=30)

        # real weights: sum of the quadrature volumes is the element area
        def fr(X, cn=cn, pe=pe):
            return [jnp.sum(FS.compute_element_volumes(X, cn, pe, None, rules[d].wgauss)) for d in TRI_RULE_DEGREES]
        smp1 = tri_sampler(nn, ids)
        c = Case(h, fr, dict(X=ex[0]), sampler=smp1, label='sum compute_element_volumes(real weights) %s' % label)

        def spec_sum(i, o, ids=ids):
            v, J, det = geom(i['X'], ids)
            area = v_mul(0.5, det)
            return pos(det), [
                Le(v_abs(v_sub(s0(o[k]), area)), v_mul(TOL_W, det), name='sum_vols_eq_area[rule%d]' % d, scale=SC) for k, d in enumerate(TRI_RULE_DEGREES)]
        c.prove('A2sum[%s]' % label, spec_sum, cap=30)

        # axisymmetric, symbolic shapes and weights
        fa = lambda X, N, w, cn=cn, pe=pe: FS.compute_element_volumes_axisymmetric(X, cn, pe, N, w)
        smpa = tri_sampler(nn, ids, extra=(lambda rng: rng.normal(size=(nq, nn)), lambda rng: rng.uniform(0.05, 0.5, size=nq)))
        exa = smpa(onp.random.default_rng(3))
        c = Case(h, fa, dict(X=exa[0], N=exa[1], w=exa[2]), sampler=smpa, label='compute_element_volumes_axisymmetric %s' % label)

        def spec_ax(i, o, ids=ids, conn=conn, nn=nn):
            X, N, w = i['X'], i['N'], i['w']
            v, J, det = geom(X, ids)
            rhs = []
            for q in range(nq):
                r = v_sum([v_mul(N[q, a], X[conn[a]][0]) for a in range(nn)])
                rhs.append(v_mul(TWO_PI, v_mul(r, v_mul(det, w[q]))))
            return [], [Eq([o[q] for q in range(nq)], rhs, name='vols_eq_2pi_r_detJ_w')]
        c.prove('A3[%s]' % label, spec_ax, cap=30)

    # A3 with the real P1 tables: r_q is the radius of the affine image of xi_q
    pe = parent(1, False)
    for d in (TRI_RULE_DEGREES if h.thorough() else (1, 2, 4)):
        qr = rules[d]
        sh = I.compute_shapes(pe, qr.xigauss)
        xi, wq = pyf(qr.xigauss), pyf(qr.wgauss)
        for conn in CYCLIC:
            cn = jnp.array(conn)
            fa = lambda X, cn=cn, sh=sh, qr=qr: FS.compute_element_volumes_axisymmetric(X, cn, pe, sh.values, qr.wgauss)
            c = Case(h, fa, dict(X=tri_sampler(3, conn)(onp.random.default_rng(4))[0]), sampler=tri_sampler(3, conn),
                     label='compute_element_volumes_axisymmetric real P1 tables rule%d %s' % (d, conn))

            def spec_axr(i, o, conn=conn, xi=xi, wq=wq):
                X = i['X']
                v, J, det = geom(X, conn)
                lhs, rhs, tol = [], [], []
                for q in range(len(wq)):
                    r = affine_point(v, J, xi[q])[0]
                    lhs.append(v_sub(o[q], v_mul(F(TWO_PI) * F(wq[q]), v_mul(r, det))))
                    tol.append(v_mul(F(TWO_PI) * F(wq[q]) * F(TOL_X), det))
                return box(X) + pos(det), [Le([v_abs(x) for x in lhs], tol, name='vols_eq_2pi_r(xi_q)_detJ_w', scale=SC)]
            c.prove('A3real[P1 %d%d%d,rule%d]' % (tuple(conn) + (d,)), spec_axr, cap=80, order=('core', 'nlsat'))


# ------------------------------------------------------------------------------------------ A4
TOL_XH = 4 * TOL_X               # higher-order elements: cond (Lebesgue sum <= ~3) and elevated-node defects included
TOL_J = 64 * ULPS * EPS * BOX    # reference gradient of the coordinate field vs J: 64 ulp * cond(<= ~20) * (|v2| + |J| <= 20)/BOX


def one_element_mesh(conn):
    FS, I, QR, M, S = _mods()
    return M.construct_mesh_from_basic_data(jnp.array([[1., 0.], [0., 1.], [0., 0.]]), jnp.array([conn]), {'block': jnp.array([0])})


def elevated(h):
    # P3+bubble is in the quick set on purpose: 2 interior nodes per edge and 3 non-symmetric interior nodes (P2 / P2b / P3 are blind to node-order flips)
    return [(2, False), (3, True)] + ([(3, False), (2, True)] if h.thorough() else [])


@obligation(P, 'O6.A4_quadrature_points_and_coordinate_gradient', cap=280)
def o6(h):
    """A4: physical quadrature points (interpolate_to_element_points / interpolate_to_points of the coordinate field
    with the REAL shape tables) are v2 + J xi_q up to the ground reproduction defect; on meshes elevated by the real
    create_higher_order_mesh_from_simplex_mesh the nodes are the affine images of the parent nodes, the points stay
    affine and |sum_a x_a (x) dN_a(xi_q) - J| is below the ground defect; the code's gradient G of the coordinate
    field satisfies G J = sum_a x_a (x) dN_a exactly for ALL reference gradients dN (so G = identity)"""
    install_case_split()
    FS, I, QR, M, S = _mods()
    h.encoded(FS.interpolate_to_element_points, FS.interpolate_to_point, FS.interpolate_to_points, FS.compute_field_gradient, FS.compute_element_field_gradient,
              FS.compute_quadrature_point_field_gradient, FS.construct_function_space_from_parent_element, FS.map_element_shape_grads,
              M.create_higher_order_mesh_from_simplex_mesh, M.create_edges, I.compute_shapes)
    h.bounds('three vertex coordinates free in [-%g,%g]^2 (linear goals with absolute tolerance: every triangle in the box, degenerate ones included; gradient chain: unbounded coordinates, det J > 0 only), three cyclic '
             'node orders; real tables: P1 with rules 1,2,4 (thorough: all six), elevated P2, P3+bubble (thorough: also P3, P2+bubble) with rule 2 (thorough: also rule 4); '
             'tolerances %.3g (P1 points), %.3g (elevated points/nodes), %.3g (reference gradient of the coordinate map)' % (BOX, BOX, TOL_X, TOL_XH, TOL_J))
    h.outside(*OUTSIDE)
    h.assume_note(COMPOSITION, 'linear solve encoded relationally (see O4)')
    pe = parent(1, False)
    for d in (TRI_RULE_DEGREES if h.thorough() else (1, 2, 4)):
        qr = QR.create_quadrature_rule_on_triangle(d)
        sh = I.compute_shapes(pe, qr.xigauss)
        xi = pyf(qr.xigauss)
        for conn in CYCLIC:
            cn = jnp.array(conn)
            fn = lambda X, cn=cn, sh=sh: FS.interpolate_to_element_points(X, sh.values, cn)
            c = Case(h, fn, dict(X=tri_sampler(3, conn)(onp.random.default_rng(5))[0]), sampler=tri_sampler(3, conn), label='interpolate_to_element_points P1 rule%d %s' % (d, conn))

            def spec(i, o, conn=conn, xi=xi):
                v, J, det = geom(i['X'], conn)
                lhs = []
                for q in range(len(xi)):
                    p = affine_point(v, J, xi[q])
                    lhs += [v_abs(v_sub(o[q, 0], p[0])), v_abs(v_sub(o[q, 1], p[1]))]
                return box(i['X']), [Le(lhs, TOL_X, name='points_eq_v2_plus_J_xi', scale=SC)]
            c.prove('A4[P1 %d%d%d,rule%d]' % (tuple(conn) + (d,)), spec, cap=30)

    for order, bubble in elevated(h):
        for conn in CYCLIC:
            base = one_element_mesh(conn)
            ho = M.create_higher_order_mesh_from_simplex_mesh(base, order, useBubbleElement=bubble)
            econn = [int(v) for v in ho.conns[0]]
            pc = pyf(ho.parentElement.coordinates)
            nn = len(econn)
            assert [econn[int(k)] for k in ho.parentElement.vertexNodes] == list(conn)

            def elevate(X, base=base, order=order, bubble=bubble):
                with jax.ensure_compile_time_eval():
                    return M.create_higher_order_mesh_from_simplex_mesh(M.mesh_with_coords(base, X), order, useBubbleElement=bubble)
            for d in ((2, 4) if h.thorough() else (2,)):
                qr = QR.create_quadrature_rule_on_triangle(d)
                xi = pyf(qr.xigauss)
                sh = I.compute_shapes(ho.parentElement, qr.xigauss)
                dNt = pyf(sh.gradients)

                def fn(X, sh=sh, elevate=elevate):
                    # (no function-space constructor here: its linear solves would add non-linear side conditions to purely linear goals)
                    m = elevate(X)
                    return m.coords, FS.interpolate_to_element_points(m.coords, sh.values, m.conns[0])
                lab = '%s %d%d%d,rule%d' % ((elem_name(order, bubble),) + tuple(conn) + (d,))
                c = Case(h, fn, dict(X=tri_sampler(3, conn)(onp.random.default_rng(6))[0]), sampler=tri_sampler(3, conn), label='elevate+interpolate_to_element_points ' + lab)

                def spec(i, o, conn=conn, xi=xi, econn=econn, pc=pc, dNt=dNt, nn=nn):
                    XH, pts = o
                    v, J, det = geom(i['X'], conn)
                    nodes, points, mj = [], [], []
                    for a in range(nn):
                        p = affine_point(v, J, pc[a])
                        nodes += [v_abs(v_sub(XH[econn[a]][0], p[0])), v_abs(v_sub(XH[econn[a]][1], p[1]))]
                    for q in range(len(xi)):
                        p = affine_point(v, J, xi[q])
                        points += [v_abs(v_sub(pts[q, 0], p[0])), v_abs(v_sub(pts[q, 1], p[1]))]
                        for r in range(2):
                            for cc in range(2):
                                Mrc = v_sum([v_mul(dNt[q][a][cc], XH[econn[a]][r]) for a in range(nn)])
                                mj.append(v_abs(v_sub(Mrc, J[r][cc])))
                    return box(i['X']), [
                        Le(nodes, TOL_XH, name='elevated_nodes_are_affine_images', scale=SC),
                        Le(points, TOL_XH, name='points_eq_v2_plus_J_xi', scale=SC),
                        Le(mj, TOL_J, name='sum_x_dN_eq_J', scale=SC)]
                c.prove('A4[%s]' % lab, spec, cap=40)

            # gradient of the coordinate field through the real function-space constructor, reference gradients symbolic
            qr1 = QR.create_quadrature_rule_on_triangle(1)
            sh1 = I.compute_shapes(ho.parentElement, qr1.xigauss)

            def fg(X, dN, sh1=sh1, qr1=qr1, elevate=elevate):
                m = elevate(X)
                fs = FS.construct_function_space_from_parent_element(m, I.ShapeFunctions(sh1.values, dN), qr1)
                return m.coords, FS.compute_field_gradient(fs, m.coords)[0]
            smp = tri_sampler(3, conn, extra=(lambda rng, nn=nn: rng.normal(size=(1, nn, 2)),))
            ex = smp(onp.random.default_rng(7))
            lab = '%s %d%d%d' % ((elem_name(order, bubble),) + tuple(conn))
            c = Case(h, fg, dict(X=ex[0], dN=ex[1]), sampler=smp, label='elevate+compute_field_gradient(coords) ' + lab)

            def specg(i, o, conn=conn, econn=econn, nn=nn):
                XH, G = o
                dN = i['dN']
                v, J, det = geom(i['X'], conn)
                l, r = [], []
                for rr in range(2):
                    for cc in range(2):
                        l.append(v_add(v_mul(G[0, rr, 0], J[0][cc]), v_mul(G[0, rr, 1], J[1][cc])))
                        r.append(v_sum([v_mul(dN[0, a, cc], XH[econn[a]][rr]) for a in range(nn)]))
                return pos(det), [Eq(l, r, name='gradX_times_J_eq_sum_x_dN')]
            c.prove('A4grad[%s]' % lab, specg, cap=40)

    # two elements sharing an edge (the right-hand element receives the shared edge nodes in reverse order): every node of
    # BOTH elements is the affine image of its parent node under that element's own map, points stay affine
    base2 = M.construct_mesh_from_basic_data(jnp.array([[0., 0.], [1., 0.], [1., 1.], [0., 1.]]), jnp.array(TWO_EL_CONNS), {'block': jnp.arange(2)})
    for order, bubble in elevated(h):
        ho = M.create_higher_order_mesh_from_simplex_mesh(base2, order, useBubbleElement=bubble)
        econns = [[int(v) for v in row] for row in ho.conns]
        pc = pyf(ho.parentElement.coordinates)
        qr = QR.create_quadrature_rule_on_triangle(2)
        xi = pyf(qr.xigauss)
        sh = I.compute_shapes(ho.parentElement, qr.xigauss)

        def fn2(X, order=order, bubble=bubble, sh=sh):
            with jax.ensure_compile_time_eval():
                m = M.create_higher_order_mesh_from_simplex_mesh(M.mesh_with_coords(base2, X), order, useBubbleElement=bubble)
            return m.coords, [FS.interpolate_to_element_points(m.coords, sh.values, m.conns[e]) for e in range(2)]
        smpq = quad_sampler()
        c = Case(h, fn2, dict(X=smpq(onp.random.default_rng(16))[0]), sampler=smpq, label='elevate 2-element mesh %s' % elem_name(order, bubble))

        def spec2(i, o, econns=econns, pc=pc, xi=xi):
            XH, pts = o
            nodes, points = [], []
            for e, (v, J, det) in enumerate(two_el(i['X'])):
                for a in range(len(pc)):
                    p = affine_point(v, J, pc[a])
                    nodes += [v_abs(v_sub(XH[econns[e][a]][0], p[0])), v_abs(v_sub(XH[econns[e][a]][1], p[1]))]
                for q in range(len(xi)):
                    p = affine_point(v, J, xi[q])
                    points += [v_abs(v_sub(pts[e][q, 0], p[0])), v_abs(v_sub(pts[e][q, 1], p[1]))]
            return box(i['X']), [Le(nodes, TOL_XH, name='elevated_nodes_are_affine_images_in_both_elements', scale=SC),
                                 Le(points, TOL_XH, name='points_eq_v2_plus_J_xi', scale=SC)]
        c.prove('A4two[%s]' % elem_name(order, bubble), spec2, cap=40)


# ------------------------------------------------------------------------------------------ A5
def edge_oracle(v, k):
    a, b, c = v[k], v[(k + 1) % 3], v[(k + 2) % 3]
    T = [v_sub(b[0], a[0]), v_sub(b[1], a[1])]
    return a, b, c, T


def unit_atoms(t, n, j, T, tag):
    """t, n unit and orthogonal; n*j = (T_y, -T_x); t*j = T; j = |T| > 0"""
    return [
        Eq([v_add(v_mul(t[0], t[0]), v_mul(t[1], t[1])), v_add(v_mul(n[0], n[0]), v_mul(n[1], n[1]))], 1.0, name='tangent_normal_unit' + tag),
        Eq(v_add(v_mul(t[0], n[0]), v_mul(t[1], n[1])), 0.0, name='tangent_normal_orthogonal' + tag),
        Eq([v_mul(n[0], j), v_mul(n[1], j)], [T[1], v_sub(0.0, T[0])], name='normal_times_jac_eq_(Ty,-Tx)' + tag),
        Eq([v_mul(t[0], j), v_mul(t[1], j)], T, name='tangent_times_jac_eq_T' + tag),
        Eq(v_mul(j, j), v_add(v_mul(T[0], T[0]), v_mul(T[1], T[1])), name='jac_sq_eq_T.T' + tag),
        Lt(0.0, j, name='jac_positive' + tag, scale=0.0)]


def edge_rule_degrees(h, order):
    """1-D rule degrees per element order. ALWAYS contains 2*order (order+1 Gauss points = number of nodes on an edge: the 1-D shape
    table is then SQUARE, so a wrong orientation of the table is not a shape error); thorough adds 2*order+1 and a spread"""
    ds = [1, 3, 2 * order] + ([5, 9, 2 * order + 1] if h.thorough() else [])
    return sorted(set(ds))


def line_constants(pe1, qr1):
    """exact rationals from the real 1-D tables: W = sum_q w_q, K = sum_q w_q sum_a N_a(s_q)"""
    I = _mods()[1]
    sh = I.compute_shapes(pe1, qr1.xigauss)
    N = onp.asarray(sh.values, dtype=float)
    w = [F(x) for x in onp.asarray(qr1.wgauss, dtype=float)]
    W = sum(w)
    K = sum(w[q] * sum(F(x) for x in N[:, q]) for q in range(len(w)))
    return W, K


@obligation(P, 'O7.A5_edge_vectors_and_edge_integration', cap=280)
def o7(h):
    """A5: Mesh.compute_edge_vectors: tangent/normal unit and orthogonal, normal*jac = (t_y,-t_x), jac = edge length;
    on a triangle (real get_edge_coords/faceNodes): outward for counter-clockwise elements, the three normal*jac sum
    to zero; FunctionSpace.integrate_function_on_edge(s): flux of a constant field through the closed boundary is 0,
    per-edge integral of n is (sum of 1-D weights) * normal*jac, edge quadrature points are affine"""
    install_case_split()
    FS, I, QR, M, S = _mods()
    h.encoded(M.compute_edge_vectors, M.get_edge_coords, M.get_edge_field, M.get_edge_node_indices, FS.integrate_function_on_edge, FS.integrate_function_on_edges,
              FS.interpolate_nodal_field_on_edge, FS.get_nodal_values_on_edge, I.compute_shapes, I.shape1d, QR.create_quadrature_rule_1D)
    h.bounds('edge node coordinates: all reals with distinct end points (direct call, line elements P1,P2; thorough: P3); triangles with all node coordinates '
             'unbounded, det J > 0 only, P1 in the three cyclic node orders and P2 scrambled (thorough: P3); 1-D rules of degree 1, 3 and 2*order (square 1-D shape table; thorough: also 5, 9, 2*order+1); '
             'edge quadrature points (absolute tolerance): P1 and meshes elevated by the real code, every triangle in [-%g,%g]^2' % (BOX, BOX))
    h.outside(*OUTSIDE, 'divergence theorem for non-constant polynomial fields: reduces to the 1-D ground moments of O2/O3 plus the identities proved here (composition)')
    h.assume_note(COMPOSITION, 'sqrt is encoded by its guarded definition (s >= 0, s*s = a); no denominator is assumed non-zero: jac != 0 is derived from the distinct end points')
    # (a) direct
    for order in ((1, 2, 3) if h.thorough() else (1, 2)):
        pe, pe1 = parent(order, False), I.make_parent_element_1d(order)
        mesh = M.Mesh(None, None, None, pe, pe1, None)
        fn = lambda E, mesh=mesh: M.compute_edge_vectors(mesh, E)
        smp = lambda rng, order=order: [rng.uniform(-3, 3, size=(order + 1, 2))]
        c = Case(h, fn, dict(E=smp(onp.random.default_rng(7))[0]), sampler=smp, label='compute_edge_vectors line P%d' % order)
        vn = [int(k) for k in pe1.vertexNodes]

        def spec(i, o, vn=vn):
            E = i['E']
            t, n, j = o[0], o[1], s0(o[2])
            T = [v_sub(E[vn[1]][0], E[vn[0]][0]), v_sub(E[vn[1]][1], E[vn[0]][1])]
            return [v_lt(0.0, v_add(v_mul(T[0], T[0]), v_mul(T[1], T[1])))], unit_atoms(t, n, j, T, '')
        c.prove('A5edge[line P%d]' % order, spec, cap=30, denoms=False, order=('nlsat', 'core'))

    # (b) triangle level
    for label, pe, conn in element_cases(h, thorough=((3, False),)):
        nn = len(conn)
        ids = vertex_ids(pe, conn)
        pe1 = I.make_parent_element_1d(pe.degree)
        mesh0 = M.Mesh(jnp.zeros((nn, 2)), jnp.array([conn]), None, pe, pe1, {'block': jnp.array([0])})

        def fn(X, mesh0=mesh0):
            mesh = M.mesh_with_coords(mesh0, X)
            return [M.compute_edge_vectors(mesh, M.get_edge_coords(mesh, (0, k))) for k in range(3)]
        c = Case(h, fn, dict(X=tri_sampler(nn, ids)(onp.random.default_rng(8))[0]), sampler=tri_sampler(nn, ids), label='get_edge_coords+compute_edge_vectors %s' % label)

        def spec(i, o, ids=ids):
            v, J, det = geom(i['X'], ids)
            atoms, Nx, Ny = [], [], []
            for k in range(3):
                t, n, j = o[k][0], o[k][1], s0(o[k][2])
                a, b, cc, T = edge_oracle(v, k)
                atoms += unit_atoms(t, n, j, T, '[edge%d]' % k)
                dotn = v_add(v_mul(n[0], v_sub(cc[0], a[0])), v_mul(n[1], v_sub(cc[1], a[1])))
                atoms.append(Lt(dotn, 0.0, name='normal_outward[edge%d]' % k, scale=0.0))
                atoms.append(Eq(v_mul(j, dotn), v_sub(0.0, det), name='jac_n.(opposite-start)_eq_-detJ[edge%d]' % k))
                Nx.append(v_mul(n[0], j))
                Ny.append(v_mul(n[1], j))
            atoms.append(Eq([v_sum(Nx), v_sum(Ny)], 0.0, name='sum_of_normal_times_jac_is_zero'))
            return pos(det), atoms
        c.prove('A5tri[%s]' % label, spec, cap=60, denoms=False, order=('nlsat', 'core'))

    # (c) the real edge integrator on a closed triangle boundary: exact identities with the exact 1-D table constants
    edges = jnp.array([[0, 0], [0, 1], [0, 2]])
    qrt = QR.create_quadrature_rule_on_triangle(1)
    for label, pe, conn in element_cases(h, thorough=((3, False),)):
        nn = len(conn)
        ids = vertex_ids(pe, conn)
        pe1 = I.make_parent_element_1d(pe.degree)
        mesh0 = M.Mesh(jnp.zeros((nn, 2)), jnp.array([conn]), None, pe, pe1, {'block': jnp.array([0])})
        sht = I.compute_shapes(pe, qrt.xigauss)
        for d1 in edge_rule_degrees(h, int(pe.degree)):
            qr1 = QR.create_quadrature_rule_1D(d1)
            W, K = line_constants(pe1, qr1)
            ground(h, 'line_constants[%s,rule1d=%d]' % (label, d1), abs(W - 1) <= Fr(TOL_W) and abs(K - 1) <= 4 * Fr(TOL_W),
                   'sum_q w_q - 1 = %.3g, sum_q w_q sum_a N_a(s_q) - 1 = %.3g' % (float(W - 1), float(K - 1)), dict(order=int(pe.degree), rule1d=d1))

            def fsp(X, mesh0=mesh0):
                # the edge integrator reads only functionSpace.mesh; the element tables are irrelevant here
                return FS.FunctionSpace(None, None, None, M.mesh_with_coords(mesh0, X), qrt, False)

            def ftot(X, cvec, fsp=fsp, qr1=qr1, nn=nn):
                return FS.integrate_function_on_edges(fsp(X), lambda u, x, n: u @ n, jnp.tile(cvec, (nn, 1)), qr1, edges)
            smp = tri_sampler(nn, ids, extra=(lambda rng: rng.normal(size=2),))
            ex = smp(onp.random.default_rng(9))
            c = Case(h, ftot, dict(X=ex[0], c=ex[1]), sampler=smp, label='integrate_function_on_edges %s rule1d=%d' % (label, d1))

            def spec_tot(i, o, ids=ids):
                v, J, det = geom(i['X'], ids)
                return pos(det), [Eq(s0(o), 0.0, name='flux_of_constant_field_through_closed_boundary_is_zero')]
            c.prove('A5int[%s,rule1d=%d]' % (label, d1), spec_tot, cap=60, denoms=False, order=('nlsat', 'core'))

            for k in range(3):
                def fk(X, cvec, fsp=fsp, qr1=qr1, nn=nn, k=k):
                    fs = fsp(X)
                    U = jnp.tile(cvec, (nn, 1))
                    return ([FS.integrate_function_on_edge(fs, (lambda u, x, n, cpt=cpt: n[cpt]), U, qr1, (0, k)) for cpt in range(2)],
                            FS.integrate_function_on_edge(fs, lambda u, x, n: u @ n, U, qr1, (0, k)))
                c = Case(h, fk, dict(X=ex[0], c=ex[1]), sampler=smp, label='integrate_function_on_edge %s rule1d=%d edge%d' % (label, d1, k))

                def spec_k(i, o, ids=ids, k=k, W=W, K=K):
                    per, flux = o
                    cv = i['c']
                    v, J, det = geom(i['X'], ids)
                    a, b, cc, T = edge_oracle(v, k)
                    N = [T[1], v_sub(0.0, T[0])]
                    return pos(det), [
                        Eq([s0(per[0]), s0(per[1])], [v_mul(W, N[0]), v_mul(W, N[1])], name='edge_integral_of_n_eq_W_normal_times_jac'),
                        Eq(s0(flux), v_mul(K, v_add(v_mul(cv[0], N[0]), v_mul(cv[1], N[1]))), name='edge_flux_of_constant_eq_K_c.normal_times_jac')]
                c.prove('A5int[%s,rule1d=%d,edge%d]' % (label, d1, k), spec_k, cap=40, denoms=False, order=('nlsat', 'core'))

    # (d) edge quadrature points (linear): P1 and elevated meshes
    for order, bubble in [(1, False)] + elevated(h):
        for conn in CYCLIC:
            base = one_element_mesh(conn)
            ho = M.create_higher_order_mesh_from_simplex_mesh(base, order, useBubbleElement=bubble)
            qrt2 = QR.create_quadrature_rule_on_triangle(1)
            sht = I.compute_shapes(ho.parentElement, qrt2.xigauss)
            for d1 in edge_rule_degrees(h, order):
                qr1 = QR.create_quadrature_rule_1D(d1)
                s1 = pyf(qr1.xigauss)

                def fx(X, base=base, order=order, bubble=bubble, sht=sht, qr1=qr1, qrt2=qrt2):
                    with jax.ensure_compile_time_eval():
                        m = M.create_higher_order_mesh_from_simplex_mesh(M.mesh_with_coords(base, X), order, useBubbleElement=bubble)
                    fs = FS.FunctionSpace(None, None, None, m, qrt2, False)
                    return [FS.interpolate_nodal_field_on_edge(fs, m.coords, qr1.xigauss, (0, k)) for k in range(3)]
                lab = '%s %d%d%d,rule1d=%d' % ((elem_name(order, bubble),) + tuple(conn) + (d1,))
                c = Case(h, fx, dict(X=tri_sampler(3, conn)(onp.random.default_rng(10))[0]), sampler=tri_sampler(3, conn), label='interpolate_nodal_field_on_edge(coords) ' + lab)

                def spec_x(i, o, conn=conn, s1=s1):
                    v, J, det = geom(i['X'], conn)
                    pts = []
                    for k in range(3):
                        a, b, cc, T = edge_oracle(v, k)
                        for q in range(len(s1)):
                            for r in range(2):
                                pts.append(v_abs(v_sub(o[k][q, r], v_add(v_mul(1.0 - s1[q], a[r]), v_mul(s1[q], b[r])))))
                    return box(i['X']), [Le(pts, TOL_XH, name='edge_quadrature_points_affine', scale=SC)]
                c.prove('A5pts[%s]' % lab, spec_x, cap=30)


# ------------------------------------------------------------------------------------------ whole constructor on a small mesh
TWO_EL_CONNS = [[1, 2, 0], [3, 0, 2]]      # quadrilateral 0-1-2-3 split along the diagonal 0-2, two different cyclic orders


def quad_sampler(extra=()):
    def smp(rng):
        c = rng.uniform(-1.5, 1.5, size=2)
        a0 = rng.uniform(0, 2 * math.pi)
        X = onp.array([c + rng.uniform(0.7, 1.5) * onp.array([math.cos(a0 + math.pi * k / 2 + d), math.sin(a0 + math.pi * k / 2 + d)])
                       for k, d in enumerate(rng.uniform(-0.3, 0.3, size=4))])
        return [X] + [e(rng) for e in extra]
    return smp


def two_el(X):
    """per element: local vertices, J, det (vertex k of element e is node TWO_EL_CONNS[e][k])"""
    return [geom(X, conn) for conn in TWO_EL_CONNS]


def shoelace2(X, ids=(0, 1, 2, 3)):
    """twice the signed area of the polygon through the nodes `ids`"""
    s = []
    for k in range(len(ids)):
        a, b = X[ids[k]], X[ids[(k + 1) % len(ids)]]
        s.append(v_sub(v_mul(a[0], b[1]), v_mul(b[0], a[1])))
    return v_sum(s)


@obligation(P, 'O8.function_space_on_two_element_mesh', cap=280)
def o8(h):
    """construct_function_space / construct_function_space_from_parent_element on a 2-element mesh with 8 free coordinates and the REAL P1 tables:
    shapes are the reference table, J_e^T shapeGrads = dN (residual form of shapeGrads = J_e^{-T} dN), vols = det J_e w_q (x 2 pi r_q), the quadrature
    volumes sum to the polygon area (shoelace) / to 2 pi * area * centroid radius per element; compute_field_gradient
    of ANY nodal field with ANY reference gradients satisfies G J_e = sum_a u_a (x) dN_a; integrate_over_block of
    1, x and x*y equals the closed-form polygon integrals (x, x*y: exactly, through the exact first moments / mass matrix of the real tables,
    which are ground facts)"""
    install_case_split()
    FS, I, QR, M, S = _mods()
    h.encoded(FS.construct_function_space, FS.construct_function_space_from_parent_element, FS.map_element_shape_grads, FS.compute_element_volumes,
              FS.compute_element_volumes_axisymmetric, FS.compute_field_gradient, FS.compute_element_field_gradient, FS.compute_quadrature_point_field_gradient, FS.integrate_over_block, FS.evaluate_on_block,
              FS.evaluate_on_element, FS.interpolate_to_element_points, M.mesh_with_coords, M.construct_mesh_from_basic_data)
    h.bounds('4 nodes, unbounded coordinates, elements %s with det J > 0 only (axisymmetric vols identity: no hypothesis; per-element Pappus check with absolute tolerance: '
             'coordinates in [-%g,%g]^2); real P1 tables with triangle rule 2 (thorough: 1,2,4); nodal field and reference gradients '
             'of the gradient chain: all reals (1 quadrature point)' % (TWO_EL_CONNS, BOX, BOX))
    h.outside(*OUTSIDE, 'larger meshes: every array of the function space is computed element by element (vmap over conns), sums telescope (composition)')
    h.assume_note(COMPOSITION, 'linear solves encoded relationally (see O4)')
    base = M.construct_mesh_from_basic_data(jnp.array([[0., 0.], [1., 0.], [1., 1.], [0., 1.]]), jnp.array(TWO_EL_CONNS), {'block': jnp.arange(2)})
    pe = base.parentElement
    smp = quad_sampler()
    ex = smp(onp.random.default_rng(11))
    for d in ((1, 2, 4) if h.thorough() else (2,)):
        qr = QR.create_quadrature_rule_on_triangle(d)
        sh = I.compute_shapes(pe, qr.xigauss)
        Nt, dNt, wq, nq = pyf(sh.values), pyf(sh.gradients), pyf(qr.wgauss), len(qr)
        W = sum(F(x) for x in wq)

        def fc(X, sh=sh, qr=qr):
            fs = FS.construct_function_space(M.mesh_with_coords(base, X), qr)     # default mode: cartesian; computes the reference tables itself
            return fs.shapes, fs.vols, fs.shapeGrads
        c = Case(h, fc, dict(X=ex[0]), sampler=smp, label='construct_function_space (cartesian) rule%d' % d)

        def spec_c(i, o, Nt=Nt, dNt=dNt, wq=wq, nq=nq, W=W):
            shapes, vols, grads = o
            X = i['X']
            els = two_el(X)
            sl, sr, vl, vr, gatoms = [], [], [], [], []
            for e, (v, J, det) in enumerate(els):
                gl, gr = [], []
                for q in range(nq):
                    vl.append(vols[e, q])
                    vr.append(v_mul(wq[q], det))
                    for a in range(3):
                        sl.append(shapes[e, q, a])
                        sr.append(Nt[q][a])
                        # residual form J^T g = dN with the ORACLE's J (equivalent to g = J^-T dN since det J > 0; the Cramer form for all dN is O4):
                        # robustly fast for the solver, a wrong wiring of coords/conn/tables into map_element_shape_grads gives a model at once
                        gl += [v_add(v_mul(J[0][0], grads[e, q, a, 0]), v_mul(J[1][0], grads[e, q, a, 1])),
                               v_add(v_mul(J[0][1], grads[e, q, a, 0]), v_mul(J[1][1], grads[e, q, a, 1]))]
                        gr += [dNt[q][a][0], dNt[q][a][1]]
                gatoms.append(Eq(gl, gr, name='JT_shapeGrads_eq_dN[el%d]' % e))
            area2 = shoelace2(X)
            return pos(els[0][2], els[1][2]), [
                Eq(sl, sr, name='shapes_are_the_reference_table'),
                *gatoms,
                Eq(vl, vr, name='vols_eq_detJ_w'),
                Eq(v_sum(vl), v_mul(W, area2), name='sum_vols_eq_W_times_twice_polygon_area'),
                Le(v_abs(v_sub(v_sum(vl), v_mul(0.5, area2))), v_mul(TOL_W, area2), name='sum_vols_eq_polygon_area', scale=SC)]
        c.prove('FS2[cartesian,rule%d]' % d, spec_c, cap=60)

        def fa(X, sh=sh, qr=qr):
            return FS.construct_function_space_from_parent_element(M.mesh_with_coords(base, X), sh, qr, 'axisymmetric').vols
        c = Case(h, fa, dict(X=ex[0]), sampler=smp, label='construct_function_space_from_parent_element axisymmetric rule%d' % d)

        def spec_a(i, o, Nt=Nt, wq=wq, nq=nq, which='exact'):
            X = i['X']
            els = two_el(X)
            if which == 'exact':      # no hypothesis at all: holds for every real coordinate set
                vl, vr = [], []
                for e, (v, J, det) in enumerate(els):
                    for q in range(nq):
                        r = v_sum([v_mul(Nt[q][a], v[a][0]) for a in range(3)])
                        vl.append(o[e, q])
                        vr.append(v_mul(F(TWO_PI) * F(wq[q]), v_mul(r, det)))   # exact rational product of the two binary64 constants
                return [], [Eq(vl, vr, name='vols_eq_2pi_r_detJ_w')]
            atoms = []
            for e, (v, J, det) in enumerate(els):
                rc = v_mul(1.0 / 3.0, v_sum([v[0][0], v[1][0], v[2][0]]))
                pappus = v_mul(F(TWO_PI) / 2, v_mul(rc, det))
                atoms.append(Le(v_abs(v_sub(v_sum([o[e, q] for q in range(nq)]), pappus)), v_mul(TWO_PI * TOL_X, det),
                                name='element_volume_eq_2pi_area_centroid_radius[el%d]' % e, scale=SC))
            return box(X) + pos(els[0][2], els[1][2]), atoms      # absolute table-defect tolerance: stated at box scale
        c.prove('FS2[axisymmetric,rule%d]' % d, spec_a, cap=40)
        c.prove('FS2[axisymmetric,rule%d]' % d, lambda i, o, spec_a=spec_a: spec_a(i, o, which='pappus'), cap=40)

        # mesh integrals through the real integrate_over_block
        state = jnp.zeros((2, nq, 0))
        kernels = [('1', lambda u, gu, s, x, dt: 1.0), ('x', lambda u, gu, s, x, dt: x[0])]
        # exact first moments of the real tables: c_a = sum_q w_q N_a(xi_q); ideal value 1/6
        ca = [sum(F(wq[q]) * F(Nt[q][a]) for q in range(nq)) for a in range(3)]
        worst = max(abs(x - Fr(1, 6)) for x in ca)
        ground(h, 'P1_first_moments[rule%d]' % d, worst <= Fr(TOL_W), 'max |sum_q w_q N_a - 1/6| = %.3g (allowed %.3g)' % (float(worst), TOL_W), dict(rule=d))
        if d >= 2:
            kernels.append(('xy', lambda u, gu, s, x, dt: x[0] * x[1]))
            # exact P1 "mass matrix" of the real tables: M_ab = sum_q w_q N_a(xi_q) N_b(xi_q); ideal value (1 + delta_ab)/24
            Mab = [[sum(F(wq[q]) * F(Nt[q][a]) * F(Nt[q][b]) for q in range(nq)) for b in range(3)] for a in range(3)]
            worst = max(abs(Mab[a][b] - Fr(2 if a == b else 1, 24)) for a in range(3) for b in range(3))
            ground(h, 'P1_mass_matrix[rule%d]' % d, worst <= Fr(TOL_W), 'max |sum_q w_q N_a N_b - (1+delta_ab)/24| = %.3g (allowed %.3g)' % (float(worst), TOL_W), dict(rule=d))
        else:
            Mab = None

        def fi(X, sh=sh, qr=qr, kernels=kernels):
            fs = FS.construct_function_space_from_parent_element(M.mesh_with_coords(base, X), sh, qr)
            U = jnp.zeros((4, 2))
            return [FS.integrate_over_block(fs, U, state, 0.0, k, base.blocks['block']) for _, k in kernels]
        c = Case(h, fi, dict(X=ex[0]), sampler=smp, label='integrate_over_block rule%d' % d)

        def spec_i(i, o, kernels=kernels, Mab=Mab, ca=ca, W=W):
            X = i['X']
            els = two_el(X)
            dets = v_add(els[0][2], els[1][2])
            exact = dict(one=[], x=[], xy=[])
            for v, J, det in els:
                sx = v_sum([v[k][0] for k in range(3)])
                sy = v_sum([v[k][1] for k in range(3)])
                sxy = v_sum([v_mul(v[k][0], v[k][1]) for k in range(3)])
                exact['one'].append(v_mul(0.5, det))
                exact['x'].append(v_mul(det, v_sum([v_mul(ca[a], v[a][0]) for a in range(3)])))
                if Mab is not None:
                    exact['xy'].append(v_mul(det, v_sum([v_mul(Mab[a][b], v_mul(v[a][0], v[b][1])) for a in range(3) for b in range(3)])))
            atoms = [Le(v_abs(v_sub(s0(o[0]), v_sum(exact['one']))), v_mul(TOL_W, dets), name='integral_of_1_eq_area', scale=SC),
                     Eq(s0(o[0]), v_mul(W, dets), name='integral_of_1_eq_W_sum_detJ'),
                     Eq(s0(o[1]), v_sum(exact['x']), name='integral_of_x_eq_sum_detJ_c.x_with_exact_table_first_moments')]
            if len(kernels) > 2:
                atoms.append(Eq(s0(o[2]), v_sum(exact['xy']), name='integral_of_xy_eq_sum_detJ_x.M.y_with_exact_table_mass_matrix'))
            return pos(els[0][2], els[1][2]), atoms
        c.prove('FS2int[rule%d]' % d, spec_i, cap=60, order=('nlsat', 'core'))

    # gradient of any nodal field, any reference gradients
    qr1 = QR.create_quadrature_rule_on_triangle(1)
    sh1 = I.compute_shapes(pe, qr1.xigauss)

    def fg(X, U, dN):
        fs = FS.construct_function_space_from_parent_element(M.mesh_with_coords(base, X), I.ShapeFunctions(sh1.values, dN), qr1)
        return FS.compute_field_gradient(fs, U)
    smpg = quad_sampler(extra=(lambda rng: rng.normal(size=(4, 2)), lambda rng: rng.normal(size=(1, 3, 2))))
    exg = smpg(onp.random.default_rng(12))
    c = Case(h, fg, dict(X=exg[0], U=exg[1], dN=exg[2]), sampler=smpg, label='compute_field_gradient symbolic field and reference gradients')

    def spec_g(i, o):
        X, U, dN = i['X'], i['U'], i['dN']
        els = two_el(X)
        atoms = []
        for e, (v, J, det) in enumerate(els):
            l, r = [], []
            for rr in range(2):
                for cc in range(2):
                    l.append(v_add(v_mul(o[e, 0, rr, 0], J[0][cc]), v_mul(o[e, 0, rr, 1], J[1][cc])))
                    r.append(v_sum([v_mul(dN[0, a, cc], U[TWO_EL_CONNS[e][a]][rr]) for a in range(3)]))
            atoms.append(Eq(l, r, when=v_lt(0.0, det), name='gradU_times_J_eq_sum_u_dN[el%d]' % e))   # only THIS element needs det J > 0
        return [], atoms
    c.prove('FS2grad', spec_g, cap=60)


# ------------------------------------------------------------------------------------------ Surface.py (P1 edge helpers)
def closed_boundary_chain(h, name, W, conn):
    """cut-lemma chain, last link: from the two lemmas proved on the code's terms (total = I_0+I_1+I_2 and
    I_k = W c.(T_y,-T_x)_k) the flux of a constant field through the closed boundary vanishes; the definitions of total
    and I_k are dropped (fresh reals), which only enlarges the set of models"""
    import z3
    X = sym_array('X', (3, 2))
    cv = sym_array('c', (2,))
    t = z3.Real('total')
    Ik = [z3.Real('I_%d' % k) for k in range(3)]
    v, J, det = geom(X, conn)
    lem = [t == Ik[0] + Ik[1] + Ik[2]]
    for k in range(3):
        a, b, cc, T = edge_oracle(v, k)
        lem.append(Ik[k] == toz(W) * (cv[0] * T[1] - cv[1] * T[0]))
    h.prove(name, lem, Eq(t, 0.0), inputs=dict(X=X, c=cv), concrete=None, cap=20,
            note='chain: lemmas surface_integral_is_sum_of_edge_integrals and edge_flux_of_constant_eq_W_c.normal_times_jac[edge0..2] of the same case')


@obligation(P, 'O9.A5_surface_module', cap=280)
def o9(h):
    """A5 for optimism/Surface.py (hard-coded P1 triangles): compute_normal / compute_edge_vectors unit, orthogonal,
    normal*|T| = (T_y,-T_x); get_coords picks vertex k -> k+1; integrate_function_on_edge / _on_surface: integral of
    n over an edge = W * normal*jac, of x = jac * (W a + S (b-a)) with the exact 1-D table constants W = sum w_q,
    S = sum w_q s_q, flux of a constant field through the closed triangle boundary = 0; integrate_values /
    integrate_function: jac * sum_q w_q f_q"""
    install_case_split()
    FS, I, QR, M, S = _mods()
    h.encoded(S.compute_normal, S.compute_edge_vectors, S.get_coords, S.integrate_function_on_edge, S.integrate_function_on_surface, S.integrate_values,
              S.integrate_function, QR.create_quadrature_rule_1D)
    h.bounds('edge end points: all reals, distinct; P1 triangle with unbounded coordinates, three cyclic node orders, det J > 0 only; 1-D rules of degree 2 (thorough: 1,2,5,9); '
             'symbolic quadrature-point field values for integrate_values')
    h.outside(*OUTSIDE, 'Surface.create_edges (Python list building driven by a user predicate)')
    h.assume_note(COMPOSITION, 'sqrt by guarded definition; no denominator assumed non-zero')
    smp = lambda rng: [rng.uniform(-3, 3, size=(2, 2))]
    c = Case(h, lambda E: (S.compute_edge_vectors(E), S.compute_normal(E)), dict(E=smp(onp.random.default_rng(13))[0]), sampler=smp, label='Surface.compute_edge_vectors/compute_normal')

    def spec(i, o):
        E = i['E']
        (t, n, j), n2 = o
        T = [v_sub(E[1][0], E[0][0]), v_sub(E[1][1], E[0][1])]
        return [v_lt(0.0, v_add(v_mul(T[0], T[0]), v_mul(T[1], T[1])))], unit_atoms(t, n, s0(j), T, '') + [
            Eq([n2[0], n2[1]], [n[0], n[1]], name='compute_normal_eq_edge_vectors_normal')]
    c.prove('A5surf[edge]', spec, cap=30, denoms=False, order=('nlsat', 'core'))

    edges = jnp.array([[0, 0], [0, 1], [0, 2]])
    for d1 in ((1, 2, 5, 9) if h.thorough() else (2,)):
        qr1 = QR.create_quadrature_rule_1D(d1)
        w = [F(x) for x in pyf(qr1.wgauss)]
        s = [F(x) for x in pyf(qr1.xigauss)]
        W, Sm = sum(w), sum(a * b for a, b in zip(w, s))
        ground(h, 'surface_line_constants[rule1d=%d]' % d1, abs(W - 1) <= Fr(TOL_W) and (d1 < 1 or abs(Sm - Fr(1, 2)) <= Fr(TOL_W)),
               'sum w - 1 = %.3g, sum w s - 1/2 = %.3g' % (float(W - 1), float(Sm - Fr(1, 2))), dict(rule1d=d1))
        nq = len(w)
        for conn in CYCLIC:
            mesh0 = one_element_mesh(conn)
            smpt = tri_sampler(3, conn, extra=(lambda rng: rng.normal(size=2),))
            ex = smpt(onp.random.default_rng(14))

            def ftot(X, cvec, mesh0=mesh0, qr1=qr1):
                mesh = M.mesh_with_coords(mesh0, X)
                func = lambda x, n: cvec @ n
                return S.integrate_function_on_surface(qr1, edges, mesh, func), [S.integrate_function_on_edge(qr1, (0, k), mesh, func) for k in range(3)]
            c = Case(h, ftot, dict(X=ex[0], c=ex[1]), sampler=smpt, label='Surface.integrate_function_on_surface %s rule1d=%d' % (conn, d1))

            def spec_tot(i, o, conn=conn, W=W):
                total, Ik = o
                cv = i['c']
                v, J, det = geom(i['X'], conn)
                atoms = [Eq(s0(total), v_sum([s0(x) for x in Ik]), name='surface_integral_is_sum_of_edge_integrals')]
                for k in range(3):
                    a, b, cc, T = edge_oracle(v, k)
                    atoms.append(Eq(s0(Ik[k]), v_mul(W, v_sub(v_mul(cv[0], T[1]), v_mul(cv[1], T[0]))), name='edge_flux_of_constant_eq_W_c.normal_times_jac[edge%d]' % k))
                return pos(det), atoms
            c.prove('A5surf[%d%d%d,rule1d=%d]' % (tuple(conn) + (d1,)), spec_tot, cap=40, denoms=False, order=('nlsat', 'core'))
            closed_boundary_chain(h, 'A5surf[%d%d%d,rule1d=%d].flux_of_constant_field_through_closed_boundary_is_zero' % (tuple(conn) + (d1,)), W, conn)

            for k in range(3):
                def fk(X, mesh0=mesh0, qr1=qr1, k=k):
                    mesh = M.mesh_with_coords(mesh0, X)
                    ec = S.get_coords(mesh, (0, k))
                    return (ec, S.compute_edge_vectors(ec)[2],
                            [S.integrate_function_on_edge(qr1, (0, k), mesh, (lambda x, n, r=r: n[r])) for r in range(2)],
                            [S.integrate_function_on_edge(qr1, (0, k), mesh, (lambda x, n, r=r: x[r])) for r in range(2)])
                c = Case(h, fk, dict(X=ex[0]), sampler=tri_sampler(3, conn), label='Surface.integrate_function_on_edge %s rule1d=%d edge%d' % (conn, d1, k))

                def spec_k(i, o, conn=conn, k=k, W=W, Sm=Sm):
                    ec, j, In, Ix = o
                    j = s0(j)
                    v, J, det = geom(i['X'], conn)
                    a, b, cc, T = edge_oracle(v, k)
                    return pos(det), [
                        Eq([ec[0][0], ec[0][1], ec[1][0], ec[1][1]], [a[0], a[1], b[0], b[1]], name='get_coords_is_vertex_k_to_k+1'),
                        Eq([s0(In[0]), s0(In[1])], [v_mul(W, T[1]), v_mul(W, v_sub(0.0, T[0]))], name='edge_integral_of_n_eq_W_normal_times_jac'),
                        Eq([s0(Ix[r]) for r in range(2)], [v_mul(j, v_add(v_mul(W, a[r]), v_mul(Sm, T[r]))) for r in range(2)], name='edge_integral_of_x_eq_jac_(W_a+S_T)')]
                c.prove('A5surf[%d%d%d,rule1d=%d,edge%d]' % (tuple(conn) + (d1, k)), spec_k, cap=40, denoms=False, order=('nlsat', 'core'))

        # integrate_values / integrate_function on a free segment
        smpv = lambda rng, nq=nq: [rng.uniform(-3, 3, size=(2, 2)), rng.normal(size=nq)]
        exv = smpv(onp.random.default_rng(15))
        c = Case(h, lambda E, f, qr1=qr1: (S.integrate_values(qr1, E, f), S.integrate_function(qr1, E, lambda x: x[0]), S.compute_edge_vectors(E)[2]),
                 dict(E=exv[0], f=exv[1]), sampler=smpv, label='Surface.integrate_values/integrate_function rule1d=%d' % d1)

        def spec_v(i, o, w=w, W=W, Sm=Sm, nq=nq):
            E, f = i['E'], i['f']
            T = [v_sub(E[1][0], E[0][0]), v_sub(E[1][1], E[0][1])]
            j = s0(o[2])
            return [v_lt(0.0, v_add(v_mul(T[0], T[0]), v_mul(T[1], T[1])))], [
                Eq(s0(o[0]), v_mul(j, v_sum([v_mul(w[q], f[q]) for q in range(nq)])), name='integrate_values_eq_jac_sum_w_f'),
                Eq(s0(o[1]), v_mul(j, v_add(v_mul(W, E[0][0]), v_mul(Sm, T[0]))), name='integrate_function_x_eq_jac_(W_a+S_T)')]
        c.prove('A5surf[values,rule1d=%d]' % d1, spec_v, cap=40, denoms=False, order=('nlsat', 'core'))


# ------------------------------------------------------------------------------------------ edge interpolation over the (order, 1-D rule) grid
@obligation(P, 'O10.edge_interpolation_and_polynomial_flux', cap=280)
def o10(h):
    """FunctionSpace.interpolate_nodal_field_on_edge / integrate_function_on_edge over the (element order, 1-D rule degree) grid
    INCLUDING the combinations with as many Gauss points as edge nodes (square 1-D shape table), symbolic nodal values:
    value at edge point q = sum_a N_a(s_q) u_(edge node a) with the real 1-D table in its documented (nodes x points)
    layout; nodal values of ANY polynomial of degree <= order in the edge parameter are reproduced at every edge point;
    edge integral of the flux u.n of ANY nodal vector field over an affine edge = (T_y,-T_x) . sum_q w_q sum_a N_a(s_q) u_a,
    whose quadrature of s^k, k <= min(order, rule degree), is exact (ground)"""
    install_case_split()
    FS, I, QR, M, S = _mods()
    h.encoded(FS.interpolate_nodal_field_on_edge, FS.get_nodal_values_on_edge, FS.integrate_function_on_edge, FS.integrate_function_on_edges, M.compute_edge_vectors,
              M.get_edge_coords, M.create_higher_order_mesh_from_simplex_mesh, I.compute_shapes, I.shape1d, QR.create_quadrature_rule_1D)
    h.bounds('element orders 1,2 (thorough: 1,2,3) on meshes elevated by the real code; 1-D rule degrees 1, 3, 2*order, 2*order+1 (thorough: 0..2*order+3); nodal values: all reals; '
             'polynomial coefficients in [-1,1]; edge integral: vertex coordinates unbounded with det J > 0, nodal vector field all reals')
    h.outside(*OUTSIDE, 'polynomial fluxes on a closed boundary: divergence theorem itself (composition of the identities here with O7 and the ground moments)')
    h.assume_note(COMPOSITION, 'sqrt by guarded definition; no denominator assumed non-zero')
    eps = Fr(EPS)
    pw = lambda x, k: x ** k if k > 0 else Fr(1)
    conn = [1, 2, 0]
    base = one_element_mesh(conn)
    for order in ((1, 2, 3) if h.thorough() else (1, 2)):
        ho = M.create_higher_order_mesh_from_simplex_mesh(base, order)
        pe, pe1 = ho.parentElement, ho.parentElement1d
        nn = int(pe.coordinates.shape[0])
        econn = [int(v) for v in ho.conns[0]]
        enodes = [[econn[int(a)] for a in pe.faceNodes[k]] for k in range(3)]      # global node ids along edge k, 1-D parent order
        sn = pyf(pe1.coordinates)
        degs = range(0, 2 * order + 4) if h.thorough() else sorted({1, 3, 2 * order, 2 * order + 1})
        seen = set()
        for d1 in degs:
            qr1 = QR.create_quadrature_rule_1D(d1)
            nq = len(qr1)
            if nq in seen and d1 not in (2 * order, 2 * order + 1):
                continue
            seen.add(nq)
            s1, w1 = pyf(qr1.xigauss), pyf(qr1.wgauss)
            Nt = pyf(I.compute_shapes(pe1, qr1.xigauss).values)                    # documented layout [node a][point q]
            assert len(Nt) == order + 1 and len(Nt[0]) == nq
            tag = 'P%d,rule1d=%d%s' % (order, d1, ',square' if nq == order + 1 else '')
            worst = Fr(0)
            for k in range(0, min(order, d1) + 1):
                quad = sum(F(w1[q]) * sum(F(Nt[a][q]) * pw(F(sn[a]), k) for a in range(order + 1)) for q in range(nq))
                worst = max(worst, abs(quad - Fr(1, k + 1)))
            ground(h, 'edge_quadrature_of_interpolated_monomials[%s]' % tag, worst <= 4 * ULPS * eps,
                   'max_k<=min(order,degree) |sum_q w_q sum_a N_a(s_q) s_a^k - 1/(k+1)| = %.3g ulp (allowed %g)' % (float(worst / eps), 4 * ULPS), dict(order=order, rule1d=d1))
            fs0 = FS.FunctionSpace(None, None, None, ho, None, False)

            # (i) any nodal values
            fu = lambda U, qr1=qr1, fs0=fs0: [FS.interpolate_nodal_field_on_edge(fs0, U, qr1.xigauss, (0, k)) for k in range(3)]
            smpu = lambda rng, nn=nn: [rng.normal(size=(nn, 2))]
            c = Case(h, fu, dict(U=smpu(onp.random.default_rng(20))[0]), sampler=smpu, label='interpolate_nodal_field_on_edge ' + tag)

            def spec_u(i, o, enodes=enodes, Nt=Nt, nq=nq, order=order):
                U = i['U']
                l, r = [], []
                for k in range(3):
                    for q in range(nq):
                        for cpt in range(2):
                            l.append(o[k][q, cpt])
                            r.append(v_sum([v_mul(Nt[a][q], U[enodes[k][a]][cpt]) for a in range(order + 1)]))
                return [], [Eq(l, r, name='value_at_edge_point_eq_sum_N_a(s_q)_u_a')]
            c.prove('EI[%s]' % tag, spec_u, cap=30)

            # (ii) nodal values of any polynomial of degree <= order in the edge parameter
            def fp(cf, qr1=qr1, fs0=fs0, enodes=enodes, sn=sn, nn=nn, order=order):
                V = jnp.array([[s ** j for j in range(order + 1)] for s in sn])
                out = []
                for k in range(3):
                    U = jnp.zeros((nn, 1)).at[jnp.array(enodes[k]), 0].set(V @ cf)
                    out.append(FS.interpolate_nodal_field_on_edge(fs0, U, qr1.xigauss, (0, k))[:, 0])
                return out
            smpc = lambda rng, order=order: [rng.uniform(-1, 1, size=order + 1)]
            c = Case(h, fp, dict(c=smpc(onp.random.default_rng(21))[0]), sampler=smpc, label='interpolate_nodal_field_on_edge(polynomial) ' + tag)
            tolp = 8 * ULPS * EPS * (order + 1)

            def spec_p(i, o, s1=s1, nq=nq, order=order, tolp=tolp):
                cf = i['c']
                d = []
                for k in range(3):
                    for q in range(nq):
                        d.append(v_abs(v_sub(o[k][q], v_sum([v_mul(s1[q] ** j, cf[j]) for j in range(order + 1)]))))
                return [cnd for x in flat(cf) for cnd in (v_le(-1.0, x), v_le(x, 1.0))], [Le(d, tolp, name='polynomial_of_degree_le_order_reproduced_at_edge_points', scale=SC)]
            c.prove('EI[%s]' % tag, spec_p, cap=30)

            # (iii) edge integral of the flux of any nodal vector field over an affine edge (real elevation, symbolic vertices)
            if nq > order + 1 and d1 not in (1, 3):
                continue          # the integral adds nothing over (i) for over-integrated combinations; keep the grid small
            for k in range(3):
                def fi(X, U, qr1=qr1, order=order, k=k):
                    with jax.ensure_compile_time_eval():
                        m = M.create_higher_order_mesh_from_simplex_mesh(M.mesh_with_coords(base, X), order)
                    fs = FS.FunctionSpace(None, None, None, m, None, False)
                    return FS.integrate_function_on_edge(fs, lambda u, x, n: u @ n, U, qr1, (0, k))
                smpi = tri_sampler(3, conn, extra=(lambda rng, nn=nn: rng.normal(size=(nn, 2)),))
                exi = smpi(onp.random.default_rng(22))
                c = Case(h, fi, dict(X=exi[0], U=exi[1]), sampler=smpi, label='integrate_function_on_edge(u.n) %s edge%d' % (tag, k))

                def spec_i(i, o, k=k, enodes=enodes, Nt=Nt, w1=w1, nq=nq, order=order):
                    X, U = i['X'], i['U']
                    v, J, det = geom(X, conn)
                    a, b, cc, T = edge_oracle(v, k)
                    Nv = [T[1], v_sub(0.0, T[0])]
                    m = [v_sum([v_mul(F(w1[q]) * F(Nt[aa][q]), U[enodes[k][aa]][cpt]) for q in range(nq) for aa in range(order + 1)]) for cpt in range(2)]
                    return pos(det), [Eq(s0(o), v_add(v_mul(Nv[0], m[0]), v_mul(Nv[1], m[1])), name='edge_flux_eq_(Ty,-Tx).sum_q_w_q_sum_a_N_a(s_q)_u_a')]
                c.prove('EI[%s,edge%d]' % (tag, k), spec_i, cap=40, denoms=False, order=('nlsat', 'core'))


# ------------------------------------------------------------------------------------------ order elevation of meshes whose coordinates are not float64
def v_trunc(x):
    """round toward zero (what astype(int) does), dual: float / z3 real"""
    import z3
    if not isinstance(x, z3.ExprRef):
        return float(math.trunc(x))
    return z3.ToReal(z3.If(x >= 0, z3.ToInt(x), -z3.ToInt(-x)))


def dtype_hook(ctx, eqn, iv):
    """`convert_element_type` with the dtype carried: float -> integer truncates toward zero (z3 ToInt), float64 -> float32 returns a
    fresh real within the relative rounding error 2^-24 of its argument (over-approximation: any `unsat` stands, a `sat` is decided
    by the replay on the real code). Everything else (int -> float, float32 -> float64, concrete arrays) is left to vf.jx."""
    import z3
    from .. import jx
    from ..sym import rat, isz
    nd, od = onp.dtype(eqn.params['new_dtype']), onp.dtype(eqn.invars[0].aval.dtype)
    to_int = od.kind == 'f' and nd.kind in 'iu'
    to_f32 = od == onp.float64 and nd == onp.float32
    if not (to_int or to_f32) or (jx.all_concrete(iv) and not ctx.ground):
        return NotImplemented

    def cv(a):
        if isz(a) and ctx.ground:
            g = jx.ground_num(ctx, a)
            if g is not None:
                a = g
        if not isz(a):
            return float(math.trunc(a)) if to_int else rat(float(onp.float32(float(a)))) if ctx.ground else float(onp.float32(float(a)))
        if to_int:
            return v_trunc(a)
        r = ctx.fresh('f32')
        u = z3.RealVal(1) / (2 ** 24)
        ctx.add_side(z3.And(r - a <= u * z3.If(a >= 0, a, -a) + z3.RealVal(1) / 2 ** 149, a - r <= u * z3.If(a >= 0, a, -a) + z3.RealVal(1) / 2 ** 149))
        return r
    return jx.ew(cv, iv[0])


def validate_hooked(h, fn, cj, sampler, label, n=3, rtol=1e-9):
    """translator validation of a case that needs dtype_hook (vf.jx.validate builds its own hook-free context)"""
    from .. import jx
    from ..sym import rat, isz, toz
    rng = onp.random.default_rng(h.seed)
    worst = 0.0
    for _ in range(n):
        args = [onp.asarray(a, dtype=float) for a in sampler(rng)]
        real = jax.tree_util.tree_leaves(fn(*[jnp.asarray(a) for a in args]))
        ctx = jx.Ctx(ground=True)
        ctx.hooks['convert_element_type'] = dtype_hook
        outs = jx.eval_jaxpr(ctx, cj.jaxpr, cj.consts, *[jx.ew(lambda v: rat(v), a) for a in args])
        for o, r in zip(outs, real):
            for x, y in zip(o.reshape(-1), onp.asarray(r, dtype=float).reshape(-1)):
                g = jx.ground_num(ctx, toz(x)) if isz(x) else x
                if g is None:
                    raise jx.JXError('validation: output did not reduce to a numeral: %s' % x)
                err = abs(float(g) - y) / (1.0 + abs(y))
                worst = max(worst, err)
                if not err <= rtol:
                    raise jx.JXError('translator validation failed (%s): JX %r vs real %r (inputs %s)' % (label, float(g), y, [a.tolist() for a in args]))
    h.fact('translator_validation[%s]' % label, True, 'max rel err %.2e on %d ground runs of the symbolic path (dtype-carrying convert_element_type)' % (worst, n), nontrivial=False)


@obligation(P, 'O11.elevation_of_non_float64_meshes', cap=280)
def o11(h):
    """Mesh.create_higher_order_mesh_from_simplex_mesh when the simplex mesh holds its coordinates in an INTEGER array or in
    float32: the new edge and interior nodes must still be the affine images of the reference nodes under the map of
    the element's (integer / float32) vertices, and quadrature points must stay affine -- i.e. the elevated coordinates
    must not be cast back to the input dtype. `convert_element_type` is encoded with its dtype semantics (truncation /
    float32 rounding)"""
    install_case_split()
    FS, I, QR, M, S = _mods()
    from .. import jx
    h.encoded(M.create_higher_order_mesh_from_simplex_mesh, M.create_edges, M.mesh_with_coords, FS.interpolate_to_element_points, I.compute_shapes)
    h.bounds('one element (thorough: also the 2-element mesh), vertex coordinates free reals in [-%g,%g]^2 cast to int64 (truncation: every integer mesh in the box) resp. to float32 '
             '(any float32 mesh in the box; rounding over-approximated by a relative error <= 2^-24); elevation to P2 and P3+bubble (thorough: also P3, P2+bubble); '
             'tolerance %.3g (absolute, box scale)' % (BOX, BOX, TOL_XH))
    h.outside(*OUTSIDE, 'the exact float32 rounding function (only its error bound is used; a counterexample is always replayed on the real code)')
    h.assume_note(COMPOSITION, 'float -> int conversion = truncation toward zero (z3 ToInt); float64 -> float32 = fresh value within relative error 2^-24 (+2^-149)')
    qr = QR.create_quadrature_rule_on_triangle(2)
    xi = pyf(qr.xigauss)
    meshes = [('1el', one_element_mesh([1, 2, 0]), [[1, 2, 0]], 3)]
    if h.thorough():
        meshes.append(('2el', M.construct_mesh_from_basic_data(jnp.array([[0., 0.], [1., 0.], [1., 1.], [0., 1.]]), jnp.array(TWO_EL_CONNS), {'block': jnp.arange(2)}), TWO_EL_CONNS, 4))
    for mname, base, conns, nv in meshes:
        for order, bubble in elevated(h):
            ho = M.create_higher_order_mesh_from_simplex_mesh(base, order, useBubbleElement=bubble)
            econns = [[int(v) for v in row] for row in ho.conns]
            pc = pyf(ho.parentElement.coordinates)
            vloc = [int(k) for k in ho.parentElement.vertexNodes]
            sh = I.compute_shapes(ho.parentElement, qr.xigauss)
            for dt, dname in ((jnp.int64, 'int64'), (jnp.float32, 'float32')):
                def fn(X, base=base, order=order, bubble=bubble, dt=dt, sh=sh, ne=len(conns)):
                    with jax.ensure_compile_time_eval():
                        m = M.create_higher_order_mesh_from_simplex_mesh(M.mesh_with_coords(base, X.astype(dt)), order, useBubbleElement=bubble)
                    return m.coords, [FS.interpolate_to_element_points(m.coords, sh.values, m.conns[e]) for e in range(ne)]
                smp = (lambda rng, nv=nv: [rng.uniform(-4, 4, size=(nv, 2))])
                lab = '%s,%s,%s' % (mname, elem_name(order, bubble), dname)
                ctx = jx.Ctx()
                ctx.hooks['convert_element_type'] = dtype_hook
                c = Case(h, fn, dict(X=smp(onp.random.default_rng(30))[0]), validate=0, ctx=ctx, label='elevate ' + lab)
                validate_hooked(h, fn, c.cj, smp, 'elevate ' + lab)

                def spec(i, o, econns=econns, pc=pc, vloc=vloc, nv=nv, dname=dname):
                    XH, pts = o
                    if getattr(XH, 'dtype', None) != object:
                        XH = onp.asarray(XH, dtype=onp.float64)          # replay: evaluate the oracle in binary64 whatever dtype the code returned
                    nodes, points = [], []
                    for e, ec in enumerate(econns):
                        v, J, det = geom(XH, [ec[k] for k in vloc])        # the element map of the OUTPUT mesh's own vertices
                        for a in range(len(pc)):
                            if a in vloc:
                                continue
                            p = affine_point(v, J, pc[a])
                            nodes += [v_abs(v_sub(XH[ec[a]][0], p[0])), v_abs(v_sub(XH[ec[a]][1], p[1]))]
                        for q in range(len(xi)):
                            p = affine_point(v, J, xi[q])
                            points += [v_abs(v_sub(pts[e][q, 0], p[0])), v_abs(v_sub(pts[e][q, 1], p[1]))]
                    atoms = [Le(nodes, TOL_XH, name='new_nodes_are_affine_images_of_reference_nodes', scale=SC),
                             Le(points, TOL_XH, name='quadrature_points_affine', scale=SC)]
                    if dname == 'int64':
                        atoms.append(Eq([XH[n][cc] for n in range(nv) for cc in range(2)], [v_trunc(i['X'][n][cc]) for n in range(nv) for cc in range(2)],
                                        name='vertex_rows_are_the_integer_input_coordinates'))
                    return box(i['X']), atoms
                c.prove('ELV[%s]' % lab, spec, cap=40, order=('core',))


# ------------------------------------------------------------------------------------------ padded 1-D rule (jit-able factory, lax.switch on the degree)
def _install_rounding_prims():
    """ceil / floor / round for vf.jx (local, only if absent): exact on numbers and ground numerals, z3 ToInt on symbolic reals"""
    import z3
    from .. import jx
    from ..sym import isz

    def mk(kind):
        def f(ctx, P, iv):
            even = kind == 'round' and int(P.get('rounding_method', 0)) == 1

            def one(a):
                if isz(a):
                    g = jx.ground_num(ctx, a) if ctx.ground else None
                    if g is None:
                        fl = lambda t: z3.ToInt(t)
                        if kind == 'floor':
                            return z3.ToReal(fl(a))
                        if kind == 'ceil':
                            return z3.ToReal(-fl(-a))
                        half = a + z3.RealVal(1) / 2
                        r = fl(half)
                        if even:     # ties to even
                            return z3.ToReal(z3.If(z3.And(z3.ToReal(r) == half, r % 2 == 1), r - 1, r))
                        return z3.ToReal(z3.If(a >= 0, r, -fl(-a + z3.RealVal(1) / 2)))     # ties away from zero
                    a = g
                x = Fr(a)
                if kind == 'floor':
                    return float(math.floor(x))
                if kind == 'ceil':
                    return float(math.ceil(x))
                r = math.floor(x + Fr(1, 2))
                if even:
                    if Fr(r) == x + Fr(1, 2) and r % 2 == 1:
                        r -= 1
                    return float(r)
                return float(r if x >= 0 else -math.floor(-x + Fr(1, 2)))
            return jx.ew(one, iv[0])
        return f
    for kind in ('ceil', 'floor', 'round'):
        jx.ELEMENTWISE.setdefault(kind, mk(kind))


@obligation(P, 'O12.padded_1d_rule', cap=200)
def o12(h):
    """QuadratureRule.create_padded_quadrature_rule_1D (the jit-able factory: lax.switch on the stated degree): for every
    stated degree 0..9, eagerly (ground) AND with a TRACED degree (the switch index expression and all five branches are
    encoded; the branch is selected by the code's own index arithmetic): moments sum_q w_q x_q^k = 1/(k+1) for all
    k <= degree, weights >= 0 (padding entries carry zero weight), points in [0,1]"""
    install_case_split()
    _install_rounding_prims()
    FS, I, QR, M, S = _mods()
    h.encoded(QR.create_padded_quadrature_rule_1D, QR._gauss_quad_1D_1pt, QR._gauss_quad_1D_2pt, QR._gauss_quad_1D_3pt, QR._gauss_quad_1D_4pt, QR._gauss_quad_1D_5pt)
    h.bounds('stated degree 0..9 (5 padded points; degree >= 10 is beyond the five tabulated branches); tolerance %g ulp of sum_q |w_q| = 1; traced case: degree a free real '
             'constrained to each integer 0..9 in turn' % ULPS)
    h.outside(*OUTSIDE, 'stated degrees >= 10 (the switch index is clamped to the 5-point rule, exact to degree 9 only)', 'non-integer degrees')
    h.assume_note(COMPOSITION, 'ceil/floor/round are encoded with z3 ToInt (round: ties to even / away from zero as the primitive says); float -> int conversion of the '
                  'already integral value is the identity')
    eps = Fr(EPS)
    pw = lambda x, k: x ** k if k > 0 else Fr(1)
    for d in range(0, 10):
        qr = QR.create_padded_quadrature_rule_1D(d)
        x = [F(v) for v in onp.asarray(qr.xigauss, dtype=float)]
        w = [F(v) for v in onp.asarray(qr.wgauss, dtype=float)]
        worst, at = Fr(0), None
        for k in range(d + 1):
            e = abs(sum(w[q] * pw(x[q], k) for q in range(len(w))) - Fr(1, k + 1))
            if e > worst:
                worst, at = e, k
        ok = len(w) == 5 == len(x) and worst <= ULPS * eps and all(v >= 0 for v in w) and all(0 <= p <= 1 for p in x)
        ground(h, 'padded_line_moments_eager[degree%d]' % d, ok, '%d positive weights of 5, worst moment defect %.3g ulp at x^%s (allowed %g); weights >= 0, points in [0,1]'
               % (sum(1 for v in w if v > 0), float(worst / eps), at, ULPS), dict(degree=d, defect_ulps=float(worst / eps), power=at))

    # the five branch tables, mapped to [0,1] as the factory does, as exact rationals; which of them are exact up to which degree
    tables = []
    for b, fb in enumerate((QR._gauss_quad_1D_1pt, QR._gauss_quad_1D_2pt, QR._gauss_quad_1D_3pt, QR._gauss_quad_1D_4pt, QR._gauss_quad_1D_5pt)):
        xb, wb = fb(None)
        X = [(F(v) + 1) / 2 for v in onp.asarray(xb, dtype=float)]
        Wt = [F(v) / 2 for v in onp.asarray(wb, dtype=float)]
        deg = -1
        while deg < 12 and abs(sum(Wt[q] * pw(X[q], deg + 1) for q in range(5)) - Fr(1, deg + 2)) <= ULPS * eps:
            deg += 1
        tables.append((X, Wt, deg))
    ground(h, 'padded_branch_tables_exactness', [t[2] for t in tables] == [1, 3, 5, 7, 9], 'branch k (k+1 Gauss points) is exact to degree %s' % [t[2] for t in tables], {})
    smp = lambda rng: [float(rng.integers(0, 10))]
    c = Case(h, lambda degree: tuple(QR.create_padded_quadrature_rule_1D(degree)), dict(degree=3.0), sampler=smp, label='create_padded_quadrature_rule_1D(traced degree)')
    for D in range(0, 10):
        def spec(i, o, D=D):
            xi, w = o
            d = s0(i['degree'])
            mom = []
            for k in range(D + 1):
                terms = []
                for q in range(5):
                    t = w[q]
                    for _ in range(k):
                        t = v_mul(t, xi[q])
                    terms.append(t)
                mom.append(v_abs(v_sub(v_sum(terms), Fr(1, k + 1))))
            rng = []
            for q in range(5):
                rng += [v_sub(0.0, w[q]), v_sub(0.0, xi[q]), v_sub(xi[q], 1.0)]
            # linear form of the same claim (no products of if-then-else terms): the returned padded table IS one of the branch tables that
            # are exact up to the stated degree (4e-16 slack only so that the float replay of the mapped points compares equal)
            sel = []
            for X, Wt, deg in tables:
                if deg >= D:
                    sel.append(v_and(*[v_le(v_abs(v_sub(xi[q], X[q])), 4e-16) for q in range(5)], *[v_le(v_abs(v_sub(w[q], Wt[q])), 4e-16) for q in range(5)]))
            atoms = [Holds(v_or(*sel), name='returned_table_is_a_branch_exact_to_stated_degree'),
                     Le(rng, 0.0, name='weights_nonnegative_points_in_unit_interval', scale=SC)]
            if D <= 6:
                atoms.insert(0, Le(mom, TOL_W, name='moments_up_to_stated_degree', scale=SC))
            return [v_le(float(D), d), v_le(d, float(D))], atoms
        c.prove('padded_traced[degree=%d]' % D, spec, cap=30, order=('core',))


# ------------------------------------------------------------------------------------------ element blocks given as index arrays
THREE_EL_CONNS = [[0, 1, 2], [2, 3, 0], [4, 0, 3]]       # fan around node 0, three different cyclic starts


@obligation(P, 'O13.block_index_arrays', cap=280)
def o13(h):
    """integrate_over_block / evaluate_on_block with NON-consecutive, unordered block index arrays ([0,2], [2,0], [1] on a
    3-element mesh), every per-element array of the function space symbolic (vols, shapeGrads, state, nodal field,
    coordinates): evaluate_on_block returns exactly the rows of the listed elements in the listed order (oracle: the
    integrand written out per element, and the same function called with block=[e]), the integral is the sum over exactly
    the listed elements of sum_q vols[e,q] f(e,q)"""
    install_case_split()
    FS, I, QR, M, S = _mods()
    h.encoded(FS.integrate_over_block, FS.evaluate_on_block, FS.evaluate_on_element, FS.interpolate_to_element_points, FS.compute_element_field_gradient)
    h.bounds('3-element P1 mesh %s (5 nodes), blocks [0,2], [2,0], [1], [0,1,2] (thorough: also [2,1], [1,0,2]); all reals: coordinates, nodal field (5x2), vols (3xnq), shapeGrads '
             '(3xnqx3x2), state (3xnqx1); real P1 shape table of triangle rule 2; integrand f = u_0 x_1 + (grad u)_01 + state_0 - 3 u_1' % THREE_EL_CONNS)
    h.outside(*OUTSIDE, 'blocks given as Python slices; duplicate indices')
    h.assume_note(COMPOSITION)
    qr = QR.create_quadrature_rule_on_triangle(2)
    pe = parent(1, False)
    sh = I.compute_shapes(pe, qr.xigauss)
    Nt, nq = pyf(sh.values), len(qr)
    mesh0 = M.construct_mesh_from_basic_data(jnp.zeros((5, 2)), jnp.array(THREE_EL_CONNS), {'block': jnp.arange(3)})
    shapes = jnp.tile(sh.values, (3, 1, 1))
    kern = lambda u, gu, st, x, dt: u[0] * x[1] + gu[0, 1] + st[0] - 3.0 * u[1]

    def oracle(i, e, q):
        X, U, G, st = i['X'], i['U'], i['G'], i['st']
        cn = THREE_EL_CONNS[e]
        u = [v_sum([v_mul(Nt[q][a], U[cn[a]][c]) for a in range(3)]) for c in range(2)]
        x1 = v_sum([v_mul(Nt[q][a], X[cn[a]][1]) for a in range(3)])
        g01 = v_sum([v_mul(U[cn[a]][0], G[e, q, a, 1]) for a in range(3)])
        return v_sum([v_mul(u[0], x1), g01, st[e, q, 0], v_mul(-3.0, u[1])])
    blocks = [[0, 2], [2, 0], [1], [0, 1, 2]] + ([[2, 1], [1, 0, 2]] if h.thorough() else [])
    smp = lambda rng: [rng.normal(size=(5, 2)), rng.normal(size=(5, 2)), rng.normal(size=(3, nq)), rng.normal(size=(3, nq, 3, 2)), rng.normal(size=(3, nq, 1))]
    ex = smp(onp.random.default_rng(40))
    for blk in blocks:
        def fn(X, U, V, G, st, blk=blk):
            fs = FS.FunctionSpace(shapes, V, G, M.mesh_with_coords(mesh0, X), qr, False)
            b = jnp.array(blk)
            return (FS.evaluate_on_block(fs, U, st, 0.0, kern, b), FS.integrate_over_block(fs, U, st, 0.0, kern, b),
                    [FS.evaluate_on_block(fs, U, st, 0.0, kern, jnp.array([e])) for e in blk],
                    [FS.integrate_over_block(fs, U, st, 0.0, kern, jnp.array([e])) for e in blk])
        tag = 'block=%s' % ''.join(str(e) for e in blk)
        c = Case(h, fn, dict(X=ex[0], U=ex[1], V=ex[2], G=ex[3], st=ex[4]), sampler=smp, label='evaluate_on_block/integrate_over_block ' + tag)

        def spec(i, o, blk=blk):
            vals, integ, single_vals, single_int = o
            V = i['V']
            rows, orc, srows, tot = [], [], [], []
            for r, e in enumerate(blk):
                for q in range(nq):
                    rows.append(vals[r, q])
                    f = oracle(i, e, q)
                    orc.append(f)
                    srows.append(single_vals[r][0, q])
                    tot.append(v_mul(V[e, q], f))
            return [], [Eq(rows, orc, name='rows_are_the_listed_elements_in_listed_order'),
                        Eq(rows, srows, name='rows_eq_single_element_blocks'),
                        Eq(s0(integ), v_sum(tot), name='integral_eq_sum_over_listed_elements_of_vols_f'),
                        Eq(s0(integ), v_sum([s0(x) for x in single_int]), name='integral_eq_sum_of_single_element_integrals')]
        c.prove('BLK[%s]' % tag, spec, cap=40)
