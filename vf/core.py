"""Obligation registry, per-obligation worker processes, solving/replay protocol, evidence, exit codes."""
import hashlib
import importlib
import inspect
import json
import multiprocessing as mp
import os
import sys
import time
import traceback

VERIF = os.path.dirname(os.path.dirname(os.path.abspath(__file__)))
REPO = os.environ.get('VERIF_REPO', '/repo')
EXIT_OK, EXIT_VIOLATION, EXIT_INCONCLUSIVE = 0, 1, 3
MARGINS = (1e-2, 1e-5, 1e-8)

REG = {}


class Ob:
    def __init__(self, prop, name, fn, tiers, cap, doc):
        self.prop, self.name, self.fn, self.tiers, self.cap, self.doc = prop, name, fn, tiers, cap, doc


def obligation(prop, name, tiers=('quick', 'thorough'), cap=300):
    def deco(fn):
        REG.setdefault(prop, []).append(Ob(prop, name, fn, tiers, cap, (fn.__doc__ or '').strip()))
        return fn
    return deco


def setup_repo_path():
    if REPO not in sys.path:
        sys.path.insert(0, REPO)
    # the sandbox has no sksparse; optimism.SparseCholesky imports it at module level
    if 'sksparse' not in sys.modules:
        try:
            import sksparse  # noqa
        except Exception:
            import types
            m = types.ModuleType('sksparse')
            c = types.ModuleType('sksparse.cholmod')

            def _na(*a, **k):
                raise RuntimeError('sksparse.cholmod is not available in this sandbox (import stub of the checker)')
            c.cholesky = _na
            c.analyze = _na
            c.CholmodError = RuntimeError
            c.CholmodNotPositiveDefiniteError = RuntimeError
            m.cholmod = c
            sys.modules['sksparse'] = m
            sys.modules['sksparse.cholmod'] = c


def src_id(f):
    try:
        f0 = inspect.unwrap(f)
        if hasattr(f0, '__wrapped__'):
            f0 = f0.__wrapped__
        src = inspect.getsource(f0)
        return '%s:%s sha1=%s' % (f0.__module__, f0.__qualname__, hashlib.sha1(src.encode()).hexdigest()[:12])
    except Exception as e:
        return '%s (source unavailable: %s)' % (getattr(f, '__qualname__', repr(f)), type(e).__name__)


class Harness:
    """lives in the worker process of one obligation"""

    def __init__(self, prop, ob, tier, seed, replay=None):
        self.prop, self.ob, self.tier, self.seed, self.replay = prop, ob, tier, seed, replay
        self.records = []
        self.meta = dict(functions=[], bounds=[], outside=[], assumptions=[], stubs=[])
        self._vac = {}
        self.t0 = time.time()
        self.replay_result = None

    # ---- metadata
    def encoded(self, *fs):
        for f in fs:
            s = f if isinstance(f, str) else src_id(f)
            if s not in self.meta['functions']:
                self.meta['functions'].append(s)

    def bounds(self, *t):
        self.meta['bounds'] += [x for x in t if x not in self.meta['bounds']]

    def outside(self, *t):
        self.meta['outside'] += [x for x in t if x not in self.meta['outside']]

    def assume_note(self, *t):
        self.meta['assumptions'] += [x for x in t if x not in self.meta['assumptions']]

    def thorough(self):
        return self.tier == 'thorough'

    # ---- the proof protocol
    def prove(self, name, assumes, atom, inputs=None, concrete=None, cap=60, order=('core', 'nlsat'), vac_cap=20,
              expect_vars=None, note=None, check_vacuity=True):
        """assumes: list of z3 bools. atom: sym.Atom built over z3 terms. inputs: dict name -> z3 var (array) to read
        from a model. concrete(values) -> (assumptions_hold: bool, atom_concrete: Atom, info) re-evaluates the property
        on the REAL code at float inputs."""
        import z3
        from . import sym
        qn = '%s/%s' % (self.ob, name)
        if self.replay is not None:
            if self.replay.get('query') != qn:
                return None
            self.replay_result = self._replay(qn, atom, self.replay['inputs'], concrete)
            return None
        rec = dict(query=qn, status=None, solver=None, time_s=0.0, attempts=[], note=note)
        self.records.append(rec)
        assumes = [a for a in assumes if a is not None and not (isinstance(a, bool) and a)]
        assumes = [sym.tob(a) for a in assumes]
        t0 = time.time()
        # vacuity twin: the assumptions alone must be satisfiable (same assumption set is checked once)
        rec['nonvacuous'] = None
        if check_vacuity:
            key = tuple(sorted(a.get_id() for a in assumes)) + (atom.when.get_id() if sym.isz(atom.when) else 0,)
            if key not in self._vac:
                twin = list(assumes) + ([atom.when] if sym.isz(atom.when) else [])
                st, m, sv, dt, att = sym.solve(twin, vac_cap, order=('nlsat', 'core') if order[0] != 'core' else ('core', 'nlsat'))
                self._vac[key] = st
                rec['attempts'].append(('vacuity', st, round(dt, 3)))
            rec['nonvacuous'] = {'sat': True, 'unsat': False}.get(self._vac[key])
            if rec['nonvacuous'] is False:
                rec['status'] = 'vacuous'
                rec['time_s'] = round(time.time() - t0, 3)
                return rec
        neg0 = atom.neg(0)
        st, m, sv, dt, att = sym.solve(assumes + [neg0], cap, order=order)
        rec['attempts'] += att
        rec['solver'] = sv
        if st == 'unsat':
            rec['status'] = 'discharged'
        elif st == 'unknown':
            rec['status'] = 'inconclusive'
            rec['detail'] = 'solver returned unknown within %ss' % cap
        else:
            # look for a robust model, then replay on the real code
            best = m
            used = 0
            for mg in MARGINS:
                try:
                    st2, m2, sv2, dt2, att2 = sym.solve(assumes + [atom.neg(mg)], min(cap, 30), order=('nlsat', 'core'))
                except Exception:
                    continue
                rec['attempts'].append(('margin%g' % mg, st2, round(dt2, 3)))
                if st2 == 'sat':
                    best, used = m2, mg
                    break
            rec['margin'] = used
            vals = self._read_inputs(best, inputs)
            rec['model'] = vals
            if concrete is None:
                rec['status'] = 'violated_unreplayed'
                rec['detail'] = 'solver found a counterexample; no replay driver for this query'
            else:
                rr = self._replay(qn, atom, vals, concrete)
                rec.update(rr)
        rec['time_s'] = round(time.time() - t0, 3)
        return rec

    def _read_inputs(self, model, inputs):
        from . import sym
        import numpy as onp
        out = {}
        for k, v in (inputs or {}).items():
            if isinstance(v, onp.ndarray):
                a = onp.empty(v.shape, dtype=float)
                af = a.reshape(-1)
                for i, x in enumerate(v.reshape(-1)):
                    af[i] = float(sym.model_value(model, x)) if sym.isz(x) else float(x)
                out[k] = a.tolist()
            elif sym.isz(v):
                mv = sym.model_value(model, v)
                out[k] = mv if isinstance(mv, (bool, int)) else float(mv)
            else:
                out[k] = v
        return out

    def _replay(self, qn, atom, vals, concrete):
        rr = {}
        try:
            ok_assume, atom_c, info = concrete(vals)
        except Exception as e:  # the real code raised on the counterexample input
            rr['status'] = 'unreproduced'
            rr['detail'] = 'replay raised %s: %s' % (type(e).__name__, e)
            rr['trace'] = traceback.format_exc()[-1500:]
            return rr
        rr['replay_info'] = info
        if not ok_assume:
            rr['status'] = 'unreproduced'
            rr['detail'] = 'model does not satisfy the assumptions when evaluated in floating point'
            return rr
        bad, wit = atom_c.conc_violated(1e-9)
        if bad:
            rr['status'] = 'violated'
            rr['witness'] = repr(wit)
            path = self._write_replay(qn, vals, rr)
            rr['replay'] = path
        else:
            rr['status'] = 'unreproduced'
            rr['detail'] = 'solver model does not reproduce on the real code (encoding, stub or axiom instance at fault, or violation below float resolution)'
        return rr

    def _write_replay(self, qn, vals, rr):
        d = os.path.join(VERIF, 'evidence', 'replay')
        os.makedirs(d, exist_ok=True)
        path = os.path.join(d, '%s_%s.json' % (self.prop, qn.replace('/', '_').replace(' ', '_')))
        with open(path, 'w') as f:
            json.dump(dict(property=self.prop, obligation=self.ob, query=qn, inputs=vals, witness=rr.get('witness'),
                           info=rr.get('replay_info'), how='cd /verif && ./check %s --replay %s' % (self.prop, path)), f, indent=1, default=str)
        return path

    def fact(self, name, ok, detail=None, nontrivial=True):
        """a ground (variable-free) check decided outside the solver, e.g. translator validation or a structural
        comparison; recorded separately from solver queries"""
        if self.replay is not None:
            return
        self.records.append(dict(query='%s/%s' % (self.ob, name), status='discharged' if ok else 'harness_error', solver='ground',
                                 time_s=0.0, attempts=[], nonvacuous=bool(nontrivial), detail=detail, ground=True))

    def violation(self, name, vals, detail, reproduced=True):
        """a violation established directly (e.g. the real function raises on a solver-produced input)"""
        qn = '%s/%s' % (self.ob, name)
        rec = dict(query=qn, status='violated' if reproduced else 'unreproduced', solver='direct', time_s=0.0, attempts=[],
                   nonvacuous=True, model=vals, detail=detail)
        if reproduced:
            rec['replay'] = self._write_replay(qn, vals, rec)
        self.records.append(rec)
        return rec


# ------------------------------------------------------------------------------------------ worker / parent
def _worker(prop, obname, tier, seed, replay, conn):
    try:
        os.environ.setdefault('JAX_PLATFORMS', 'cpu')
        os.environ.setdefault('XLA_FLAGS', '--xla_force_host_platform_device_count=1')
        setup_repo_path()
        mod = importlib.import_module('vf.props.%s' % prop.lower())
        ob = [o for o in REG[prop] if o.name == obname][0]
        h = Harness(prop, obname, tier, seed, replay)
        err = None
        try:
            ob.fn(h)
        except Exception as e:
            err = '%s: %s\n%s' % (type(e).__name__, e, traceback.format_exc()[-3000:])
        conn.send(dict(records=h.records, meta=h.meta, error=err, wall=time.time() - h.t0, replay_result=h.replay_result))
    except BaseException as e:  # pragma: no cover
        try:
            conn.send(dict(records=[], meta={}, error='worker crashed: %s\n%s' % (e, traceback.format_exc()[-3000:]), wall=0, replay_result=None))
        except Exception:
            pass
    finally:
        conn.close()


def load_known():
    path = os.path.join(VERIF, 'known_findings.jsonl')
    out = []
    if os.path.exists(path):
        for line in open(path):
            line = line.strip()
            if line.startswith('{'):
                out.append(json.loads(line))
    return out


def _noshard(q):
    import re
    return re.sub(r'\[shard \d+/\d+\]', '', q or '')


def match_known(known, prop, rec):
    for k in known:
        if k.get('property') != prop or k.get('status') != 'open':
            continue
        if k.get('query_regex'):
            import re
            if not re.match(k['query_regex'], _noshard(rec['query'])):
                continue
        elif _noshard(k.get('query')) != _noshard(rec['query']):
            continue
        cls = k.get('input_class')
        if cls:
            try:
                if not eval(cls, {'__builtins__': {'abs': abs, 'min': min, 'max': max, 'len': len, 'all': all, 'any': any}}, dict(m=rec.get('model') or {}, info=rec.get('replay_info'))):
                    continue
            except Exception:
                continue
        return k
    return None


def run_property(prop, tier, seed, only=None, jobs=None, replay=None, quiet=False):
    setup_repo_path()
    importlib.import_module('vf.props.%s' % prop.lower())
    obs = [o for o in REG.get(prop, []) if tier in o.tiers and (only is None or o.name in only)]
    if replay is not None:
        obs = [o for o in REG.get(prop, []) if o.name == replay['obligation']]
    ctx = mp.get_context('spawn')
    jobs = jobs or int(os.environ.get('VERIF_JOBS', '14'))
    pending = list(obs)
    running = []
    results = {}
    t_start = time.time()
    while pending or running:
        while pending and len(running) < jobs:
            o = pending.pop(0)
            pc, cc = ctx.Pipe(duplex=False)
            p = ctx.Process(target=_worker, args=(prop, o.name, tier, seed, replay, cc), daemon=True)
            p.start()
            cc.close()
            running.append((o, p, pc, time.time()))
        time.sleep(0.05)
        for item in list(running):
            o, p, pc, t0 = item
            done = False
            if pc.poll():
                try:
                    results[o.name] = pc.recv()
                except EOFError:
                    results[o.name] = dict(records=[], meta={}, error='worker died without result', wall=time.time() - t0)
                done = True
            elif not p.is_alive():
                results[o.name] = dict(records=[], meta={}, error='worker exited (code %s) without result' % p.exitcode, wall=time.time() - t0)
                done = True
            elif time.time() - t0 > o.cap * (3 if tier == 'thorough' else 1):
                p.kill()
                results[o.name] = dict(records=[], meta={}, error='obligation exceeded its wall cap of %ss (killed): inconclusive' % o.cap, wall=time.time() - t0, timeout=True)
                done = True
            if done:
                p.join(timeout=5)
                running.remove(item)
                if not quiet:
                    r = results[o.name]
                    st = {}
                    for rec in r['records']:
                        st[rec['status']] = st.get(rec['status'], 0) + 1
                    print('[%s %s] %.1fs %s%s' % (prop, o.name, r['wall'], st, ' ERROR: ' + r['error'].splitlines()[0] if r.get('error') else ''), flush=True)
    return obs, results, time.time() - t_start


def finish(prop, tier, seed, obs, results, wall, level_text=None):
    known = load_known()
    all_recs = []
    errors = []
    meta = dict(functions=[], bounds=[], outside=[], assumptions=[])
    for o in obs:
        r = results[o.name]
        if r.get('error'):
            errors.append('%s: %s' % (o.name, r['error']))
        for k in meta:
            for x in r.get('meta', {}).get(k, []):
                if x not in meta[k]:
                    meta[k].append(x)
        all_recs += r['records']
    n = len(all_recs)
    discharged = [r for r in all_recs if r['status'] == 'discharged']
    violated = [r for r in all_recs if r['status'] == 'violated']
    incon = [r for r in all_recs if r['status'] not in ('discharged', 'violated')]
    known_hits, new_viol = [], []
    for r in violated:
        k = match_known(known, prop, r)
        (known_hits if k else new_viol).append((r, k))
    seen_k = {}
    for r, k in known_hits:
        seen_k.setdefault(id(k), [k, []])[1].append(_noshard(r['query']))
    for k, qs in seen_k.values():
        uq = sorted(set(qs))
        label = uq[0] if len(uq) == 1 else '%s (+%d more queries of this finding)' % (uq[0], len(uq) - 1)
        print('KNOWN-FINDING: property=%s %s :: %s' % (prop, label, k.get('what', '')))
    for r, _ in new_viol:
        print('VIOLATION property=%s replay=%s' % (prop, r.get('replay')))
        print('  query=%s witness=%s model=%s' % (r['query'], r.get('witness'), json.dumps(r.get('model'), default=str)[:600]))
    for r in incon:
        print('INCONCLUSIVE property=%s query=%s status=%s %s%s' % (prop, r['query'], r['status'], (r.get('detail') or '')[:300],
              (' model=' + json.dumps(r.get('model'), default=str)[:1500] + ' decisions=' + str(r.get('path_decisions'))) if r.get('status') == 'unreproduced' and r.get('model') else ''))
    for e in errors:
        print('HARNESS-ERROR property=%s %s' % (prop, e[:2000]))
    samples = []
    for r in (discharged[:2] + [x for x, _ in known_hits][:1]):
        samples.append({k: r.get(k) for k in ('query', 'status', 'solver', 'time_s', 'attempts', 'nonvacuous', 'note', 'model') if r.get(k) is not None})
    evaluations = sum(len(r.get('attempts', [])) or 1 for r in all_recs)
    ev = dict(
        property_id=prop, tier=tier, seed=int(seed), level='other',
        coverage=dict(
            explanation='Bounded solver-based checking of the real code: each obligation is a quantifier-free SMT query (z3 %s) '
                        'built on this run from the jaxpr / Python source of the functions listed in functions_encoded; status '
                        'discharged = unsat of (assumptions and not goal) for ALL real-valued inputs in the stated box; sat models are '
                        'replayed on the real code before being reported. Bounds and what lies outside them are listed below.' % _z3v(),
            obligations=n, discharged=len(discharged), evaluations=int(evaluations),
            distinct_nontrivial=len({r['query'] for r in discharged if r.get('nonvacuous')}),
            rule='one query per (obligation, goal atom); non-trivial = discharged AND its vacuity twin (assumptions alone, '
                 'incl. the guard of the goal) was sat, or a ground fact computed from the real code',
            samples=samples or [dict(note='no query discharged')],
            functions_encoded=meta['functions'], bounds=meta['bounds'], outside_claim=meta['outside'],
            solver_time_s={r['query']: r.get('time_s') for r in all_recs},
            status_by_query={r['query']: r['status'] for r in all_recs},
            known_findings=[r['query'] for r, _ in known_hits],
            inconclusive=[r['query'] for r in incon], harness_errors=errors,
            trusted_base=['JAX tracing (make_jaxpr) of the real functions', 'vf.jx / vf.px interpreters (validated per run against the real functions on ground inputs)', 'z3'],
            checker_cmd='./check %s --tier %s' % (prop, tier), exhaustive=False),
        assumptions=['program values are mathematical reals; float literals are encoded as the exact rational of the binary64 value; rounding error of evaluation is outside every claim'] + meta['assumptions'],
        wall_s=round(wall, 2), violations=len(new_viol))
    os.makedirs(os.path.join(VERIF, 'evidence'), exist_ok=True)
    with open(os.path.join(VERIF, 'evidence', '%s.json' % prop), 'w') as f:
        json.dump(ev, f, indent=1, default=str)
    print('SUMMARY property=%s tier=%s queries=%d discharged=%d violations=%d known=%d inconclusive=%d errors=%d wall=%.1fs'
          % (prop, tier, n, len(discharged), len(new_viol), len(known_hits), len(incon), len(errors), wall))
    if new_viol:
        return EXIT_VIOLATION
    if incon or errors or n == 0:
        return EXIT_INCONCLUSIVE
    return EXIT_OK


def _z3v():
    try:
        import z3
        return z3.get_version_string()
    except Exception:
        return '?'


def main(argv=None):
    import argparse
    ap = argparse.ArgumentParser()
    ap.add_argument('prop')
    ap.add_argument('--tier', default=os.environ.get('VERIF_TIER', 'quick'))
    ap.add_argument('--only', default=None)
    ap.add_argument('--replay', default=None)
    ap.add_argument('--jobs', type=int, default=None)
    a = ap.parse_args(argv)
    seed = int(os.environ.get('VERIF_SEED', '0') or 0)
    prop = a.prop.upper()
    if a.replay:
        rp = json.load(open(a.replay))
        obs, results, wall = run_property(prop, 'thorough', seed, replay=rp)
        rr = None
        for r in results.values():
            if r.get('error'):
                print('HARNESS-ERROR', r['error'])
            rr = r.get('replay_result') or rr
        print('REPLAY', json.dumps(rr, default=str))
        return EXIT_VIOLATION if rr and rr.get('status') == 'violated' else EXIT_OK if rr else EXIT_INCONCLUSIVE
    only = a.only.split(',') if a.only else None
    obs, results, wall = run_property(prop, a.tier, seed, only=only, jobs=a.jobs)
    return finish(prop, a.tier, seed, obs, results, wall)


if __name__ == '__main__':
    sys.exit(main())
