"""Dual-evaluation terms and goal atoms.

A property is written once as a function over "numbers" that may be z3 terms (solver run) or Python
floats (replay on the real code).  Atoms know how to build their *negation with a margin* for the solver
and how to evaluate themselves concretely with a tolerance that favours the code under test.
"""
import fractions
import math
import numpy as onp
import z3


def isz(x):
    return isinstance(x, z3.ExprRef)


def rat(x):
    """exact rational z3 value of a python number (binary64 -> exact fraction)"""
    if isinstance(x, (bool, onp.bool_)):
        return z3.BoolVal(bool(x))
    if isinstance(x, (int, onp.integer)):
        return z3.RealVal(int(x))
    if isinstance(x, fractions.Fraction):
        fr = x
    else:
        f = float(x)
        if math.isnan(f) or math.isinf(f):
            raise ValueError('non-finite constant reached the real-arithmetic encoding: %r' % f)
        fr = fractions.Fraction(f)
    if fr.denominator == 1:
        return z3.RealVal(fr.numerator)
    return z3.RealVal(str(fr.numerator) + '/' + str(fr.denominator))


def toz(x):
    return x if isz(x) else rat(x)


def tob(x):
    if isz(x):
        return x
    return z3.BoolVal(bool(x))


def num(x):
    return not isz(x)


def flat(a):
    if isinstance(a, onp.ndarray):
        return list(a.ravel())
    if isinstance(a, (list, tuple)):
        out = []
        for x in a:
            out.extend(flat(x))
        return out
    if hasattr(a, 'shape') and hasattr(a, 'ravel'):
        return [float(v) for v in onp.asarray(a).ravel()]
    return [a]


def pairs(a, b):
    fa, fb = flat(a), flat(b)
    if len(fa) == 1 and len(fb) > 1:
        fa = fa * len(fb)
    if len(fb) == 1 and len(fa) > 1:
        fb = fb * len(fa)
    assert len(fa) == len(fb), (len(fa), len(fb))
    return list(zip(fa, fb))


# ---------------------------------------------------------------------------- generic scalar helpers
def v_abs(a):
    if num(a):
        return abs(a)
    return z3.If(a >= 0, a, -a)


def v_min(a, b):
    if num(a) and num(b):
        return min(a, b)
    a, b = toz(a), toz(b)
    return z3.If(a <= b, a, b)


def v_max(a, b):
    if num(a) and num(b):
        return max(a, b)
    a, b = toz(a), toz(b)
    return z3.If(a >= b, a, b)


def v_if(c, a, b):
    if num(c):
        return a if c else b
    if num(a) and num(b) and a == b:
        return a
    if z3.is_bool(toz_any(a)):
        return z3.If(c, tob(a), tob(b))
    return z3.If(c, toz(a), toz(b))


def toz_any(x):
    if isz(x):
        return x
    if isinstance(x, (bool, onp.bool_)):
        return z3.BoolVal(bool(x))
    return rat(x)


def v_and(*xs):
    xs = flat(list(xs))
    if all(num(x) for x in xs):
        return all(bool(x) for x in xs)
    return z3.And(*[tob(x) for x in xs])


def v_or(*xs):
    xs = flat(list(xs))
    if all(num(x) for x in xs):
        return any(bool(x) for x in xs)
    return z3.Or(*[tob(x) for x in xs])


def v_not(x):
    if num(x):
        return not bool(x)
    return z3.Not(x)


def v_implies(a, b):
    if num(a) and num(b):
        return (not bool(a)) or bool(b)
    return z3.Implies(tob(a), tob(b))


def v_lt(a, b):
    if num(a) and num(b):
        return a < b
    return toz(a) < toz(b)


def v_le(a, b):
    if num(a) and num(b):
        return a <= b
    return toz(a) <= toz(b)


def v_eq(a, b):
    if num(a) and num(b):
        return a == b
    return toz(a) == toz(b)


def v_sum(xs):
    r = 0
    for x in flat(xs):
        if num(x) and x == 0:
            continue
        if num(r) and r == 0:
            r = x
        elif num(r) and num(x):
            r = r + x
        else:
            r = toz(r) + toz(x)
    return r


def v_add(a, b):
    return v_sum([a, b])


def v_mul(a, b):
    if num(a) and num(b):
        return a * b
    if num(a):
        if a == 0:
            return 0
        if a == 1:
            return b
    if num(b):
        if b == 0:
            return 0
        if b == 1:
            return a
    return toz(a) * toz(b)


def v_sub(a, b):
    if num(a) and num(b):
        return a - b
    if num(b) and b == 0:
        return a
    return toz(a) - toz(b)


def v_dot(a, b):
    return v_sum([v_mul(x, y) for x, y in pairs(a, b)])


def v_sq(a):
    return v_mul(a, a)


# ---------------------------------------------------------------------------- atoms
class Atom:
    name = ''
    when = True

    def neg(self, margin):
        raise NotImplementedError

    def conc_violated(self, rtol):
        raise NotImplementedError


class Le(Atom):
    """a <= b (elementwise), optionally only when `when` holds."""

    def __init__(self, a, b, when=True, scale=1.0, name=''):
        self.a, self.b, self.when, self.scale, self.name = a, b, when, scale, name

    def neg(self, margin):
        vs = []
        for x, y in pairs(self.a, self.b):
            m = v_mul(margin, self.scale) if margin else 0
            vs.append(toz(x) > toz(v_add(y, m)))
        return z3.And(tob(self.when), z3.Or(*vs))

    def conc_violated(self, rtol):
        if not bool(self.when):
            return False, None
        worst = None
        for x, y in pairs(self.a, self.b):
            x, y = float(x), float(y)
            if math.isnan(x) or math.isnan(y):
                return True, ('nan', x, y)
            tol = rtol * (abs(float(self.scale)) + abs(x) + abs(y))
            if x - y > tol and (worst is None or x - y > worst[0] - worst[1]):
                worst = (x, y)
        return worst is not None, worst


class Lt(Le):
    def neg(self, margin):
        vs = []
        for x, y in pairs(self.a, self.b):
            m = v_mul(margin, self.scale) if margin else 0
            vs.append(toz(x) >= toz(v_add(y, m)))
        return z3.And(tob(self.when), z3.Or(*vs))

    def conc_violated(self, rtol):
        if not bool(self.when):
            return False, None
        for x, y in pairs(self.a, self.b):
            x, y = float(x), float(y)
            if math.isnan(x) or math.isnan(y):
                return True, ('nan', x, y)
            tol = rtol * (abs(float(self.scale)) + abs(x) + abs(y))
            if x - y >= tol and (tol > 0 or x >= y):
                return True, (x, y)
        return False, None


class Eq(Atom):
    def __init__(self, a, b, when=True, scale=1.0, name=''):
        self.a, self.b, self.when, self.scale, self.name = a, b, when, scale, name

    def neg(self, margin):
        vs = []
        for x, y in pairs(self.a, self.b):
            if margin:
                m = toz(v_mul(margin, self.scale))
                d = toz(x) - toz(y)
                vs.append(z3.Or(d > m, -d > m))
            else:
                vs.append(toz(x) != toz(y))
        return z3.And(tob(self.when), z3.Or(*vs))

    def conc_violated(self, rtol):
        if not bool(self.when):
            return False, None
        for x, y in pairs(self.a, self.b):
            x, y = float(x), float(y)
            if math.isnan(x) or math.isnan(y):
                if not (math.isnan(x) and math.isnan(y)):
                    return True, ('nan', x, y)
                continue
            tol = rtol * (abs(float(self.scale)) + abs(x) + abs(y))
            if abs(x - y) > tol:
                return True, (x, y)
        return False, None


class Holds(Atom):
    """boolean expression must hold (no margin)."""

    def __init__(self, c, when=True, name=''):
        self.c, self.when, self.name = c, when, name

    def neg(self, margin):
        cs = flat(self.c)
        return z3.And(tob(self.when), z3.Or(*[z3.Not(tob(c)) for c in cs]))

    def conc_violated(self, rtol):
        if not bool(self.when):
            return False, None
        for c in flat(self.c):
            if not bool(c):
                return True, None
        return False, None


# ---------------------------------------------------------------------------- solving
def _mk_solver(kind, ctx=None):
    if kind == 'core':
        return z3.Solver(ctx=ctx)
    if kind == 'nlsat':
        return z3.Tactic('qfnra-nlsat', ctx=ctx).solver()
    if kind == 'eqnlsat':
        return z3.Then(z3.Tactic('simplify', ctx=ctx), z3.Tactic('solve-eqs', ctx=ctx),
                       z3.Tactic('qfnra-nlsat', ctx=ctx)).solver()
    if kind == 'smt':
        return z3.Tactic('smt', ctx=ctx).solver()
    if kind == 'qfnra':
        return z3.Tactic('qfnra', ctx=ctx).solver()
    raise ValueError(kind)


def solve(assertions, cap_s, order=('core', 'nlsat')):
    """Sequential portfolio. Returns (status, model|None, solver, seconds, attempts)."""
    import time
    attempts = []
    share = cap_s / max(1, len(order))
    t_all = time.time()
    for i, kind in enumerate(order):
        remaining = cap_s - (time.time() - t_all)
        if remaining <= 0.05:
            break
        budget = remaining if i == len(order) - 1 else min(share, remaining)
        s = _mk_solver(kind)
        s.set('timeout', max(50, int(budget * 1000)))
        for a in assertions:
            s.add(a)
        t0 = time.time()
        try:
            r = s.check()
        except z3.Z3Exception as e:  # pragma: no cover
            attempts.append((kind, 'error:%s' % e, time.time() - t0))
            continue
        dt = time.time() - t0
        attempts.append((kind, str(r), round(dt, 3)))
        if r == z3.unsat:
            return 'unsat', None, kind, time.time() - t_all, attempts
        if r == z3.sat:
            return 'sat', s.model(), kind, time.time() - t_all, attempts
    return 'unknown', None, None, time.time() - t_all, attempts


def model_value(m, v):
    """float (and exact Fraction when rational) of z3 var v under model m"""
    val = m.eval(v, model_completion=True)
    if z3.is_bool(val):
        return bool(z3.is_true(val))
    if z3.is_int_value(val):
        return int(val.as_long())
    if z3.is_rational_value(val):
        return fractions.Fraction(val.numerator_as_long(), val.denominator_as_long())
    if z3.is_algebraic_value(val):
        ap = val.approx(40)
        return fractions.Fraction(ap.numerator_as_long(), ap.denominator_as_long())
    raise ValueError('cannot read model value %s' % val)


def sym_array(name, shape, sort='R'):
    a = onp.empty(shape, dtype=object)
    mk = {'R': z3.Real, 'I': z3.Int, 'B': z3.Bool}[sort]
    for idx in onp.ndindex(*shape) if shape else [()]:
        a[idx] = mk(name + ''.join('_%d' % i for i in idx))
    return a


def in_box(arr, lo, hi):
    cs = []
    for x in flat(arr):
        if lo is not None:
            cs.append(toz(x) >= rat(lo))
        if hi is not None:
            cs.append(toz(x) <= rat(hi))
    return cs
