import sys
from vf.core import main
sys.exit(main())
