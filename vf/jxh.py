"""Harness glue for JX obligations: trace a real function, interpret its jaxpr symbolically, prove specs written
once for both z3 terms and floats, replay solver models on the real (jitted) function."""
import numpy as onp
import z3
import jax
import jax.numpy as jnp

from . import jx, sym


class Case:
    def __init__(self, h, fn, args, validate=3, sampler=None, scale=1.0, ctx=None, jit=True, label=None, rtol=1e-9,
                 static_argnums=()):
        """args: ordered dict name -> example float array (shape defines the symbolic input)."""
        self.h, self.fn, self.names = h, fn, list(args.keys())
        self.example = [onp.asarray(args[k], dtype=float) for k in self.names]
        self.label = label or getattr(fn, '__name__', 'fn')
        self.cj, self.out_shape = jax.make_jaxpr(fn, return_shape=True)(*[jnp.asarray(a) for a in self.example])
        self.treedef = jax.tree_util.tree_structure(self.out_shape)
        if validate:
            smp = None
            if sampler is not None:
                smp = lambda rng: [onp.asarray(v, dtype=float) for v in sampler(rng)]
            worst = jx.validate(fn, self.example, n=validate, seed=h.seed, rtol=rtol, scale=scale, sampler=smp, cj=self.cj)
            h.fact('translator_validation[%s]' % self.label, True, 'max rel err %.2e on %d ground runs of the symbolic path' % (worst, validate), nontrivial=False)
        self.ctx = ctx or jx.Ctx()
        self.inp = {k: sym.sym_array(k, e.shape) for k, e in zip(self.names, self.example)}
        outs = jx.eval_jaxpr(self.ctx, self.cj.jaxpr, self.cj.consts, *[self.inp[k] for k in self.names])
        self.leaves = outs
        self.out = jax.tree_util.tree_unflatten(self.treedef, outs)
        self._jit = jax.jit(fn) if jit else fn

    def side(self, denoms=True):
        s = self.ctx.all_side()
        if denoms:
            s = s + self.ctx.nonzero_denoms()
        return s

    def real(self, vals):
        args = [jnp.asarray(onp.asarray(vals[k], dtype=float).reshape(e.shape)) for k, e in zip(self.names, self.example)]
        out = self._jit(*args)
        return jax.tree_util.tree_map(lambda x: onp.asarray(x), out)

    def conc_inputs(self, vals):
        return {k: onp.asarray(vals[k], dtype=float).reshape(e.shape) for k, e in zip(self.names, self.example)}

    def prove(self, name, spec, cap=60, order=('core', 'nlsat'), denoms=True, extra_assumes=(), axioms=False):
        """spec(inp, out) -> (assumes, atoms) ; atoms: list of sym.Atom (with .name) or a single Atom"""
        assumes, atoms = spec(self.inp, self.out)
        if isinstance(atoms, sym.Atom):
            atoms = [atoms]
        base = list(assumes) + self.side(denoms) + list(extra_assumes)
        if axioms:
            base += jx.uf_axioms(self.ctx)
        recs = []
        for i, atom in enumerate(atoms):
            an = atom.name or str(i)

            def concrete(vals, i=i):
                ci = self.conc_inputs(vals)
                co = self.real(vals)
                ca, catoms = spec(ci, co)
                if isinstance(catoms, sym.Atom):
                    catoms = [catoms]
                ok = all(bool(x) for x in sym.flat(list(ca)))
                leaves = jax.tree_util.tree_leaves(co)
                return ok, catoms[i], dict(outputs=[onp.asarray(l).tolist() for l in leaves][:6])
            recs.append(self.h.prove('%s.%s' % (name, an) if len(atoms) > 1 or atom.name else name, base, atom, inputs=self.inp,
                                     concrete=concrete, cap=cap, order=order))
        return recs


def arr(*xs):
    return onp.asarray(xs, dtype=float)


def obj(a):
    return jx.lift(a)
