"""PX: execute the real Python source of /repo on symbolic proxies (z3 terms) with path exploration, or on floats
(replay of a solver model).  See DESIGN.md section 3.2.

A harness is one function `fn(ex)` that obtains its inputs from `ex.real(name)/ex.int(name)/ex.bool(name)`, runs the
real code (loaded with `load_module`), states assumptions with `ex.assume(c)` and goals with `ex.goal(name, atom)`.
The same `fn` is run (a) symbolically over all feasible paths and (b) concretely on the values of a solver model.
"""
import ast
import builtins
import copy
import fractions
import math
import os
import textwrap
import time
import types

import numpy as onp
import z3

from . import sym
from .sym import isz, rat


class PathAbort(BaseException):
    """raised to abandon the current path (infeasible, or deliberately cut); BaseException so that the code under
    test cannot swallow it"""


class Unsupported(Exception):
    pass


EX = None   # the active explorer


def cur():
    return EX


# ---------------------------------------------------------------------------------------------------- proxies
def _z(x):
    if isinstance(x, SymReal):
        return x.z
    if isinstance(x, SymBool):
        return x.z
    if isinstance(x, (bool, onp.bool_)):
        return z3.BoolVal(bool(x))
    if isinstance(x, (int, onp.integer)):
        return z3.IntVal(int(x))
    return rat(x)


def _nonfinite(x):
    return isinstance(x, float) and (math.isinf(x) or math.isnan(x))


class SymBool:
    def __init__(self, z):
        self.z = z

    def __bool__(self):
        return EX.branch(self.z)

    def __and__(self, o):
        return SymBool(z3.And(self.z, _z(o)))
    __rand__ = __and__

    def __or__(self, o):
        return SymBool(z3.Or(self.z, _z(o)))
    __ror__ = __or__

    def __invert__(self):
        return SymBool(z3.Not(self.z))

    def __eq__(self, o):
        return SymBool(self.z == _z(o))

    def __ne__(self, o):
        return SymBool(self.z != _z(o))

    __hash__ = None

    def __repr__(self):
        return 'SymBool(%s)' % self.z


class SymReal:
    """a symbolic number (z3 Real or Int term)"""

    def __init__(self, z):
        self.z = z

    def __bool__(self):
        """Python truth value of a number: x != 0 (forks). Without this a proxy would count as true in `a or b` / `if a:`."""
        return EX.branch(self.z != 0)

    # -- arithmetic
    def _bin(self, o, f, swap=False):
        if isinstance(o, onp.ndarray):
            out = onp.empty(o.shape, dtype=object)
            of, xf = out.reshape(-1), o.reshape(-1)
            for i in range(xf.size):
                of[i] = self._bin(xf[i], f, swap)
            return out
        if isinstance(o, GV):
            return NotImplemented
        if isinstance(o, float) and math.isnan(o):
            return o
        if _nonfinite(o):
            raise Unsupported('arithmetic between a symbolic number and %r' % o)
        if not isinstance(o, (SymReal, int, float, onp.integer, onp.floating, fractions.Fraction)):
            return NotImplemented
        a, b = self.z, _z(o)
        return SymReal(f(b, a) if swap else f(a, b))

    def __add__(self, o):
        if isinstance(o, (int, float)) and o == 0:
            return self
        return self._bin(o, lambda a, b: a + b)
    __radd__ = __add__

    def __sub__(self, o):
        if isinstance(o, (int, float)) and o == 0:
            return self
        return self._bin(o, lambda a, b: a - b)

    def __rsub__(self, o):
        return self._bin(o, lambda a, b: a - b, swap=True)

    def __mul__(self, o):
        if isinstance(o, (int, float)) and not isinstance(o, bool):
            if o == 0:
                return 0.0
            if o == 1:
                return self
        return self._bin(o, lambda a, b: a * b)
    __rmul__ = __mul__

    def __truediv__(self, o):
        if isinstance(o, onp.ndarray):
            return self._bin(o, lambda a, b: a / b)
        return EX.divide(self, o)

    def __rtruediv__(self, o):
        return EX.divide(o, self)

    def __neg__(self):
        return SymReal(-self.z)

    def __pos__(self):
        return self

    def __pow__(self, k):
        if isinstance(k, float) and k.is_integer():
            k = int(k)
        if isinstance(k, int):
            if k == 0:
                return 1.0
            r = self.z
            for _ in range(abs(k) - 1):
                r = r * self.z
            if k < 0:
                return EX.divide(1.0, SymReal(r))
            return SymReal(r)
        if k == 0.5:
            return EX.sqrt(self)
        raise Unsupported('symbolic power with exponent %r' % (k,))

    def __abs__(self):
        return SymReal(z3.If(self.z >= 0, self.z, -self.z))

    # -- comparisons
    def _cmp(self, o, f, inf_result):
        if isinstance(o, float) and math.isnan(o):
            return False
        if isinstance(o, float) and math.isinf(o):
            return inf_result(o)
        if isinstance(o, onp.ndarray):
            return NotImplemented
        return SymBool(f(self.z, _z(o)))

    def __lt__(self, o):
        return self._cmp(o, lambda a, b: a < b, lambda i: i > 0)

    def __le__(self, o):
        return self._cmp(o, lambda a, b: a <= b, lambda i: i > 0)

    def __gt__(self, o):
        return self._cmp(o, lambda a, b: a > b, lambda i: i < 0)

    def __ge__(self, o):
        return self._cmp(o, lambda a, b: a >= b, lambda i: i < 0)

    def __eq__(self, o):
        if isinstance(o, str) or o is None:
            return False
        return self._cmp(o, lambda a, b: a == b, lambda i: False)

    def __ne__(self, o):
        if isinstance(o, str) or o is None:
            return True
        r = self._cmp(o, lambda a, b: a != b, lambda i: True)
        return r

    __hash__ = None

    def __format__(self, spec):
        return '<sym>'

    def __repr__(self):
        return 'SymReal(%s)' % self.z

    def __float__(self):
        raise Unsupported('float() of a symbolic number')

    def __index__(self):
        raise Unsupported('symbolic number used as an index / range bound')

    @property
    def size(self):
        return 1

    @property
    def shape(self):
        return ()


def is_sym(x):
    return isinstance(x, (SymReal, SymBool))


def unwrap(x):
    """proxy / number -> z3 term or python number"""
    if isinstance(x, (SymReal, SymBool)):
        return x.z
    if isinstance(x, onp.ndarray):
        o = onp.empty(x.shape, dtype=object)
        of, xf = o.reshape(-1), x.reshape(-1)
        for i in range(xf.size):
            of[i] = unwrap(xf[i])
        return o
    if isinstance(x, GV):
        raise Unsupported('unwrap of a Gram vector')
    if isinstance(x, (list, tuple)):
        return [unwrap(v) for v in x]
    return x


def wrap(z):
    if isz(z):
        return SymBool(z) if z3.is_bool(z) else SymReal(z)
    return z


# ---------------------------------------------------------------------------------------------------- Gram vectors
class GV:
    """dimension-free vector: symbolic linear combination of base vectors; inner products go through the explorer's
    Gram table (fresh reals constrained to be realisable)"""
    __array_ufunc__ = None
    __array_priority__ = 1000

    def __init__(self, coefs):
        self.c = {k: v for k, v in coefs.items() if not (isinstance(v, (int, float)) and v == 0)}

    def _lin(self, o, fa, fb):
        if isinstance(o, GV):
            keys = list(self.c) + [k for k in o.c if k not in self.c]
            return GV({k: fb(self.c.get(k, 0.0), o.c.get(k, 0.0)) for k in keys})
        if isinstance(o, (int, float)) and o == 0:
            return GV({k: fa(v) for k, v in self.c.items()})
        raise Unsupported('Gram vector combined with %r' % (o,))

    def __add__(self, o):
        return self._lin(o, lambda a: a, lambda a, b: a + b)
    __radd__ = __add__
    __iadd__ = __add__

    def __sub__(self, o):
        return self._lin(o, lambda a: a, lambda a, b: a - b)

    def __rsub__(self, o):
        return self._lin(o, lambda a: -a, lambda a, b: b - a)

    def __neg__(self):
        return GV({k: -v for k, v in self.c.items()})

    def __mul__(self, s):
        if isinstance(s, GV):
            raise Unsupported('elementwise product of Gram vectors')
        return GV({k: v * s for k, v in self.c.items()})
    __rmul__ = __mul__
    __imul__ = __mul__

    def __truediv__(self, s):
        return GV({k: v / s for k, v in self.c.items()})

    def __matmul__(self, o):
        if not isinstance(o, GV):
            raise Unsupported('Gram vector @ %r' % (o,))
        return EX.gram_dot(self, o)
    __rmatmul__ = __matmul__

    def dot(self, o):
        return self @ o

    @property
    def size(self):
        return EX.gram_dim

    def __repr__(self):
        return 'GV(%s)' % self.c


# ---------------------------------------------------------------------------------------------------- numpy shim
class _Linalg:
    @staticmethod
    def norm(v):
        return NP.sqrt(NP.dot(v, v))


class _NP:
    inf = float('inf')
    nan = float('nan')
    pi = math.pi
    linalg = _Linalg()
    ndarray = onp.ndarray
    float64 = float

    @staticmethod
    def sqrt(x):
        if isinstance(x, SymReal):
            return EX.sqrt(x)
        if isinstance(x, onp.ndarray) and x.dtype == object:
            return _map(NP.sqrt, x)
        return onp.sqrt(x)

    @staticmethod
    def abs(x):
        if isinstance(x, SymReal):
            return abs(x)
        if isinstance(x, onp.ndarray) and x.dtype == object:
            return _map(NP.abs, x)
        return onp.abs(x)
    absolute = abs

    @staticmethod
    def sign(x):
        if isinstance(x, SymReal):
            return SymReal(z3.If(x.z > 0, z3.RealVal(1), z3.If(x.z < 0, z3.RealVal(-1), z3.RealVal(0))))
        if isinstance(x, onp.ndarray) and x.dtype == object:
            return _map(NP.sign, x)
        return onp.sign(x)

    @staticmethod
    def dot(a, b):
        if isinstance(a, GV) or isinstance(b, GV):
            return a @ b
        a, b = onp.asarray(a), onp.asarray(b)
        if a.dtype != object and b.dtype != object:
            return onp.dot(a, b)
        if a.ndim == 0 or b.ndim == 0:
            return a * b
        if a.ndim == 1 and b.ndim == 1:
            r = 0.0
            for x, y in zip(a, b):
                r = r + x * y
            return r
        return _objmatmul(a, b)
    vdot = dot

    @staticmethod
    def array(v, dtype=None):
        if isinstance(v, GV):
            return GV(dict(v.c))
        if isinstance(v, onp.ndarray):
            return v.copy()
        return _arr(v)
    asarray = array

    @staticmethod
    def maximum(a, b):
        return _ew2(a, b, lambda x, y: _if(x >= y, x, y), onp.maximum)

    @staticmethod
    def minimum(a, b):
        return _ew2(a, b, lambda x, y: _if(x <= y, x, y), onp.minimum)

    @staticmethod
    def where(c, a, b):
        if isinstance(c, SymBool) or is_sym(a) or is_sym(b):
            return _if(c, a, b)
        if isinstance(c, onp.ndarray) and (c.dtype == object or _isobj(a) or _isobj(b)):
            c2, a2, b2 = onp.broadcast_arrays(onp.asarray(c, dtype=object), onp.asarray(a, dtype=object), onp.asarray(b, dtype=object))
            out = onp.empty(c2.shape, dtype=object)
            for idx in onp.ndindex(*c2.shape):
                out[idx] = _if(c2[idx], a2[idx], b2[idx])
            return out
        return onp.where(c, a, b)

    @staticmethod
    def sum(a, axis=None):
        if isinstance(a, onp.ndarray) and a.dtype == object and axis is None:
            r = 0.0
            for x in a.reshape(-1):
                r = r + x
            return r
        return onp.sum(a, axis=axis)

    @staticmethod
    def any(a):
        if isinstance(a, SymBool):
            return a
        if isinstance(a, onp.ndarray) and a.dtype == object:
            r = False
            for x in a.reshape(-1):
                r = x if r is False else (r | x)
            return r
        return onp.any(a)

    @staticmethod
    def all(a):
        if isinstance(a, SymBool):
            return a
        if isinstance(a, onp.ndarray) and a.dtype == object:
            r = True
            for x in a.reshape(-1):
                r = x if r is True else (r & x)
            return r
        return onp.all(a)

    @staticmethod
    def isnan(a):
        if is_sym(a):
            return False
        if isinstance(a, onp.ndarray) and a.dtype == object:
            return onp.zeros(a.shape, dtype=bool)
        return onp.isnan(a)

    @staticmethod
    def isfinite(a):
        if is_sym(a):
            return True
        return onp.isfinite(a)

    @staticmethod
    def zeros(shape, dtype=None):
        return onp.zeros(shape)

    @staticmethod
    def ones(shape, dtype=None):
        return onp.ones(shape)

    @staticmethod
    def zeros_like(a):
        if isinstance(a, GV):
            return GV({})
        return onp.zeros(onp.shape(a))

    @staticmethod
    def hstack(xs):
        return onp.concatenate([onp.atleast_1d(_arr(x)) for x in xs])
    concatenate = hstack

    @staticmethod
    def clip(x, lo, hi):
        return NP.minimum(NP.maximum(x, lo), hi)

    @staticmethod
    def outer(a, b):
        return onp.multiply.outer(_arr(a), _arr(b))

    def __getattr__(self, name):
        return getattr(onp, name)


NP = _NP()


def _isobj(a):
    return isinstance(a, onp.ndarray) and a.dtype == object


def _arr(v):
    if isinstance(v, onp.ndarray):
        return v
    a = onp.asarray(v, dtype=object) if _has_sym(v) else onp.asarray(v)
    return a


def _has_sym(v):
    if is_sym(v):
        return True
    if isinstance(v, (list, tuple)):
        return any(_has_sym(x) for x in v)
    if isinstance(v, onp.ndarray) and v.dtype == object:
        return any(is_sym(x) for x in v.reshape(-1))
    return False


def _map(f, x):
    out = onp.empty(x.shape, dtype=object)
    of, xf = out.reshape(-1), x.reshape(-1)
    for i in range(xf.size):
        of[i] = f(xf[i])
    return out


def _if(c, a, b):
    if isinstance(c, (bool, onp.bool_)):
        return a if c else b
    if isinstance(c, SymBool):
        if not is_sym(a) and not is_sym(b) and isinstance(a, (int, float)) and a == b:
            return a
        za, zb = _z(a), _z(b)
        if z3.is_bool(za):
            return SymBool(z3.If(c.z, za, zb))
        return SymReal(z3.If(c.z, za, zb))
    raise Unsupported('where/if on %r' % (c,))


def _ew2(a, b, fsym, fnum):
    if _isobj(a) or _isobj(b) or is_sym(a) or is_sym(b):
        if isinstance(a, onp.ndarray) or isinstance(b, onp.ndarray):
            a2, b2 = onp.broadcast_arrays(onp.asarray(a, dtype=object), onp.asarray(b, dtype=object))
            out = onp.empty(a2.shape, dtype=object)
            for idx in onp.ndindex(*a2.shape):
                out[idx] = _ew2(a2[idx], b2[idx], fsym, fnum)
            return out
        if not is_sym(a) and not is_sym(b):
            return fnum(a, b)
        if _nonfinite(a) or _nonfinite(b):
            # min/max with an infinite bound
            other, infv = (b, a) if _nonfinite(a) else (a, b)
            r = fnum(0.0, infv)
            return other if r == 0.0 else infv
        return fsym(a if isinstance(a, SymReal) else SymReal(_z(a)), b if isinstance(b, SymReal) else SymReal(_z(b)))
    return fnum(a, b)


def _objmatmul(a, b):
    a, b = onp.asarray(a, dtype=object), onp.asarray(b, dtype=object)
    return onp.dot(a, b)


# ---------------------------------------------------------------------------------------------------- explorer
class Explorer:
    def __init__(self, feas_ms=300, max_paths=20000, concrete=None, gram_dim=None, div_mode='fork', sqrt_mode='fork',
                 shard=None, shard_depth=4):
        self.feas_ms = feas_ms
        self.div_mode, self.sqrt_mode = div_mode, sqrt_mode
        self.shard, self.shard_depth = shard, shard_depth
        self.max_paths = max_paths
        self.concrete = concrete          # dict name -> value => concrete replay mode
        self.gram_dim = gram_dim
        self.stats = dict(paths=0, aborted=0, feas_queries=0, infeasible=0, unsupported=0)
        self.goals = []                   # (name, path_id, [assumptions], atom, snapshot of inputs)
        self._defcache = {}
        self._defkeep = []
        self._defproved = {}
        self.inputs = {}                  # name -> z3 var (all paths)
        self.path_notes = []
        self._reset_path([])

    # -- per path state
    def _reset_path(self, prefix):
        self.prefix = prefix
        self.trail = []
        self.pc = []
        self.counter = {}
        self.gram = {}
        self.gram_bases = []
        self.events = []
        self.late = []
        self.forks = []
        self._solver = None

    @property
    def symbolic(self):
        return self.concrete is None

    # -- inputs
    def _name(self, name):
        k = self.counter.get(name, 0)
        self.counter[name] = k + 1
        return name if k == 0 else '%s#%d' % (name, k)

    def real(self, name, sort='R'):
        nm = self._name(name)
        if not self.symbolic:
            if nm not in self.concrete:
                raise KeyError('replay: no model value for %s' % nm)
            v = self.concrete[nm]
            return v if sort == 'B' else (int(v) if sort == 'I' else float(v))
        if nm not in self.inputs:
            self.inputs[nm] = {'R': z3.Real, 'I': z3.Int, 'B': z3.Bool}[sort](nm)
        z = self.inputs[nm]
        return SymBool(z) if sort == 'B' else SymReal(z)

    def int(self, name):
        return self.real(name, 'I')

    def bool(self, name):
        return self.real(name, 'B')

    def vec(self, name, n):
        a = onp.empty((n,), dtype=object if self.symbolic else float)
        for i in range(n):
            a[i] = self.real('%s_%d' % (name, i))
        return a

    def mat(self, name, n, m, symmetric=False):
        a = onp.empty((n, m), dtype=object if self.symbolic else float)
        for i in range(n):
            for j in range(m):
                if symmetric and j < i:
                    a[i, j] = a[j, i]
                else:
                    a[i, j] = self.real('%s_%d_%d' % (name, i, j))
        return a

    # -- branching
    def branch(self, cond):
        if not self.symbolic:
            raise Unsupported('symbolic branch in concrete mode')
        cond = z3.simplify(cond)
        if z3.is_true(cond):
            return True
        if z3.is_false(cond):
            return False
        k = len(self.trail)
        if k < len(self.prefix):
            d = self.prefix[k]
        else:
            st = self._feasible(cond)
            sf = self._feasible(z3.Not(cond))
            if st and sf:
                self.pending.append(([x for x, _ in self.trail] + [False], self.forks + [0]))
                d = True
                self.forks = self.forks + [1]
                self._shard_check()
            elif st:
                d = True
            elif sf:
                d = False
            else:
                self.stats['infeasible'] += 1
                raise PathAbort('infeasible')
        self.trail.append((d, cond))
        self.pc.append(cond if d else z3.Not(cond))
        return d

    def _shard_check(self):
        if self.shard is not None and len(self.forks) == self.shard_depth:
            w, n = self.shard
            bits = int(''.join(str(b) for b in self.forks), 2)
            if bits % n != w:
                self.stats['other_shard'] = self.stats.get('other_shard', 0) + 1
                raise PathAbort('other shard')

    def owns_short_path(self):
        return self.shard is None or len(self.forks) >= self.shard_depth or self.shard[0] == 0

    def _feasible(self, c):
        # a fresh solver per query: z3 does not honour `timeout` reliably in incremental (push/pop) mode on
        # non-linear constraints (observed: a 200 ms feasibility check that never returned)
        self.stats['feas_queries'] += 1
        s = z3.Solver()
        s.set('timeout', self.feas_ms)
        s.add(*self.pc)
        s.add(c)
        return s.check() != z3.unsat

    def _defined_goal(self, name, cond, info):
        """definedness side goal (sqrt radicand, denominators): proved on the spot under the current path prefix when
        cheap (then valid for every extension of the prefix and cached), otherwise recorded as an ordinary goal"""
        key = (name, cond.get_id())
        ids = None
        for pset in self._defcache.get(key, ()):
            if ids is None:
                ids = {c.get_id() for c in self.pc}
            if pset <= ids:
                self.stats['defined_cached'] = self.stats.get('defined_cached', 0) + 1
                return
        s = z3.Solver()
        s.set('timeout', 200)
        s.add(*self.pc)
        s.add(z3.Not(cond))
        if s.check() == z3.unsat:
            self._defcache.setdefault(key, []).append(frozenset(c.get_id() for c in self.pc))
            self._defkeep.append((cond, list(self.pc)))   # keep the terms alive: z3 AST ids are reused after garbage collection
            self._defproved[name] = self._defproved.get(name, 0) + 1
            return
        self.goal(name, sym.Holds(cond), info=info)

    def assume(self, c):
        """constrain the current path (symbolic) / check (concrete)"""
        if isinstance(c, (bool, onp.bool_)):
            if not c:
                raise PathAbort('assumption false')
            return
        if isinstance(c, SymBool):
            c = c.z
        if not self.symbolic:
            if not bool(c):
                raise PathAbort('assumption false in replay')
            return
        self.pc.append(c)

    def cut(self, why='cut'):
        raise PathAbort(why)

    # -- numeric primitives with IEEE corner forking
    def sqrt(self, x):
        if not isinstance(x, SymReal):
            if not self.symbolic and self.sqrt_mode == 'goal' and not isinstance(x, onp.ndarray):
                self.goal('sqrt_defined', sym.Holds(x >= 0), info='negative radicand (replay)')
            return math.sqrt(x) if x >= 0 else float('nan')
        if self.sqrt_mode == 'goal':
            self._defined_goal('sqrt_defined', x.z >= 0, 'negative radicand')
            self.pc.append(x.z >= 0)
        elif self.branch(x.z < 0):
            return float('nan')
        nm = self._name('sqrt')
        s = z3.Real('px_' + nm)
        self.pc.append(z3.And(s >= 0, s * s == x.z))
        return SymReal(s)

    def divide(self, a, b):
        if not is_sym(a) and not is_sym(b):
            if not self.symbolic and self.div_mode == 'goal' and not isinstance(b, onp.ndarray):
                self.goal('division_defined', sym.Holds(b != 0), info='zero denominator (replay)')
            try:
                return a / b
            except ZeroDivisionError:
                if a == 0 or (isinstance(a, float) and math.isnan(a)):
                    return float('nan')
                return math.copysign(float('inf'), a) * (math.copysign(1.0, b))
        if (isinstance(a, float) and math.isnan(a)) or (isinstance(b, float) and math.isnan(b)):
            return float('nan')
        if _nonfinite(a) or _nonfinite(b):
            raise Unsupported('division involving %r, %r' % (a, b))
        zb = _z(b)
        if is_sym(b) and self.div_mode == 'goal':
            self._defined_goal('division_defined', zb != 0, 'zero denominator')
            self.pc.append(zb != 0)
        elif is_sym(b):
            if self.branch(zb == 0):
                # x/0: 0/0 = nan; otherwise +-inf with the sign of the numerator times the (unmodelled) sign of zero
                za = _z(a)
                if is_sym(a):
                    if self.branch(za == 0):
                        return float('nan')
                    pos = self.branch(za > 0)
                else:
                    if a == 0:
                        return float('nan')
                    pos = a > 0
                neg_zero = self.branch(z3.Bool('px_' + self._name('negzero')))
                return float('inf') if (pos != neg_zero) else float('-inf')
        elif b == 0:
            za = _z(a)
            if self.branch(za == 0):
                return float('nan')
            pos = self.branch(za > 0)
            neg_zero = math.copysign(1.0, b) < 0
            return float('inf') if (pos != neg_zero) else float('-inf')
        return SymReal(_z(a) / zb)

    # -- Gram mode
    def gram_base(self, name):
        """a fresh base vector"""
        bid = len(self.gram_bases)
        self.gram_bases.append(name)
        return GV({bid: 1.0})

    def gram_entry(self, i, j):
        key = (min(i, j), max(i, j))
        if key not in self.gram:
            nm = 'G_%s_%s' % (self.gram_bases[key[0]], self.gram_bases[key[1]])
            if self.symbolic:
                if nm not in self.inputs:
                    self.inputs[nm] = z3.Real(nm)
                self.gram[key] = SymReal(self.inputs[nm])
            else:
                self.gram[key] = float(self.concrete[nm])
        return self.gram[key]

    def gram_dot(self, a, b):
        r = 0.0
        for i, ca in a.c.items():
            for j, cb in b.c.items():
                r = r + (ca * cb) * self.gram_entry(i, j)
        return r

    def gram_psd_constraints(self):
        """necessary conditions for the Gram table to come from real vectors: all principal minors up to order 3"""
        n = len(self.gram_bases)
        G = lambda i, j: _z(self.gram_entry(i, j))
        cs = []
        for i in range(n):
            cs.append(G(i, i) >= 0)
        for i in range(n):
            for j in range(i + 1, n):
                cs.append(G(i, i) * G(j, j) - G(i, j) * G(i, j) >= 0)
        if n <= 4:
            for i in range(n):
                for j in range(i + 1, n):
                    for k in range(j + 1, n):
                        a, b, c = G(i, i), G(j, j), G(k, k)
                        d, e, f = G(i, j), G(i, k), G(j, k)
                        cs.append(a * (b * c - f * f) - d * (d * c - f * e) + e * (d * f - b * e) >= 0)
        return cs

    # -- goals
    def goal(self, name, atom, info=None):
        self.goals.append(dict(name=name, path=self.stats['paths'], pc=list(self.pc), late=self.late, atom=atom, info=info, trail=[d for d, _ in self.trail]))

    def late_assume(self, c):
        """a precondition on the inputs of this path that also applies to goals recorded earlier on the path"""
        if isinstance(c, SymBool):
            c = c.z
        if isinstance(c, (bool, onp.bool_)):
            if not c:
                raise PathAbort('late assumption false')
            return
        if not self.symbolic:
            if not bool(c):
                raise PathAbort('assumption false in replay')
            return
        self.late.append(c)
        self.pc.append(c)

    def note(self, text):
        self.events.append(text)

    # -- driving
    def explore(self, fn):
        """run fn(self) over all feasible paths (symbolic) or once (concrete)"""
        global EX
        old = EX
        EX = self
        try:
            if not self.symbolic:
                self._reset_path([])
                try:
                    fn(self)
                except PathAbort as e:
                    self.stats['aborted'] += 1
                    self.path_notes.append(str(e))
                self.stats['paths'] = 1
                return
            self.pending = [([], [])]
            while self.pending:
                if self.stats['paths'] >= self.max_paths:
                    raise Unsupported('path budget exhausted (%d)' % self.max_paths)
                pref, forks = self.pending.pop()
                self._reset_path(pref)
                self.forks = list(forks)
                ng = len(self.goals)
                try:
                    if forks:
                        self._shard_check()
                    fn(self)
                    if not self.owns_short_path():
                        del self.goals[ng:]
                except PathAbort as e:
                    self.stats['aborted'] += 1
                    if str(e) in ('other shard', 'infeasible', 'assumption false', 'late assumption false'):
                        # the path is dead (no execution follows it): goals recorded on it before the abort were taken
                        # under an incomplete path condition (later assumptions missing) and are dropped
                        del self.goals[ng:]
                self.stats['paths'] += 1
        finally:
            EX = old


def run_px(h, name, fn, cap=30, order=('core', 'nlsat'), feas_ms=300, max_paths=20000, gram_dim=None, expect_goals=None,
           per_query_cap=None, div_mode='fork', sqrt_mode='fork', shard=None, shard_depth=4):
    """explore fn symbolically, then decide every goal: for each goal name, every (path condition ∧ ¬goal) must be
    unsat. A sat model is replayed by running fn concretely (real source, real numpy) on the model's values."""
    t0 = time.time()
    if h.replay is not None:
        q = h.replay.get('query', '')
        if not q.startswith('%s/%s.' % (h.ob, name)):
            return None
        gname = q[len('%s/%s.' % (h.ob, name)):]
        h.replay_result = _replay_px(h, fn, gname, h.replay['inputs'], gram_dim, div_mode, sqrt_mode)
        return None
    ex = Explorer(feas_ms=feas_ms, max_paths=max_paths, gram_dim=gram_dim, div_mode=div_mode, sqrt_mode=sqrt_mode, shard=shard, shard_depth=shard_depth)
    ex.explore(fn)
    by_name = {}
    for g in ex.goals:
        by_name.setdefault(g['name'], []).append(g)
    recs = []
    for gname in (expect_goals or [] if shard is None else []):
        if gname not in by_name:
            h.records.append(dict(query='%s/%s.%s' % (h.ob, name, gname), status='vacuous', solver=None, time_s=0.0, attempts=[],
                                  nonvacuous=False, detail='no explored path reaches this goal site'))
    for gname, gs in by_name.items():
        qn = '%s/%s.%s' % (h.ob, name, gname)
        rec = dict(query=qn, status=None, solver=None, time_s=0.0, attempts=[], paths=len(gs), nonvacuous=None)
        t1 = time.time()
        worst = 'discharged'
        reach = False
        twin_unknown = False
        solver_used = set()
        for g in gs:
            atom = g['atom']
            pc = g['pc'] + [c for c in g['late'] if not any(c is q for q in g['pc'])]
            if _concrete_atom(atom):
                bad, _w = atom.conc_violated(0.0)
                if not bad:
                    reach = True
                    continue
            # `order` may be a dict goal name -> solver order (key None = default) when goals of one harness differ in kind
            st, m, sv, dt, att = sym.solve(pc + [atom.neg(0)], per_query_cap or cap,
                                           order=(order.get(gname, order.get(None, ('core', 'nlsat'))) if isinstance(order, dict) else order))
            solver_used.add(sv)
            rec['attempts'].append(('path%d' % g['path'], st, round(dt, 3)))
            if st == 'sat' and g.get('pc_full') is not None:
                # the goal was recorded under a SUBSET of its path condition (cut hypotheses): a model of the subset need not
                # follow the path; decide again under the full path condition so that a sat model can be replayed
                pc = g['pc_full'] + [c for c in g['late'] if not any(c is q for q in g['pc_full'])]
                st, m, sv, dt, att = sym.solve(pc + [atom.neg(0)], per_query_cap or cap,
                                               order=(order.get(gname, order.get(None, ('core', 'nlsat'))) if isinstance(order, dict) else order))
                solver_used.add(sv)
                rec['attempts'].append(('full_path%d' % g['path'], st, round(dt, 3)))
            if st == 'unsat':
                if not reach:
                    # vacuity twin for this goal: is the site reachable with the hypothesis true on some path?
                    tw = pc + ([atom.when] if isz(atom.when) else [])
                    if not (isinstance(atom.when, bool) and not atom.when):
                        st2, _, _, dt2, _ = sym.solve(tw, 20, order=('nlsat', 'core'))
                        rec['attempts'].append(('vacuity_path%d' % g['path'], st2, round(dt2, 3)))
                        reach = reach or st2 == 'sat'
                        twin_unknown = twin_unknown or st2 == 'unknown'
                continue
            if st == 'unknown':
                worst = 'inconclusive'
                rec['detail'] = 'solver unknown on path %d (decisions %s)' % (g['path'], g['trail'])
                continue
            # sat: robust model then replay
            best, used = m, 0
            for mg in (1e-2, 1e-5, 1e-8):
                st2, m2, _, dt2, _ = sym.solve(pc + [atom.neg(mg)], min(cap, 20), order=('nlsat', 'core'))
                rec['attempts'].append(('margin%g' % mg, st2, round(dt2, 3)))
                if st2 == 'sat':
                    best, used = m2, mg
                    break
            vals = {}
            for nm, zv in ex.inputs.items():
                mv = sym.model_value(best, zv)
                vals[nm] = mv if isinstance(mv, (bool, int)) else float(mv)
            # internal symbols (negzero choices) as well
            for d in best.decls():
                if d.name().startswith('px_') and d.name() not in vals:
                    try:
                        mv = sym.model_value(best, d())
                        vals[d.name()] = mv if isinstance(mv, (bool, int)) else float(mv)
                    except Exception:
                        pass
            rec['model'] = vals
            rec['margin'] = used
            rec['path_decisions'] = g['trail']
            rr = _replay_px(h, fn, gname, vals, gram_dim, div_mode, sqrt_mode)
            rec.update(rr)
            if rr['status'] == 'violated':
                rec['replay'] = h._write_replay(qn, vals, rr)
            worst = rr['status']
            break
        rec['status'] = worst
        rec['nonvacuous'] = (True if reach else (None if twin_unknown else False)) if worst == 'discharged' else None
        if worst == 'discharged' and not reach and not twin_unknown:
            rec['status'] = 'vacuous'
            rec['detail'] = 'goal site never reachable with its hypothesis true'
        rec['solver'] = ','.join(sorted(s for s in solver_used if s))
        rec['time_s'] = round(time.time() - t1, 3)
        h.records.append(rec)
        recs.append(rec)
    for dn, cnt in ex._defproved.items():
        if dn not in by_name:
            h.records.append(dict(query='%s/%s.%s' % (h.ob, name, dn), status='discharged', solver='core', time_s=0.0, attempts=[('on_the_spot', 'unsat', cnt)],
                                  nonvacuous=True, detail='%d site instances proved under their path prefix during exploration' % cnt))
    h.records.append(dict(query='%s/%s.__exploration' % (h.ob, name), status='discharged', solver='explorer', time_s=round(time.time() - t0, 3),
                          attempts=[], nonvacuous=False, ground=True,
                          detail='paths=%d aborted=%d feasibility_queries=%d goals=%d' % (ex.stats['paths'], ex.stats['aborted'], ex.stats['feas_queries'], len(ex.goals))))
    return ex, recs


def _concrete_atom(atom):
    parts = [getattr(atom, k, None) for k in ('a', 'b', 'c', 'when')]
    return not any(isz(x) for p in parts if p is not None for x in sym.flat(p))


def _replay_px(h, fn, gname, vals, gram_dim, div_mode='fork', sqrt_mode='fork'):
    rr = {}
    ex = Explorer(concrete=vals, gram_dim=gram_dim, div_mode=div_mode, sqrt_mode=sqrt_mode)
    try:
        ex.explore(fn)
    except Exception as e:
        import traceback
        rr['status'] = 'unreproduced'
        rr['detail'] = 'replay raised %s: %s' % (type(e).__name__, e)
        rr['trace'] = traceback.format_exc()[-1500:]
        return rr
    hits = [g for g in ex.goals if g['name'] == gname]
    rr['replay_info'] = dict(goal_sites_reached=len(hits), notes=ex.path_notes[:3], events=[str(e) for e in ex.events][:10])
    for g in hits:
        bad, wit = g['atom'].conc_violated(1e-9)
        if bad:
            rr['status'] = 'violated'
            rr['witness'] = repr(wit)
            rr['replay_info']['info'] = str(g.get('info'))
            return rr
    rr['status'] = 'unreproduced'
    rr['detail'] = 'concrete run of the real source on the model values does not violate the goal (%d goal sites reached; %s)' % (len(hits), ex.path_notes[:2])
    return rr


# ---------------------------------------------------------------------------------------------------- module loading
class _Pkg:
    pass


def jaxconfig_shim(extra=None):
    """namespace standing in for `from optimism.JaxConfig import *`"""
    from functools import partial
    from collections import namedtuple
    ns = dict(np=NP, partial=partial, namedtuple=namedtuple)
    ident = lambda f=None, *a, **k: f if callable(f) else (lambda g: g)
    ns.update(jit=ident)

    def if_then_else(c, a, b):
        if isinstance(c, SymBool):
            return a if bool(c) else b
        return a if c else b
    ns['if_then_else'] = if_then_else
    if extra:
        ns.update(extra)
    m = types.ModuleType('optimism.JaxConfig')
    m.__dict__.update(ns)
    m.__all__ = list(ns.keys())
    return m


_MODCACHE = {}


def load_module_cached(relpath, **kw):
    """source text and code object are cached per process; a fresh namespace is still executed for every path"""
    return load_module(relpath, **kw)


def load_module(relpath, shims=None, repo=None, name=None, quiet=True):
    """exec the real source file from the repo in a fresh namespace with intercepted imports.
    shims: dict full module name -> object used instead of the real import."""
    from .core import REPO
    repo = repo or REPO
    path = os.path.join(repo, relpath)
    src = open(path).read()
    name = name or ('px_' + relpath.replace('/', '_').replace('.py', ''))
    shims = dict(shims or {})
    shims.setdefault('optimism.JaxConfig', jaxconfig_shim())
    mod = types.ModuleType(name)
    mod.__file__ = path
    real_import = builtins.__import__

    def fake_import(nm, globals=None, locals=None, fromlist=(), level=0):
        if level == 0:
            if nm in shims:
                if fromlist:
                    return shims[nm]
                top = nm.split('.')[0]
                return _top_pkg(top, shims, real_import)
            if fromlist:
                # `from optimism import X` where optimism.X is shimmed
                hit = [f for f in fromlist if (nm + '.' + f) in shims]
                if hit:
                    base = types.SimpleNamespace()
                    for f in fromlist:
                        full = nm + '.' + f
                        if full in shims:
                            setattr(base, f, shims[full])
                        else:
                            real = real_import(nm, globals, locals, (f,), 0)
                            setattr(base, f, getattr(real, f))
                    return base
        return real_import(nm, globals, locals, fromlist, level)
    b = dict(builtins.__dict__)
    b['__import__'] = fake_import
    if quiet:
        b['print'] = lambda *a, **k: None
    mod.__dict__['__builtins__'] = b
    code = compile(src, path, 'exec')
    exec(code, mod.__dict__)
    mod.__source__ = src
    return mod


def _top_pkg(top, shims, real_import):
    p = _Pkg()
    try:
        real = real_import(top)
        p.__dict__.update({k: v for k, v in real.__dict__.items() if not k.startswith('__')})
    except Exception:
        pass
    for full, obj in shims.items():
        parts = full.split('.')
        if parts[0] == top and len(parts) == 2:
            setattr(p, parts[1], obj)
    return p


# ---------------------------------------------------------------------------------------------------- loop extraction
class _Rewriter(ast.NodeTransformer):
    def __init__(self):
        self.depth = 0

    def visit_FunctionDef(self, n):
        return n

    def visit_Lambda(self, n):
        return n

    def visit_For(self, n):
        self.depth += 1
        self.generic_visit(n)
        self.depth -= 1
        return n
    visit_While = visit_For

    def _ret(self, kind, value, n):
        return ast.copy_location(ast.Return(ast.Tuple([ast.Constant(kind), value, ast.Call(ast.Name('locals', ast.Load()), [], [])], ast.Load())), n)

    def visit_Return(self, n):
        return self._ret('return', n.value or ast.Constant(None), n)

    def visit_Break(self, n):
        return n if self.depth else self._ret('break', ast.Constant(None), n)

    def visit_Continue(self, n):
        return n if self.depth else self._ret('next', ast.Constant(None), n)


def _assigned(nodes):
    names = set()
    for node in nodes:
        for sub in ast.walk(node):
            if isinstance(sub, ast.Name) and isinstance(sub.ctx, ast.Store):
                names.add(sub.id)
            if isinstance(sub, ast.arg):
                pass
    return names


def extract_step(mod, fname, select):
    """build `<fname>__step(__pre, __havoc, *args)` from the REAL source of function `fname` in module `mod`:
    select(funcdef) -> (loop_node, [prefix statements to run first]).  The step function (i) binds locals from __pre,
    (ii) runs the prefix statements, (iii) lets __havoc(locals) override the loop-carried locals, (iv) runs the loop body
    once.  Returns ('return', value, locals) | ('break', None, locals) | ('next', None, locals)."""
    tree = ast.parse(mod.__source__)
    fd = [n for n in ast.walk(tree) if isinstance(n, ast.FunctionDef) and n.name == fname][0]
    loop, prefix = select(fd)
    allnames = sorted(_assigned(fd.body) | ({loop.target.id} if isinstance(loop, ast.For) and isinstance(loop.target, ast.Name) else set()))
    body = [_Rewriter().visit(copy.deepcopy(s)) for s in loop.body]
    pre = [_Rewriter().visit(copy.deepcopy(s)) for s in prefix]
    args = [a.arg for a in fd.args.args]
    defaults = fd.args.defaults
    nd = len(args) - len(defaults)
    sig = ', '.join(a if i < nd else '%s=None' % a for i, a in enumerate(args))
    lines = ['def %s__step(__pre, __havoc, %s):' % (fname, sig)]
    for nm in allnames:
        lines.append("    if %r in __pre: %s = __pre[%r]" % (nm, nm, nm))
    if pre:
        m = ast.Module(body=pre, type_ignores=[])
        ast.fix_missing_locations(m)
        lines.append(textwrap.indent(ast.unparse(m), '    '))
    lines.append('    __ov = __havoc(dict(locals()))')
    for nm in allnames:
        lines.append("    if %r in __ov: %s = __ov[%r]" % (nm, nm, nm))
    m = ast.Module(body=body, type_ignores=[])
    ast.fix_missing_locations(m)
    lines.append(textwrap.indent(ast.unparse(m), '    '))
    lines.append("    return ('next', None, locals())")
    src = '\n'.join(lines)
    exec(compile(src, '<step of %s>' % fname, 'exec'), mod.__dict__)
    return mod.__dict__['%s__step' % fname], src, allnames


def loop_cond_src(loop):
    return ast.unparse(loop.test) if isinstance(loop, ast.While) else ast.unparse(loop.iter)
