"""JX: symbolic interpreter for jaxprs (JAX's IR of the real functions) over z3 reals.

Array values are numpy object arrays whose elements are Python numbers (concrete, folded with the real
primitive) or z3 terms.  Data-movement primitives are executed by binding the *real* primitive on an
integer array of element ids.  See DESIGN.md section 3.1.
"""
import math
import fractions
import numpy as onp
import z3
import jax
import jax.numpy as jnp
from jax import core, lax

from .sym import isz, num, rat, toz, tob, v_if, flat

jax.config.update('jax_enable_x64', True)


class Poison:
    def __repr__(self):
        return '<poison>'


POISON = Poison()


class JXError(Exception):
    pass


class Ctx:
    def __init__(self, ground=False, nan_mode=False):
        self.side = []          # definitional side conditions (already guarded)
        self.assumed = []       # (text, formula) assumptions introduced by the encoding (denominators, ...)
        self.denoms = []        # (guard, term) every symbolic denominator
        self.sqrt_args = []     # (guard, term)
        self.n = 0
        self.ufs = {}           # key -> (var, name, args)
        self.cache = {}         # hash-consing of stubs / linear solves
        self.guards = []        # stack of z3 bools
        self.ground = ground
        self.while_mode = {}    # eqn index or 'default' -> ('unroll', k) | ('hook', fn)
        self.unwind = []        # unwinding assertions (guard, cond_after_k)
        self.prims = set()
        self.uf_axioms = []
        self.hooks = {}         # primitive name -> fn(ctx, eqn, invals)

    def fresh(self, name='t', sort='R'):
        self.n += 1
        nm = '%s!%d' % (name, self.n)
        return {'R': z3.Real, 'I': z3.Int, 'B': z3.Bool}[sort](nm)

    def guard(self):
        if not self.guards:
            return None
        return z3.And(*self.guards) if len(self.guards) > 1 else self.guards[0]

    def add_side(self, f):
        g = self.guard()
        self.side.append(z3.Implies(g, f) if g is not None else f)

    def all_side(self):
        return list(self.side) + ackermann(self) + list(self.uf_axioms)

    def nonzero_denoms(self):
        out = []
        for g, d in self.denoms:
            c = d != 0
            out.append(z3.Implies(g, c) if g is not None else c)
        return out


# ------------------------------------------------------------------------------------------ helpers
def lift(a):
    if isinstance(a, onp.ndarray) and a.dtype == object:
        return a
    a = onp.asarray(a)
    o = onp.empty(a.shape, dtype=object)
    if a.shape == ():
        o[()] = a.item()
        return o
    of = o.reshape(-1)
    for i, v in enumerate(a.reshape(-1).tolist()):
        of[i] = v
    return o


def all_concrete(vals):
    for v in vals:
        if isinstance(v, onp.ndarray) and v.dtype == object:
            for x in v.ravel():
                if isz(x) or x is POISON:
                    return False
    return True


def to_jnp(v, aval):
    a = onp.empty(v.shape, dtype=aval.dtype)
    af = a.reshape(-1)
    for i, x in enumerate(v.ravel()):
        af[i] = x
    return jnp.asarray(a.reshape(v.shape))


def ground_num(ctx, x):
    """in ground mode reduce a ground z3 term to a python Fraction/bool, else None"""
    if not isz(x):
        return x
    s = z3.simplify(x)
    if z3.is_true(s):
        return True
    if z3.is_false(s):
        return False
    if z3.is_rational_value(s):
        return fractions.Fraction(s.numerator_as_long(), s.denominator_as_long())
    if z3.is_int_value(s):
        return s.as_long()
    return None


def ew(fn, *args):
    args = [lift(a) for a in args]
    shp = ()
    for a in args:
        if a.shape != ():
            shp = a.shape
            break
    if any(a.shape != () and a.shape != shp for a in args):
        # lax elementwise ops accept equal-rank operands with size-1 dimensions (seen after vmap): numpy broadcasting
        shp = onp.broadcast_shapes(*[a.shape for a in args if a.shape != ()])
        args = [onp.broadcast_to(a, shp) if a.shape != () else a for a in args]
    out = onp.empty(shp, dtype=object)
    if shp == ():
        out[()] = fn(*[a[()] for a in args])
        return out
    fl = [a.reshape(-1) if a.shape != () else None for a in args]
    of = out.reshape(-1)
    for i in range(of.size):
        of[i] = fn(*[(f[i] if f is not None else a[()]) for f, a in zip(fl, args)])
    return out


def s_add(a, b):
    if num(a) and num(b):
        return a + b
    if num(a) and a == 0:
        return b
    if num(b) and b == 0:
        return a
    return toz(a) + toz(b)


def s_sub(a, b):
    if num(a) and num(b):
        return a - b
    if num(b) and b == 0:
        return a
    if num(a) and a == 0:
        return -b
    return toz(a) - toz(b)


def s_mul(a, b):
    if num(a) and num(b):
        return a * b
    if num(a):
        if a == 0:
            return 0.0
        if a == 1:
            return b
        if a == -1:
            return -b
    if num(b):
        if b == 0:
            return 0.0
        if b == 1:
            return a
        if b == -1:
            return -a
    return toz(a) * toz(b)


def s_sum(xs):
    r = 0.0
    for x in xs:
        r = s_add(r, x)
    return r


def s_lt(a, b):
    return (a < b) if num(a) and num(b) else toz(a) < toz(b)


def s_le(a, b):
    return (a <= b) if num(a) and num(b) else toz(a) <= toz(b)


def s_eq(a, b):
    if num(a) and num(b):
        return a == b
    if (isz(a) and z3.is_bool(a)) or (isz(b) and z3.is_bool(b)):
        return tob(a) == tob(b)
    return toz(a) == toz(b)


def s_max(a, b):
    if num(a) and num(b):
        return max(a, b)
    a, b = toz(a), toz(b)
    return z3.If(a >= b, a, b)


def s_min(a, b):
    if num(a) and num(b):
        return min(a, b)
    a, b = toz(a), toz(b)
    return z3.If(a <= b, a, b)


def s_and(a, b):
    if num(a) and num(b):
        return bool(a) and bool(b)
    if num(a):
        return b if a else False
    if num(b):
        return a if b else False
    return z3.And(a, b)


def s_or(a, b):
    if num(a) and num(b):
        return bool(a) or bool(b)
    if num(a):
        return True if a else b
    if num(b):
        return True if b else a
    return z3.Or(a, b)


def s_not(a):
    return (not a) if num(a) else z3.Not(a)


def term_key(x):
    if isz(x):
        return ('z', x.get_id())
    return ('c', repr(x))


def structural(prim, params, invals, which=(0,)):
    """apply a data-movement primitive to object arrays by moving element ids with the real primitive"""
    table = []
    args = []
    for k, v in enumerate(invals):
        if k in which:
            v = lift(v)
            base = len(table)
            table.extend(v.reshape(-1).tolist() if v.dtype != object else list(v.reshape(-1)))
            args.append(jnp.asarray(onp.arange(base, base + v.size).reshape(v.shape), dtype=jnp.int64))
        else:
            args.append(v)
    out = prim.bind(*args, **params)
    outs = out if prim.multiple_results else [out]
    res = []
    for o in outs:
        o = onp.asarray(o)
        r = onp.empty(o.shape, dtype=object)
        rf = r.reshape(-1)
        for i, t in enumerate(o.reshape(-1).tolist()):
            rf[i] = table[t]
        res.append(r)
    return res if prim.multiple_results else res[0]


# ------------------------------------------------------------------------------------------ the interpreter
CALLS = ('pjit', 'closed_call', 'core_call', 'custom_jvp_call', 'custom_vjp_call', 'custom_vjp_call_jaxpr',
         'remat', 'checkpoint', 'custom_lin')
TRANSCENDENTAL = ('log', 'exp', 'log1p', 'expm1', 'pow', 'sin', 'cos', 'tan', 'acos', 'asin', 'atan', 'atan2',
                  'tanh', 'sinh', 'cosh', 'erf', 'logistic', 'exp2')
_NP_NAME = {'pow': 'power', 'acos': 'arccos', 'asin': 'arcsin', 'atan': 'arctan', 'atan2': 'arctan2'}


def eval_jaxpr(ctx, jaxpr, consts, *args):
    env = {}

    def read(v):
        if isinstance(v, core.Literal):
            return lift(onp.asarray(v.val))
        return env[v]

    for v, c in zip(jaxpr.constvars, consts):
        env[v] = lift(onp.asarray(c)) if not (isinstance(c, onp.ndarray) and c.dtype == object) else c
    assert len(jaxpr.invars) == len(args), (len(jaxpr.invars), len(args))
    for v, a in zip(jaxpr.invars, args):
        env[v] = lift(a)
    for eqn in jaxpr.eqns:
        invals = [read(v) for v in eqn.invars]
        outs = apply(ctx, eqn, invals)
        if not eqn.primitive.multiple_results:
            outs = [outs]
        for v, o in zip(eqn.outvars, outs):
            env[v] = o
    return [read(v) for v in jaxpr.outvars]


def closed(cj):
    if hasattr(cj, 'jaxpr') and hasattr(cj, 'consts'):
        return cj.jaxpr, cj.consts
    return cj, []


def apply(ctx, eqn, iv):
    p = eqn.primitive.name
    P = eqn.params
    ctx.prims.add(p)
    if p in ctx.hooks:
        r = ctx.hooks[p](ctx, eqn, iv)
        if r is not NotImplemented:
            return r
    if p in CALLS:
        cj = P.get('jaxpr') or P.get('call_jaxpr') or P.get('fun_jaxpr')
        j, c = closed(cj)
        return eval_jaxpr(ctx, j, c, *iv)
    if p == 'cond':
        return do_cond(ctx, eqn, iv)
    if p == 'while':
        return do_while(ctx, eqn, iv)
    if p == 'scan':
        return do_scan(ctx, eqn, iv)
    if p == 'custom_linear_solve':
        return do_linear_solve(ctx, eqn, iv)
    if p in ('lu', 'lu_pivots_to_permutation') and not all_concrete(iv):
        return [onp.full(v.aval.shape, POISON, dtype=object) for v in eqn.outvars]
    # ---- concrete fallback: run the real primitive
    if all_concrete(iv) and not ctx.ground:
        return concrete_bind(eqn, iv)
    if ctx.ground and all_concrete(iv) and p not in ELEMENTWISE:
        return concrete_bind(eqn, iv)
    if any(x is POISON for v in iv for x in v.ravel()):
        raise JXError('use of a poisoned value (LU factors of a symbolic matrix) in %s' % p)
    f = ELEMENTWISE.get(p)
    if f is not None:
        return f(ctx, P, iv)
    f = OTHER.get(p)
    if f is not None:
        return f(ctx, eqn, iv)
    raise JXError('primitive not supported symbolically: %s' % p)


def concrete_bind(eqn, iv):
    args = [to_jnp(v, var.aval) for v, var in zip(iv, eqn.invars)]
    sub, params = eqn.primitive.get_bind_params(eqn.params) if hasattr(eqn.primitive, 'get_bind_params') else ([], eqn.params)
    out = eqn.primitive.bind(*sub, *args, **params)
    if eqn.primitive.multiple_results:
        return [lift(onp.asarray(o)) for o in out]
    return lift(onp.asarray(out))


# ---- elementwise
def _div(ctx, P, iv):
    def d(a, b):
        if num(a) and num(b):
            if b == 0:
                return float('nan') if a == 0 else math.copysign(float('inf'), a)
            return a / b
        if ctx.ground:
            bn = ground_num(ctx, toz(b))
            if bn == 0:
                raise JXError('ground division by zero')
        if num(a) and a == 0 and False:
            return 0.0
        if isz(b):
            ctx.denoms.append((ctx.guard(), b))
        if num(b) and b == 1:
            return a
        return toz(a) / toz(b)
    return ew(d, *iv)


def sym_sqrt(ctx, a):
    if num(a):
        return math.sqrt(a) if a >= 0 else float('nan')
    if ctx.ground:
        g = ground_num(ctx, a)
        if g is not None:
            return rat(math.sqrt(float(g))) if g >= 0 else POISON
    key = ('sqrt', a.get_id())
    if key in ctx.cache:
        return ctx.cache[key]
    s = ctx.fresh('sqrt')
    # guarded definition: a negative radicand on an untaken branch must not make the query vacuous
    ctx.side.append(z3.Implies(a >= 0, z3.And(s >= 0, s * s == a)))
    ctx.sqrt_args.append((ctx.guard(), a))
    ctx.cache[key] = s
    return s


def _sqrt(ctx, P, iv):
    return ew(lambda a: sym_sqrt(ctx, a), iv[0])


def _rsqrt(ctx, P, iv):
    def f(a):
        s = sym_sqrt(ctx, a)
        if num(s):
            return 1.0 / s
        ctx.denoms.append((ctx.guard(), s))
        return 1 / s
    return ew(f, iv[0])


def _ipow(ctx, P, iv):
    y = P['y']

    def ip(a):
        if num(a):
            return a ** y
        if y == 0:
            return 1.0
        r = a
        for _ in range(abs(y) - 1):
            r = r * a
        if y < 0:
            ctx.denoms.append((ctx.guard(), r))
            return 1 / r
        return r
    return ew(ip, iv[0])


def sym_uf(ctx, name, args):
    if all(num(x) for x in args):
        fn = getattr(onp, _NP_NAME.get(name, name), None)
        if fn is None:
            import scipy.special as sp
            fn = {'erf': sp.erf, 'logistic': sp.expit}[name]
        return float(fn(*[float(x) for x in args]))
    if ctx.ground:
        gs = [ground_num(ctx, toz(x)) for x in args]
        if all(g is not None for g in gs):
            fn = getattr(onp, _NP_NAME.get(name, name))
            return rat(float(fn(*[float(g) for g in gs])))
    key = (name,) + tuple(term_key(x) for x in args)
    if key not in ctx.ufs:
        v = ctx.fresh(name)
        ctx.ufs[key] = (v, name, [toz(x) for x in args])
    return ctx.ufs[key][0]


def _pow(ctx, P, iv):
    def f(a, b):
        if num(b) and float(b).is_integer() and abs(b) <= 8 and isz(a):
            y = int(b)
            if y == 0:
                return 1.0
            r = a
            for _ in range(abs(y) - 1):
                r = r * a
            if y < 0:
                ctx.denoms.append((ctx.guard(), r))
                return 1 / r
            return r
        if num(b) and b == 0.5 and isz(a):
            return sym_sqrt(ctx, a)
        return sym_uf(ctx, 'pow', [a, b])
    return ew(f, *iv)


def _sign(ctx, P, iv):
    def f(a):
        if num(a):
            return float(onp.sign(a))
        return z3.If(a > 0, z3.RealVal(1), z3.If(a < 0, z3.RealVal(-1), z3.RealVal(0)))
    return ew(f, iv[0])


def _select_n(ctx, P, iv):
    c = iv[0]
    cases = iv[1:]

    def f(c, *cs):
        if num(c):
            return cs[int(c)]
        if z3.is_bool(c):
            assert len(cs) == 2
            return v_if(c, cs[1], cs[0])
        r = cs[-1]
        for k in range(len(cs) - 2, -1, -1):
            r = v_if(c == k, cs[k], r)
        return r
    return ew(f, c, *cases)


def _convert(ctx, P, iv):
    nd = onp.dtype(P['new_dtype'])

    def cv(a):
        if num(a):
            if isinstance(a, fractions.Fraction):
                return a
            return onp.asarray(a).astype(nd).item()
        if z3.is_bool(a):
            if nd == onp.bool_:
                return a
            return z3.If(a, z3.RealVal(1), z3.RealVal(0))
        if nd == onp.bool_:
            return a != 0
        if nd.kind in 'iu' and not z3.is_int(a):
            # float -> int conversion of a symbolic real: only sound when the value is integral (indices from bools)
            return a
        return a
    return ew(cv, iv[0])


def _clamp(ctx, P, iv):
    lo, x, hi = iv
    return ew(lambda l, a, h: s_min(s_max(a, l), h), lo, x, hi)


def _is_finite(ctx, P, iv):
    return ew(lambda a: True if isz(a) else math.isfinite(a), iv[0])


def _mk(fn):
    return lambda ctx, P, iv: ew(fn, *iv)


def _mk_uf(name):
    return lambda ctx, P, iv: ew(lambda *a: sym_uf(ctx, name, list(a)), *iv)


ELEMENTWISE = {
    'add': _mk(s_add), 'add_any': _mk(s_add), 'sub': _mk(s_sub), 'mul': _mk(s_mul), 'div': _div,
    'neg': _mk(lambda a: -a), 'abs': _mk(lambda a: abs(a) if num(a) else z3.If(a >= 0, a, -a)),
    'sign': _sign, 'max': _mk(s_max), 'min': _mk(s_min), 'integer_pow': _ipow,
    'square': _mk(lambda a: s_mul(a, a)), 'sqrt': _sqrt, 'rsqrt': _rsqrt, 'pow': _pow,
    'lt': _mk(s_lt), 'le': _mk(s_le), 'gt': _mk(lambda a, b: s_lt(b, a)), 'ge': _mk(lambda a, b: s_le(b, a)),
    'eq': _mk(s_eq), 'ne': _mk(lambda a, b: s_not(s_eq(a, b))),
    'and': _mk(s_and), 'or': _mk(s_or), 'not': _mk(s_not),
    'select_n': _select_n, 'convert_element_type': _convert, 'clamp': _clamp, 'is_finite': _is_finite,
    'stop_gradient': lambda ctx, P, iv: iv[0], 'copy': lambda ctx, P, iv: iv[0], 'copy_p': lambda ctx, P, iv: iv[0],
    'real': lambda ctx, P, iv: iv[0],
}
for _n in TRANSCENDENTAL:
    if _n != 'pow':
        ELEMENTWISE[_n] = _mk_uf(_n)


# ---- reductions, contractions, movement
def _reduce(op, init):
    def f(ctx, eqn, iv):
        a = iv[0]
        axes = tuple(eqn.params['axes'])
        keep = [i for i in range(a.ndim) if i not in axes]
        moved = onp.transpose(a, keep + list(axes))
        newshape = tuple(a.shape[i] for i in keep)
        res = onp.empty(newshape, dtype=object)
        m2 = moved.reshape(newshape + (-1,))
        for idx in (onp.ndindex(*newshape) if newshape else [()]):
            xs = list(m2[idx])
            r = init
            for x in xs:
                r = x if r is None else op(r, x)
            res[idx] = r
        return res
    return f


def _dot_general(ctx, eqn, iv):
    a, b = iv
    (ca, cb), (ba, bb) = eqn.params['dimension_numbers']
    ca, cb, ba, bb = list(ca), list(cb), list(ba), list(bb)
    fa = [i for i in range(a.ndim) if i not in ca + ba]
    fb = [i for i in range(b.ndim) if i not in cb + bb]
    A = onp.transpose(a, ba + fa + ca)
    B = onp.transpose(b, bb + cb + fb)
    bs = A.shape[:len(ba)]
    fas = A.shape[len(ba):len(ba) + len(fa)]
    cs = A.shape[len(ba) + len(fa):]
    fbs = B.shape[len(bb) + len(cb):]
    pr = lambda s: int(onp.prod(s)) if len(s) else 1
    nb, nfa, nc, nfb = pr(bs), pr(fas), pr(cs), pr(fbs)
    A2 = A.reshape((nb, nfa, nc))
    B2 = B.reshape((nb, nc, nfb))
    res = onp.empty((nb, nfa, nfb), dtype=object)
    for n_ in range(nb):
        for i in range(nfa):
            for j in range(nfb):
                res[n_, i, j] = s_sum([s_mul(A2[n_, i, k], B2[n_, k, j]) for k in range(nc)])
    return res.reshape(tuple(bs) + tuple(fas) + tuple(fbs))


def _idx(v):
    if not all_concrete([v]):
        raise JXError('symbolic index array')
    return jnp.asarray(onp.asarray(v.tolist(), dtype=onp.int64).reshape(v.shape))


def _movement(which_fn):
    def f(ctx, eqn, iv):
        which, conv = which_fn(iv)
        args = [(_idx(v) if k in conv else v) for k, v in enumerate(iv)]
        return structural(eqn.primitive, eqn.params, args, which=which)
    return f


def _scatter_add(ctx, eqn, iv):
    operand, idx, upd = iv
    idxc = _idx(idx)
    out = operand.copy().reshape(-1)
    uflat = upd.reshape(-1)
    zop = jnp.zeros(operand.shape, dtype=jnp.int64)
    # which target does each update element hit: bind the real primitive on unit updates (batched by ids)
    ids = jnp.asarray((onp.arange(uflat.size) + 1).reshape(upd.shape), dtype=jnp.int64)
    # ids may collide when summed; do one unit vector at a time for exactness (sizes are small)
    for u in range(uflat.size):
        if num(uflat[u]) and uflat[u] == 0:
            continue
        e = onp.zeros(uflat.size, dtype=onp.int64)
        e[u] = 1
        r = onp.asarray(eqn.primitive.bind(zop, idxc, jnp.asarray(e.reshape(upd.shape)), **eqn.params)).reshape(-1)
        for tpos in onp.nonzero(r)[0]:
            out[tpos] = s_add(out[tpos], uflat[u])
    return out.reshape(operand.shape)


def _iota(ctx, eqn, iv):
    return lift(onp.asarray(eqn.primitive.bind(**eqn.params)))


def _cumsum(ctx, eqn, iv):
    a = iv[0]
    ax = eqn.params['axis']
    rev = eqn.params.get('reverse', False)
    m = onp.moveaxis(a, ax, -1).copy()
    rng = range(m.shape[-1])
    for idx in (onp.ndindex(*m.shape[:-1]) if m.ndim > 1 else [()]):
        acc = 0.0
        order = reversed(rng) if rev else rng
        for k in order:
            acc = s_add(acc, m[idx + (k,)])
            m[idx + (k,)] = acc
    return onp.moveaxis(m, -1, ax)


def _argminmax(is_min):
    def f(ctx, eqn, iv):
        a = iv[0]
        axes = eqn.params['axes']
        assert len(axes) == 1
        m = onp.moveaxis(a, axes[0], -1)
        res = onp.empty(m.shape[:-1], dtype=object)
        for idx in (onp.ndindex(*m.shape[:-1]) if m.ndim > 1 else [()]):
            xs = list(m[idx])
            best, bi = xs[0], 0
            for k in range(1, len(xs)):
                c = s_lt(xs[k], best) if is_min else s_lt(best, xs[k])
                best = v_if(c, xs[k], best)
                bi = v_if(c, k, bi)
            res[idx] = bi
        return res
    return f


def _sort(ctx, eqn, iv):
    if len(iv) != 1 or iv[0].ndim != 1:
        raise JXError('symbolic sort only for one 1-D operand')
    xs = list(iv[0])
    n = len(xs)
    for i in range(n):
        for j in range(n - 1 - i):
            lo, hi = s_min(xs[j], xs[j + 1]), s_max(xs[j], xs[j + 1])
            xs[j], xs[j + 1] = lo, hi
    out = onp.empty((n,), dtype=object)
    for i, x in enumerate(xs):
        out[i] = x
    return [out]


def _gather(ctx, eqn, iv):
    if all_concrete([iv[1]]):
        return structural(eqn.primitive, eqn.params, [iv[0], _idx(iv[1])], which=(0,))
    # symbolic index: enumerate the possible index values (only for small 1-D index ranges)
    operand, idx = iv
    if idx.size != 1 and idx.shape[-1] != 1:
        raise JXError('symbolic multi-dim gather index')
    dn = eqn.params['dimension_numbers']
    ax = dn.start_index_map[0]
    n = operand.shape[ax]
    outs = []
    for k in range(n):
        ik = onp.full(idx.shape, k, dtype=onp.int64)
        outs.append(structural(eqn.primitive, eqn.params, [operand, jnp.asarray(ik)], which=(0,)))
    if idx.size != 1:
        raise JXError('symbolic gather with several indices')
    i0 = idx.reshape(-1)[0]
    res = outs[-1]
    for k in range(n - 2, -1, -1):
        res = ew(lambda a, b, k=k: v_if(toz(i0) == k, a, b), outs[k], res)
    return res


def _dynamic_slice(ctx, eqn, iv):
    starts = iv[1:]
    if not all_concrete(starts):
        raise JXError('symbolic dynamic_slice start')
    return structural(eqn.primitive, eqn.params, [iv[0]] + [jnp.asarray(int(s[()])) for s in starts], which=(0,))


def _dynamic_update_slice(ctx, eqn, iv):
    starts = iv[2:]
    if not all_concrete(starts):
        raise JXError('symbolic dynamic_update_slice start')
    return structural(eqn.primitive, eqn.params, [iv[0], iv[1]] + [jnp.asarray(int(s[()])) for s in starts], which=(0, 1))


def _scatter(ctx, eqn, iv):
    return structural(eqn.primitive, eqn.params, [iv[0], _idx(iv[1]), iv[2]], which=(0, 2))


OTHER = {
    'reduce_sum': _reduce(s_add, 0.0), 'reduce_max': _reduce(s_max, None), 'reduce_min': _reduce(s_min, None),
    'reduce_prod': _reduce(s_mul, 1.0), 'reduce_and': _reduce(s_and, True), 'reduce_or': _reduce(s_or, False),
    'dot_general': _dot_general, 'scatter-add': _scatter_add, 'scatter_add': _scatter_add, 'scatter': _scatter,
    'iota': _iota, 'cumsum': _cumsum, 'argmin': _argminmax(True), 'argmax': _argminmax(False), 'sort': _sort,
    'gather': _gather, 'dynamic_slice': _dynamic_slice, 'dynamic_update_slice': _dynamic_update_slice,
    'concatenate': lambda ctx, eqn, iv: structural(eqn.primitive, eqn.params, iv, which=tuple(range(len(iv)))),
    'pad': lambda ctx, eqn, iv: structural(eqn.primitive, eqn.params, iv, which=(0, 1)),
}
for _n in ('slice', 'squeeze', 'broadcast_in_dim', 'reshape', 'transpose', 'rev', 'expand_dims'):
    OTHER[_n] = (lambda ctx, eqn, iv: structural(eqn.primitive, eqn.params, iv, which=(0,)))


# ---- control flow
def do_cond(ctx, eqn, iv):
    idx = iv[0]
    ops = iv[1:]
    brs = eqn.params['branches']
    i = idx[()] if idx.shape == () else idx.reshape(-1)[0]
    if ctx.ground and isz(i):
        g = ground_num(ctx, i)
        if g is not None:
            i = int(g)
    if num(i):
        b = brs[int(i)]
        return eval_jaxpr(ctx, b.jaxpr, b.consts, *ops)
    outs = []
    for k, b in enumerate(brs):
        ctx.guards.append(toz(i) == k)
        try:
            outs.append(eval_jaxpr(ctx, b.jaxpr, b.consts, *ops))
        finally:
            ctx.guards.pop()
    res = outs[-1]
    for k in range(len(brs) - 2, -1, -1):
        res = [ew(lambda a, b, k=k: v_if(toz(i) == k, a, b), o0, o1) for o0, o1 in zip(outs[k], res)]
    return res


def do_while(ctx, eqn, iv):
    P = eqn.params
    cn, bn = P['cond_nconsts'], P['body_nconsts']
    cc, bc, carry = iv[:cn], iv[cn:cn + bn], iv[cn + bn:]
    cj, bj = P['cond_jaxpr'], P['body_jaxpr']
    mode = ctx.while_mode.get('default', ('unroll', 64))
    if mode[0] == 'hook':
        return mode[1](ctx, eqn, cc, bc, carry)
    k = mode[1]
    # unroll: result = carry after i iterations where i is the first with cond false
    states = [list(carry)]
    conds = []
    for it in range(k + 1):
        c = eval_jaxpr(ctx, cj.jaxpr, cj.consts, *cc, *states[-1])[0][()]
        if ctx.ground and isz(c):
            g = ground_num(ctx, c)
            if g is not None:
                c = bool(g)
        if num(c) and not c:
            conds.append(False)
            break
        conds.append(c)
        if it == k:
            break
        if isz(c):
            ctx.guards.append(c)
        try:
            states.append(eval_jaxpr(ctx, bj.jaxpr, bj.consts, *bc, *states[-1]))
        finally:
            if isz(c):
                ctx.guards.pop()
    if len(conds) == k + 1 and not (num(conds[-1]) and not conds[-1]):
        # bound reached: unwinding assertion = all conds true is infeasible
        ctx.unwind.append((ctx.guard(), z3.And(*[tob(c) for c in conds])))
        conds[-1] = False
    res = states[len(conds) - 1]
    for it in range(len(conds) - 2, -1, -1):
        c = conds[it]
        res = [ew(lambda a, b, c=c: v_if(s_not(c), a, b), s0, r0) for s0, r0 in zip(states[it], res)]
    return res


def do_scan(ctx, eqn, iv):
    P = eqn.params
    nc, ncar = P['num_consts'], P['num_carry']
    consts, carry, xs = iv[:nc], list(iv[nc:nc + ncar]), iv[nc + ncar:]
    j = P['jaxpr']
    length = P['length']
    ys = []
    rng = range(length - 1, -1, -1) if P.get('reverse') else range(length)
    for t in rng:
        out = eval_jaxpr(ctx, j.jaxpr, j.consts, *consts, *carry, *[x[t] for x in xs])
        carry = out[:ncar]
        ys.append(out[ncar:])
    if P.get('reverse'):
        ys = ys[::-1]
    stacked = []
    for k in range(len(ys[0]) if ys else 0):
        arr = onp.empty((length,) + ys[0][k].shape, dtype=object)
        for t in range(length):
            arr[t] = ys[t][k]
        stacked.append(arr)
    return list(carry) + stacked


def do_linear_solve(ctx, eqn, iv):
    P = eqn.params
    cl = P['const_lengths']
    jx = P['jaxprs']
    nm = cl.matvec
    mv_consts = iv[:nm]
    b = iv[nm + cl.vecmat + cl.solve + cl.transpose_solve:]
    key = ('cls', id(jx.matvec.jaxpr)) + tuple(term_key(x) for c in mv_consts for x in c.ravel() if x is not POISON) \
        + tuple(term_key(x) for bb in b for x in bb.ravel())
    if key in ctx.cache:
        return ctx.cache[key]
    xs = [ew(lambda _: ctx.fresh('lsx'), bb) for bb in b]
    r = eval_jaxpr(ctx, jx.matvec.jaxpr, jx.matvec.consts, *mv_consts, *xs)
    eqs = []
    for ri, bi in zip(r, b):
        for x, y in zip(ri.reshape(-1), bi.reshape(-1)):
            eqs.append(toz(x) == toz(y))
    if ctx.ground:
        s = z3.Solver()
        s.add(*eqs)
        if s.check() != z3.sat:
            raise JXError('ground linear solve has no solution')
        m = s.model()
        xs = [ew(lambda v: m.eval(v, model_completion=True), x) for x in xs]
    else:
        for e in eqs:
            ctx.add_side(e)
        ctx.assumed.append(('linear system solved via custom_linear_solve is assumed non-singular', None))
    ctx.cache[key] = xs
    return xs


# ------------------------------------------------------------------------------------------ UF support
def ackermann(ctx):
    cons = []
    items = list(ctx.ufs.values())
    for i in range(len(items)):
        for j in range(i + 1, len(items)):
            (v1, n1, a1), (v2, n2, a2) = items[i], items[j]
            if n1 == n2 and len(a1) == len(a2):
                cons.append(z3.Implies(z3.And(*[x == y for x, y in zip(a1, a2)]), v1 == v2))
    return cons


def uf_axioms(ctx, monotone=('log', 'exp', 'log1p', 'expm1', 'sqrt'), extra=True):
    """ground instances of basic axioms for the transcendental terms that occur"""
    ax = []
    items = list(ctx.ufs.values())
    for v, n, a in items:
        if n == 'exp':
            ax += [v > 0, z3.Implies(a[0] == 0, v == 1), v >= 1 + a[0]]
        if n == 'log':
            ax += [z3.Implies(a[0] == 1, v == 0), z3.Implies(a[0] > 0, v <= a[0] - 1)]
        if n == 'log1p':
            ax += [z3.Implies(a[0] == 0, v == 0), z3.Implies(a[0] > -1, v <= a[0])]
        if n == 'expm1':
            ax += [v > -1, z3.Implies(a[0] == 0, v == 0), v >= a[0]]
        if n == 'pow':
            ax += [z3.Implies(a[0] > 0, v > 0), z3.Implies(a[0] == 1, v == 1)]
        if n in ('cos', 'sin'):
            ax += [v <= 1, v >= -1]
    for i in range(len(items)):
        for j in range(len(items)):
            if i == j:
                continue
            (v1, n1, a1), (v2, n2, a2) = items[i], items[j]
            if n1 == n2 and n1 in monotone and len(a1) == 1:
                ax.append(z3.Implies(a1[0] < a2[0], v1 < v2))
    return ax


# ------------------------------------------------------------------------------------------ extra primitives
uf_p = core.Primitive('vf_uf')


def uf(x, name='f', order=0):
    return uf_p.bind(x, name=name, order=order)


uf_p.def_abstract_eval(lambda x, name, order: core.ShapedArray(x.shape, x.dtype))
uf_p.def_impl(lambda x, name, order: (_ for _ in ()).throw(JXError('uf has no concrete implementation')))


def _uf_jvp(primals, tangents, name, order):
    (x,), (t,) = primals, tangents
    return uf(x, name, order), uf(x, name, order + 1) * t


jax.interpreters.ad.primitive_jvps[uf_p] = _uf_jvp


def _uf_batch(args, dims, name, order):
    return uf(args[0], name, order), dims[0]


jax.interpreters.batching.primitive_batchers[uf_p] = _uf_batch


def _uf_eval(ctx, P, iv):
    name, order = P['name'], P['order']
    impl = getattr(ctx, 'uf_impl', {}).get((name, order))

    def f(a):
        if impl is not None:
            return impl(a)
        key = ('uf', name, order, term_key(a))
        if key not in ctx.ufs:
            v = ctx.fresh('%s%d' % (name, order))
            ctx.ufs[key] = (v, 'uf:%s:%d' % (name, order), [toz(a)])
        return ctx.ufs[key][0]
    return ew(f, iv[0])


ELEMENTWISE['vf_uf'] = _uf_eval

havoc_p = core.Primitive('vf_havoc')
havoc_p.def_abstract_eval(lambda x, tag: core.ShapedArray(x.shape, x.dtype))


def havoc(x, tag='h'):
    return havoc_p.bind(x, tag=tag)


def _havoc_eval(ctx, P, iv):
    key = ('havoc', P['tag']) + tuple(term_key(x) for x in iv[0].ravel())
    if key not in ctx.cache:
        ctx.cache[key] = ew(lambda _: ctx.fresh(P['tag']), iv[0])
        ctx.havocs = getattr(ctx, 'havocs', {})
        ctx.havocs.setdefault(P['tag'], []).append((iv[0], ctx.cache[key]))
    return ctx.cache[key]


ELEMENTWISE['vf_havoc'] = _havoc_eval
jax.interpreters.batching.primitive_batchers[havoc_p] = lambda args, dims, tag: (havoc(args[0], tag), dims[0])


# ------------------------------------------------------------------------------------------ front end
def trace(fn, *example, **kw):
    return jax.make_jaxpr(fn, **kw)(*example)


def run(cj, symargs, ctx=None):
    ctx = ctx or Ctx()
    flat_args = []
    for a in symargs:
        flat_args.append(a)
    outs = eval_jaxpr(ctx, cj.jaxpr, cj.consts, *flat_args)
    return ctx, outs


def find_eqns(jaxpr, name, out=None):
    """all equations of a primitive, searching through calls"""
    out = [] if out is None else out
    for e in jaxpr.eqns:
        if e.primitive.name == name:
            out.append(e)
        for k, v in e.params.items():
            vs = v if isinstance(v, (tuple, list)) else [v]
            for x in vs:
                if hasattr(x, 'jaxpr') and hasattr(x.jaxpr, 'eqns'):
                    find_eqns(x.jaxpr, name, out)
                elif hasattr(x, 'eqns'):
                    find_eqns(x, name, out)
    return out


def validate(fn, example_args, n=3, seed=0, rtol=1e-9, scale=1.0, sampler=None, cj=None):
    """translator validation: run the symbolic code path on ground z3 numerals and compare with the real function"""
    rng = onp.random.default_rng(seed)
    cj = cj or trace(fn, *example_args)
    worst = 0.0
    for k in range(n):
        if sampler is not None:
            args = sampler(rng)
        else:
            args = [onp.asarray(a, dtype=float) * 0 + rng.uniform(-scale, scale, size=onp.shape(a)) if k else onp.asarray(a, dtype=float)
                    for a in example_args]
        real = jax.tree_util.tree_leaves(fn(*[jnp.asarray(a) for a in args]))
        ctx = Ctx(ground=True)
        gargs = [ew(lambda v: rat(v), onp.asarray(a, dtype=float)) for a in args]
        outs = eval_jaxpr(ctx, cj.jaxpr, cj.consts, *gargs)
        for o, r in zip(outs, real):
            r = onp.asarray(r, dtype=float)
            for x, y in zip(o.reshape(-1), r.reshape(-1)):
                if x is POISON:
                    continue
                g = ground_num(ctx, toz(x)) if isz(x) else x
                if g is None:
                    raise JXError('validation: output did not reduce to a numeral: %s' % x)
                g = float(g)
                if math.isnan(y) and math.isnan(g):
                    continue
                err = abs(g - y) / (1.0 + abs(y))
                worst = max(worst, err)
                if not err <= rtol:
                    raise JXError('translator validation failed: JX %r vs real %r (inputs %s)' % (g, y, [a.tolist() for a in args]))
    return worst
